(* Proofs/StreamProofs.v — invariants of the stream model preserved by EVERY primitive operation, hence by every
   operation sequence (whatever rules, bytecode and text produced it). *)
From GR Require Import Base.Bytes Model.StreamModel.
From Coq Require Import ZArith Lia Permutation.
Local Open Scope Z_scope.

(* ------------------------------------------------------------ list facts *)
Lemma mem_In s l : mem s l = true <-> In s l.
Proof.
  unfold mem. rewrite existsb_exists. split.
  - intros (t & Ht & E). apply N.eqb_eq in E. subst. exact Ht.
  - intros H. exists s. split; [exact H|apply N.eqb_refl].
Qed.
Lemma mem_false s l : mem s l = false <-> ~ In s l.
Proof. rewrite <- mem_In. destruct (mem s l); split; intros; congruence. Qed.

Lemma In_insert_before nw at_ l x : In x (insert_before nw at_ l) <-> x = nw \/ In x l.
Proof.
  induction l as [|y r IH]; cbn [insert_before].
  - cbn [In]. split; [intros [H|[]]; left; symmetry; exact H|intros [H|[]]; left; symmetry; exact H].
  - destruct (y =? at_)%N; cbn [In].
    + split; [intros [H|[H|H]]; [left; symmetry; exact H|right; left; exact H|right; right; exact H]
             |intros [H|[H|H]]; [left; symmetry; exact H|right; left; exact H|right; right; exact H]].
    + rewrite IH. split; [intros [H|[H|H]]; [right; left; exact H|left; exact H|right; right; exact H]
                         |intros [H|[H|H]]; [right; left; exact H|left; exact H|right; right; exact H]].
Qed.
Lemma NoDup_insert_before nw at_ l : NoDup l -> ~ In nw l -> NoDup (insert_before nw at_ l).
Proof.
  induction l as [|y r IH]; intros Hnd Hn; cbn [insert_before].
  - constructor; [intros []|constructor].
  - inversion Hnd as [|? ? Hy Hr]; subst. destruct (y =? at_)%N.
    + constructor; [exact Hn|exact Hnd].
    + constructor.
      * rewrite In_insert_before. intros [->|H]; [apply Hn; left; reflexivity|exact (Hy H)].
      * apply IH; [exact Hr|intros H; apply Hn; right; exact H].
Qed.
Lemma length_insert_before nw at_ l : In at_ l -> length (insert_before nw at_ l) = S (length l).
Proof.
  induction l as [|y r IH]; intros H; [destruct H|]. cbn [insert_before].
  destruct (y =? at_)%N eqn:E; [reflexivity|]. cbn [length]. f_equal. apply IH.
  destruct H as [->|H]; [rewrite N.eqb_refl in E; discriminate|exact H].
Qed.
Lemma NoDup_remove s l : NoDup l -> NoDup (remove s l).
Proof. intros H. unfold remove. apply NoDup_filter. exact H. Qed.
Lemma In_remove s l x : In x (remove s l) <-> In x l /\ x <> s.
Proof.
  unfold remove. rewrite filter_In. split; intros [H1 H2]; split; try exact H1.
  - intros ->. rewrite N.eqb_refl in H2. discriminate.
  - apply Bool.negb_true_iff. apply N.eqb_neq. exact H2.
Qed.
Lemma NoDup_snoc (s : sid) l : NoDup l -> ~ In s l -> NoDup (l ++ [s]).
Proof.
  intros H Hn. induction l as [|x r IH]; cbn [app]; [constructor; [intros []|constructor]|].
  inversion H as [|? ? Hx Hr]; subst. constructor.
  - rewrite in_app_iff. intros [Hi|[->|[]]]; [exact (Hx Hi)|apply Hn; left; reflexivity].
  - apply IH; [exact Hr|intros Hi; apply Hn; right; exact Hi].
Qed.

(* ------------------------------------------------------------ reversal is a permutation *)
Lemma take_marks_split l : forall m rest, take_marks l = (m, rest) -> l = m ++ rest.
Proof.
  induction l as [|[s b] r IH]; intros m rest H; cbn [take_marks] in H.
  - inversion H; reflexivity.
  - destruct b.
    + destruct (take_marks r) as [m' rest'] eqn:E. inversion H; subst. cbn [app]. f_equal. apply IH. reflexivity.
    + inversion H; reflexivity.
Qed.
Lemma take_marks_length l m rest : take_marks l = (m, rest) -> (length rest <= length l)%nat.
Proof. intros H. apply take_marks_split in H. subst. rewrite app_length. lia. Qed.

Lemma clusters_concat fuel : forall l, (length l < fuel)%nat -> concat (clusters fuel l) = map fst l.
Proof.
  induction fuel as [|fuel IH]; intros l Hf; [lia|]. cbn [clusters].
  destruct l as [|[s b] r]; [reflexivity|].
  destruct (take_marks r) as [m rest] eqn:E. cbn [concat map fst].
  pose proof (take_marks_split _ _ _ E) as Hs. pose proof (take_marks_length _ _ _ E) as Hl.
  rewrite IH by (cbn [length] in Hf; lia). rewrite Hs, map_app. cbn [app]. reflexivity.
Qed.

Lemma Permutation_concat_rev {A} (ls : list (list A)) : Permutation (concat (rev ls)) (concat ls).
Proof.
  induction ls as [|x r IH]; [constructor|]. cbn [rev concat]. rewrite concat_app. cbn [concat]. rewrite app_nil_r.
  rewrite Permutation_app_comm. apply Permutation_app_head. exact IH.
Qed.

Lemma rev_keep_marks_perm l marks : length marks = length l -> Permutation (rev_keep_marks l marks) l.
Proof.
  intros Hl. unfold rev_keep_marks.
  destruct (take_marks (combine l marks)) as [lead rest] eqn:E.
  pose proof (take_marks_split _ _ _ E) as Hs.
  assert (Hm : map fst (combine l marks) = l).
  { clear -Hl. revert marks Hl. induction l as [|x r IH]; intros [|b m] H; cbn in *; try congruence. f_equal. apply IH. lia. }
  assert (Hl2 : l = map fst lead ++ map fst rest) by (rewrite <- map_app, <- Hs; symmetry; exact Hm).
  apply (Permutation_trans (l' := map fst lead ++ map fst rest)); [|rewrite <- Hl2; reflexivity].
  apply Permutation_app_head.
  etransitivity; [apply Permutation_concat_rev|]. rewrite clusters_concat by lia. reflexivity.
Qed.

(* ------------------------------------------------------------ C03: the stream has no repeated slot *)
Definition wf_stream (st : sstate) : Prop := NoDup (st_stream st).

Lemma with_attr_ok st s k st' : with_attr st s k = Ok st' -> exists a, aget (st_attr st) s = Some a /\ k a = Ok st'.
Proof. unfold with_attr. destruct (aget (st_attr st) s) as [a|]; [|discriminate]. intros H. exists a. split; [reflexivity|exact H]. Qed.

(* the operations that leave the stream order alone *)
Lemma stream_upd_attr st s a : st_stream (upd_attr st s a) = st_stream st.
Proof. reflexivity. Qed.
Lemma stream_set_par st s p : st_stream (set_par st s p) = st_stream st.
Proof. unfold set_par. destruct (aget (st_attr st) s); reflexivity. Qed.
Lemma stream_remove_kid st p s : st_stream (remove_kid st p s) = st_stream st.
Proof. unfold remove_kid. destruct (aget (st_attr st) p); reflexivity. Qed.
Lemma stream_free_kids fuel : forall st s, st_stream (free_kids fuel st s) = st_stream st.
Proof.
  induction fuel as [|fuel IH]; intros st s; cbn [free_kids]; [reflexivity|].
  destruct (aget (st_attr st) s) as [a|]; [|reflexivity].
  destruct (a_kids a) as [|k r]; [reflexivity|].
  destruct (aget (st_attr st) k) as [ka|]; [|reflexivity].
  destruct (match a_par ka with Some p => (p =? s)%N | None => false end); [|reflexivity].
  rewrite IH, stream_remove_kid, stream_set_par. reflexivity.
Qed.

Theorem apply_op_wf_stream st o st' : wf_stream st -> apply_op st o = Ok st' -> wf_stream st'.
Proof.
  unfold wf_stream. intros Hnd H. destruct o; cbn [apply_op] in H.
  - (* append *) unfold do_append in H. destruct (aget (st_attr st) s); [discriminate|].
    destruct (mem s (st_stream st)) eqn:Em; [discriminate|]. inversion H; subst. cbn.
    apply NoDup_snoc; [exact Hnd|apply mem_false; exact Em].
  - (* insert *) unfold do_insert in H. destruct (aget (st_attr st) nw); [discriminate|].
    destruct (mem nw (st_stream st)) eqn:Em; [discriminate|]. apply mem_false in Em.
    destruct at_ as [iss|].
    + destruct (negb (mem iss (st_stream st))); [discriminate|].
      apply with_attr_ok in H. destruct H as (ia & _ & H). inversion H; subst. cbn.
      apply NoDup_insert_before; assumption.
    + inversion H; subst. cbn. apply NoDup_snoc; assumption.
  - (* delete *) unfold do_delete in H. destruct (negb (mem s (st_stream st))); [discriminate|].
    apply with_attr_ok in H. destruct H as (a & _ & H). inversion H; subst. cbn. apply NoDup_remove. exact Hnd.
  - (* putcopy *) unfold do_putcopy in H. apply with_attr_ok in H. destruct H as (a & _ & H).
    apply with_attr_ok in H. destruct H as (ra & _ & H).
    cbv zeta in H. destruct (match a_par ra with Some p => if (p =? s)%N then None else Some p | None => None end) as [p|].
    + apply with_attr_ok in H. destruct H as (pa & _ & H). inversion H; subst. exact Hnd.
    + inversion H; subst. exact Hnd.
  - (* tempcopy *) unfold do_tempcopy in H. destruct (aget (st_attr st) nw); [discriminate|].
    apply with_attr_ok in H. destruct H as (a & _ & H). inversion H; subst. exact Hnd.
  - (* free *) unfold do_free in H. destruct (aget (st_attr st) s) as [a|]; [|inversion H; subst; exact Hnd].
    set (st1 := match a_par a with Some p => remove_kid st p s | None => st end) in H.
    set (st2 := free_kids (S (length (a_kids a))) st1 s) in H.
    assert (E2 : st_stream st2 = st_stream st).
    { subst st2. rewrite stream_free_kids. subst st1. destruct (a_par a); [apply stream_remove_kid|reflexivity]. }
    clearbody st2. inversion H; subst. cbn [st_stream]. rewrite E2. apply NoDup_remove. exact Hnd.
  - (* detach *) unfold do_detach in H. apply with_attr_ok in H. destruct H as (a & _ & H).
    destruct (a_par a); inversion H; subst; [rewrite stream_set_par, stream_remove_kid|]; exact Hnd.
  - (* attach *) unfold do_attach in H. apply with_attr_ok in H. destruct H as (a & _ & H).
    apply with_attr_ok in H. destruct H as (oa & _ & H).
    match type of H with (if ?c then _ else _) = _ => destruct c; [discriminate|] end.
    match type of H with (if ?c then _ else _) = _ => destruct c end; inversion H; subst; [exact Hnd|].
    rewrite stream_set_par. exact Hnd.
  - (* assoc *) unfold do_assoc in H. apply with_attr_ok in H. destruct H as (a & _ & H).
    destruct (fold_left _ refs (-1, -1)) as [mn mx]. destruct (-1 <? mn); inversion H; subst; exact Hnd.
  - (* reverse *) unfold do_reverse in H. destruct (negb (length marks =? length (st_stream st))%nat) eqn:El; [discriminate|].
    apply Bool.negb_false_iff, Nat.eqb_eq in El.
    destruct (st_stream st) as [|x [|y r]] eqn:Es; inversion H; subst; try (rewrite Es; exact Hnd).
    cbn [st_stream set_stream]. eapply Permutation_NoDup; [symmetry; apply rev_keep_marks_perm; exact El|]. rewrite <- Es in *. exact Hnd.
  - (* assocchars *) unfold do_assocchars in H.
    destruct (assoc_pass2 _ _ _ _) as [m2 cs2]. inversion H; subst. exact Hnd.
  - inversion H; subst. exact Hnd.
Qed.

Theorem run_ops_wf_stream ops : forall st st', wf_stream st -> run_ops st ops = Ok st' -> wf_stream st'.
Proof.
  induction ops as [|o r IH]; intros st st' Hw H; cbn [run_ops] in H; [inversion H; subst; exact Hw|].
  destruct (apply_op st o) as [st1|e] eqn:E; [|discriminate].
  eapply IH; [eapply apply_op_wf_stream; eassumption|exact H].
Qed.

Theorem segment_stream_wf nchars rtl ops st : run_ops (st0 nchars rtl) ops = Ok st -> NoDup (st_stream st).
Proof. apply run_ops_wf_stream. constructor. Qed.

(* reversal keeps exactly the same slots (in particular their number) *)
Theorem reverse_same_slots st marks st' : apply_op st (OReverse marks) = Ok st' -> Permutation (st_stream st') (st_stream st).
Proof.
  cbn [apply_op]. unfold do_reverse. destruct (negb (length marks =? length (st_stream st))%nat) eqn:El; [discriminate|].
  apply Bool.negb_false_iff, Nat.eqb_eq in El.
  destruct (st_stream st) as [|x [|y r]] eqn:Es; intros H; inversion H; subst; try (rewrite Es; reflexivity).
  cbn [st_stream set_stream]. apply rev_keep_marks_perm. exact El.
Qed.

(* ------------------------------------------------------------ C05: character associations stay inside [0, nchars) *)
Definition in_range (n : Z) (a : sattr) : Prop :=
  0 <= a_before a < n /\ 0 <= a_after a < n /\ 0 <= a_orig a < n.
Definition ranges_ok (st : sstate) : Prop :=
  0 <= st_deforig st < st_nchars st /\ forall s a, aget (st_attr st) s = Some a -> in_range (st_nchars st) a.
Definition op_ok (n : Z) (o : op) : Prop := match o with OAppend _ ci => 0 <= ci < n | _ => True end.

Lemma aget_aset m s a t : aget (aset m s a) t = if (t =? s)%N then Some a else aget m t.
Proof. reflexivity. Qed.

Lemma ranges_upd st s a : ranges_ok st -> in_range (st_nchars st) a -> ranges_ok (upd_attr st s a).
Proof.
  intros [Hd H] Ha. split; [exact Hd|]. intros t b. cbn [upd_attr st_attr st_nchars]. rewrite aget_aset.
  destruct (t =? s)%N; [intros E; inversion E; subst; exact Ha|apply H].
Qed.
Lemma ranges_set_stream st l : ranges_ok st -> ranges_ok (set_stream st l).
Proof. intros H. exact H. Qed.
Lemma ranges_remove_kid st p s : ranges_ok st -> ranges_ok (remove_kid st p s).
Proof.
  intros H. unfold remove_kid. destruct (aget (st_attr st) p) as [pa|] eqn:E; [|exact H].
  apply ranges_upd; [exact H|]. destruct H as [_ H]. exact (H p pa E).
Qed.
Lemma ranges_set_par st s p : ranges_ok st -> ranges_ok (set_par st s p).
Proof.
  intros H. unfold set_par. destruct (aget (st_attr st) s) as [a|] eqn:E; [|exact H].
  apply ranges_upd; [exact H|]. destruct H as [_ H]. exact (H s a E).
Qed.
Lemma ranges_free_kids fuel : forall st s, ranges_ok st -> ranges_ok (free_kids fuel st s).
Proof.
  induction fuel as [|fuel IH]; intros st s H; cbn [free_kids]; [exact H|].
  destruct (aget (st_attr st) s) as [a|] eqn:Ea; [|exact H].
  destruct (a_kids a) as [|k r]; [exact H|].
  assert (Hclear : ranges_ok (upd_attr st s (mkattr (a_before a) (a_after a) (a_orig a) (a_index a) (a_par a) [] (a_copied a) (a_deleted a)))).
  { apply ranges_upd; [exact H|]. destruct H as [_ H]. exact (H s a Ea). }
  destruct (aget (st_attr st) k) as [ka|]; [|exact Hclear].
  destruct (match a_par ka with Some p => (p =? s)%N | None => false end); [|exact Hclear].
  apply IH. apply ranges_remove_kid. apply ranges_set_par. exact H.
Qed.

Definition assoc_step (m : amap) (mm : Z * Z) (r : option sid) : Z * Z :=
  match r with
  | None => mm
  | Some t => match aget m t with
              | Some ta => (if (fst mm =? -1) || (a_before ta <? fst mm) then a_before ta else fst mm,
                            if snd mm <? a_after ta then a_after ta else snd mm)
              | None => mm
              end
  end.
Definition assoc_J (n : Z) (mm : Z * Z) : Prop := (fst mm = -1 /\ snd mm = -1) \/ (0 <= fst mm < n /\ 0 <= snd mm < n).

Lemma assoc_fold_range (m : amap) n refs : (forall s a, aget m s = Some a -> in_range n a) ->
  forall mm, assoc_J n mm -> assoc_J n (fold_left (assoc_step m) refs mm).
Proof.
  intros Hm. induction refs as [|r rs IH]; intros mm HJ; cbn [fold_left]; [exact HJ|].
  apply IH. unfold assoc_step. destruct r as [t|]; [|exact HJ].
  destruct (aget m t) as [ta|] eqn:Et; [|exact HJ].
  destruct (Hm t ta Et) as (Hb & Ha & _). unfold assoc_J in *. cbn [fst snd].
  destruct HJ as [[E1 E2]|[R1 R2]].
  - rewrite E1, E2. rewrite Z.eqb_refl. cbn [orb]. right. split; [lia|]. destruct (-1 <? a_after ta) eqn:E; lia.
  - right. split.
    + destruct ((fst mm =? -1) || (a_before ta <? fst mm)); lia.
    + destruct (snd mm <? a_after ta); lia.
Qed.

Lemma ext_after_bound fuel : forall cs a n idx cs' r, 0 <= a -> ext_after fuel cs a n idx = (cs', r) -> a - 1 <= r /\ (r < n \/ r = a - 1).
Proof.
  induction fuel as [|fuel IH]; intros cs a n idx cs' r Ha H; cbn [ext_after] in H.
  - inversion H; subst. lia.
  - destruct ((a <? n) && match ci_get cs a with Some c => c_after c <? 0 | None => false end) eqn:E.
    + apply IH in H; [|lia]. apply andb_prop in E. destruct E as [E _]. lia.
    + inversion H; subst. lia.
Qed.
Lemma ext_before_bound fuel : forall cs a idx cs' r, ext_before fuel cs a idx = (cs', r) -> r <= a + 1 /\ (0 <= r \/ r = a + 1).
Proof.
  induction fuel as [|fuel IH]; intros cs a idx cs' r H; cbn [ext_before] in H.
  - inversion H; subst. lia.
  - destruct ((0 <=? a) && match ci_get cs a with Some c => c_before c <? 0 | None => false end) eqn:E.
    + apply IH in H. apply andb_prop in E. destruct E as [E _]. lia.
    + inversion H; subst. lia.
Qed.

Lemma set_indices_fields l : forall m i s a, aget (set_indices m l i) s = Some a ->
  exists b, aget m s = Some b /\ a_before a = a_before b /\ a_after a = a_after b /\ a_orig a = a_orig b.
Proof.
  induction l as [|x r IH]; intros m i s a H; cbn [set_indices] in H; [exists a; repeat split; exact H|].
  destruct (m x) as [xa|] eqn:Ex.
  - apply IH in H. destruct H as (b & Hb & E1 & E2 & E3). rewrite aget_aset in Hb.
    destruct (s =? x)%N eqn:Esx.
    + apply N.eqb_eq in Esx. subst s. inversion Hb; subst b. exists xa. cbn in *. repeat split; assumption.
    + exists b. repeat split; assumption.
  - apply IH in H. exact H.
Qed.

Lemma nchars_remove_kid st p s : st_nchars (remove_kid st p s) = st_nchars st.
Proof. unfold remove_kid. destruct (aget (st_attr st) p); reflexivity. Qed.
Lemma nchars_set_par st s p : st_nchars (set_par st s p) = st_nchars st.
Proof. unfold set_par. destruct (aget (st_attr st) s); reflexivity. Qed.
Lemma nchars_free_kids fuel : forall st s, st_nchars (free_kids fuel st s) = st_nchars st.
Proof.
  induction fuel as [|fuel IH]; intros st s; cbn [free_kids]; [reflexivity|].
  destruct (aget (st_attr st) s) as [a|]; [|reflexivity]. destruct (a_kids a) as [|k r]; [reflexivity|].
  destruct (aget (st_attr st) k) as [ka|]; [|reflexivity].
  destruct (match a_par ka with Some p => (p =? s)%N | None => false end); [|reflexivity].
  rewrite IH, nchars_remove_kid, nchars_set_par. reflexivity.
Qed.

Lemma assoc_pass2_range n : forall l m cs m' cs', 0 < n -> (forall s a, aget m s = Some a -> in_range n a) ->
  assoc_pass2 m l n cs = (m', cs') -> forall s a, aget m' s = Some a -> in_range n a.
Proof.
  induction l as [|x r IH]; intros m cs m' cs' Hn Hm H; cbn [assoc_pass2] in H; [inversion H; subst; exact Hm|].
  destruct (m x) as [xa|] eqn:Ex; [|eapply IH; eassumption].
  destruct (ext_after (S (Z.to_nat n)) cs (a_after xa + 1) n (a_index xa)) as [cs1 na] eqn:E1.
  destruct (ext_before (S (Z.to_nat n)) cs1 (a_before xa - 1) (a_index xa)) as [cs2 nb] eqn:E2.
  destruct (Hm x xa Ex) as (Hb & Ha & Ho).
  apply ext_after_bound in E1; [|lia]. apply ext_before_bound in E2.
  eapply IH; [exact Hn| |exact H].
  intros s a. rewrite aget_aset. destruct (s =? x)%N; [|apply Hm].
  intros E; inversion E; subst a. unfold in_range. cbn. lia.
Qed.

Theorem apply_op_ranges st o st' : 0 < st_nchars st -> ranges_ok st -> op_ok (st_nchars st) o -> apply_op st o = Ok st' ->
  ranges_ok st' /\ st_nchars st' = st_nchars st.
Proof.
  intros Hn Hr Hop H. destruct o; cbn [apply_op] in H.
  - unfold do_append in H. destruct (aget (st_attr st) s); [discriminate|]. destruct (mem s (st_stream st)); [discriminate|].
    inversion H; subst. split; [|reflexivity]. apply ranges_upd; [exact Hr|]. cbn in Hop. unfold in_range, fresh_attr; cbn. lia.
  - unfold do_insert in H. destruct (aget (st_attr st) nw); [discriminate|]. destruct (mem nw (st_stream st)); [discriminate|].
    destruct at_ as [iss|].
    + destruct (negb (mem iss (st_stream st))); [discriminate|].
      apply with_attr_ok in H. destruct H as (ia & Eia & H). inversion H; subst. split; [|reflexivity].
      apply ranges_upd; [exact Hr|]. destruct Hr as [Hd Hr]. destruct (Hr iss ia Eia) as (Hb & Ha & Ho).
      unfold in_range. cbn.
      assert (Hbef : 0 <= match prev_of iss (st_stream st) None with
                          | Some p => match aget (st_attr st) p with Some pa => a_after pa | None => a_before ia end
                          | None => a_before ia end < st_nchars st).
      { destruct (prev_of iss (st_stream st) None) as [p|]; [|exact Hb].
        destruct (aget (st_attr st) p) as [pa|] eqn:Ep; [|exact Hb]. destruct (Hr p pa Ep) as (_ & Hpa & _). exact Hpa. }
      lia.
    + inversion H; subst. split; [|reflexivity]. apply ranges_upd; [exact Hr|]. destruct Hr as [Hd Hr].
      destruct (last (map Some (st_stream st)) None) as [lst|].
      * destruct (aget (st_attr st) lst) as [la|] eqn:El.
        -- destruct (Hr lst la El) as (A & B & C). unfold in_range. cbn. lia.
        -- unfold in_range, fresh_attr. cbn. lia.
      * unfold in_range. cbn. lia.
  - unfold do_delete in H. destruct (negb (mem s (st_stream st))); [discriminate|].
    apply with_attr_ok in H. destruct H as (a & Ea & H). inversion H; subst. split; [|reflexivity].
    apply ranges_upd; [exact Hr|]. destruct Hr as [_ Hr]. exact (Hr s a Ea).
  - unfold do_putcopy in H. apply with_attr_ok in H. destruct H as (a & Ea & H).
    apply with_attr_ok in H. destruct H as (ra & Era & H).
    cbv zeta in H. set (par := match a_par ra with Some p => if (p =? s)%N then None else Some p | None => None end) in H. clearbody par.
    assert (H1 : ranges_ok (upd_attr st s (mkattr (a_before ra) (a_after ra) (a_orig ra) (a_index a) par [] false false))).
    { apply ranges_upd; [exact Hr|]. destruct Hr as [_ Hr]. exact (Hr ref ra Era). }
    destruct par as [p|].
    + apply with_attr_ok in H. destruct H as (pa & Epa & H). inversion H; subst. split; [|reflexivity].
      apply ranges_upd; [exact H1|]. destruct H1 as [_ H1]. exact (H1 p pa Epa).
    + inversion H; subst. split; [exact H1|reflexivity].
  - unfold do_tempcopy in H. destruct (aget (st_attr st) nw); [discriminate|].
    apply with_attr_ok in H. destruct H as (a & Ea & H). inversion H; subst. split; [|reflexivity].
    apply ranges_upd; [exact Hr|]. destruct Hr as [_ Hr]. exact (Hr s a Ea).
  - unfold do_free in H. destruct (aget (st_attr st) s) as [a|] eqn:Ea; [|inversion H; subst; split; [exact Hr|reflexivity]].
    set (st1 := match a_par a with Some p => remove_kid st p s | None => st end) in H.
    assert (R1 : ranges_ok st1 /\ st_nchars st1 = st_nchars st).
    { subst st1. destruct (a_par a); [split; [apply ranges_remove_kid; exact Hr|apply nchars_remove_kid]|split; [exact Hr|reflexivity]]. }
    destruct R1 as [R1 N1].
    pose proof (ranges_free_kids (S (length (a_kids a))) st1 s R1) as R2.
    set (st2 := free_kids (S (length (a_kids a))) st1 s) in *.
    assert (N2 : st_nchars st2 = st_nchars st1) by (subst st2; apply nchars_free_kids).
    clearbody st2. inversion H; subst. cbn [st_nchars]. split; [|lia].
    destruct R2 as [Rd R2]. split; [cbn; lia|]. intros t b. cbn [st_attr st_nchars]. unfold adel, aget.
    destruct (t =? s)%N; [discriminate|]. apply R2.
  - unfold do_detach in H. apply with_attr_ok in H. destruct H as (a & Ea & H).
    destruct (a_par a) as [p|]; inversion H; subst; (split; [|try reflexivity]).
    + apply ranges_set_par. apply ranges_remove_kid. exact Hr.
    + rewrite nchars_set_par, nchars_remove_kid. reflexivity.
    + exact Hr.
  - unfold do_attach in H. apply with_attr_ok in H. destruct H as (a & Ea & H).
    apply with_attr_ok in H. destruct H as (oa & Eoa & H).
    match type of H with (if ?c then _ else _) = _ => destruct c; [discriminate|] end.
    match type of H with (if ?c then _ else _) = _ => destruct c end; inversion H; subst; (split; [|try reflexivity]).
    + exact Hr.
    + apply ranges_set_par. apply ranges_upd; [exact Hr|]. destruct Hr as [_ Hr]. exact (Hr other oa Eoa).
    + rewrite nchars_set_par. reflexivity.
  - unfold do_assoc in H. apply with_attr_ok in H. destruct H as (a & Ea & H).
    pose proof (assoc_fold_range (st_attr st) (st_nchars st) refs (proj2 Hr) (-1, -1) (or_introl (conj eq_refl eq_refl))) as HJ.
    fold (assoc_step (st_attr st)) in H.
    change (fun (mm : Z * Z) (r : option sid) => _) with (assoc_step (st_attr st)) in H.
    destruct (fold_left (assoc_step (st_attr st)) refs (-1, -1)) as [mn mx].
    destruct (-1 <? mn) eqn:E; inversion H; subst; (split; [|reflexivity]); [|exact Hr].
    apply ranges_upd; [exact Hr|]. destruct Hr as [_ Hr]. destruct (Hr s a Ea) as (_ & _ & Ho).
    unfold assoc_J in HJ. cbn [fst snd] in HJ. unfold in_range. cbn. lia.
  - unfold do_reverse in H. destruct (negb (length marks =? length (st_stream st))%nat); [discriminate|].
    destruct (st_stream st) as [|x [|y r]]; inversion H; subst; (split; [exact Hr|reflexivity]).
  - unfold do_assocchars in H.
    destruct (assoc_pass2 _ _ _ _) as [m2 cs2] eqn:E2. inversion H; subst. cbn [st_nchars]. split; [|reflexivity].
    destruct Hr as [Hd Hr]. split; [exact Hd|]. cbn [st_attr st_nchars].
    eapply assoc_pass2_range; [exact Hn| |exact E2].
    intros s a Hs. apply set_indices_fields in Hs. destruct Hs as (b & Hb & E1 & E3 & E4).
    destruct (Hr s b Hb) as (A & B & C). unfold in_range. lia.
  - inversion H; subst. split; [exact Hr|reflexivity].
Qed.

Theorem run_ops_ranges ops : forall st st', 0 < st_nchars st -> ranges_ok st -> Forall (op_ok (st_nchars st)) ops ->
  run_ops st ops = Ok st' -> ranges_ok st' /\ st_nchars st' = st_nchars st.
Proof.
  induction ops as [|o r IH]; intros st st' Hn Hr Hops H; cbn [run_ops] in H; [inversion H; subst; split; [exact Hr|reflexivity]|].
  inversion Hops as [|? ? Ho Hos]; subst.
  destruct (apply_op st o) as [st1|e] eqn:E; [|discriminate].
  destruct (apply_op_ranges st o st1 Hn Hr Ho E) as [R1 N1].
  destruct (IH st1 st' ltac:(lia) R1 ltac:(rewrite N1; exact Hos) H) as [R2 N2]. split; [exact R2|lia].
Qed.

(* every slot of the stream of any reachable state has before, after and original inside [0, nchars) *)
Theorem segment_assoc_in_range nchars rtl ops st : 0 < nchars -> Forall (op_ok nchars) ops ->
  run_ops (st0 nchars rtl) ops = Ok st ->
  forall s a, aget (st_attr st) s = Some a -> 0 <= a_before a < nchars /\ 0 <= a_after a < nchars /\ 0 <= a_orig a < nchars.
Proof.
  intros Hn Hops H s a Ha.
  destruct (run_ops_ranges ops (st0 nchars rtl) st Hn) as [[_ R] N]; [split; [cbn; lia|intros ? ? E; discriminate E]|exact Hops|exact H|].
  cbn in N. rewrite <- N. exact (R s a Ha).
Qed.

(* after associateChars a char-info never has just one side: both are slot indices or both are unset *)
Lemma ci_both_sides_spec c : c_before (ci_both_sides c) < 0 <-> c_after (ci_both_sides c) < 0.
Proof.
  unfold ci_both_sides. destruct (Z.ltb_spec (c_before c) 0) as [Hb|Hb]; cbn [c_before c_after]; [tauto|].
  destruct (Z.ltb_spec (c_after c) 0) as [Ha|Ha]; cbn [c_before c_after]; lia.
Qed.
Lemma assocchars_sides_together st st' : do_assocchars st = Ok st' -> forall c, In c (st_cinfo st') -> (c_before c < 0 <-> c_after c < 0).
Proof.
  unfold do_assocchars. destruct (assoc_pass2 _ _ _ _) as [m2 cs2]. intros H. injection H as <-. cbn [st_cinfo].
  intros c Hin. apply in_map_iff in Hin. destruct Hin as [c0 [<- _]]. apply ci_both_sides_spec.
Qed.
