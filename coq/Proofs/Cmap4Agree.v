(* Proofs/Cmap4Agree.v — the interface of Proofs/CmapCache.v instantiated for format 4: on a subtable that CheckCmapSubtable4
   accepts and whose segments are well formed in the OpenType sense (start <= end, sorted, disjoint, last end 0xFFFF), the cache
   filled through CmapSubtable4NextCodepoint + keyed CmapSubtable4Lookup holds, for EVERY BMP code point, what the direct lookup
   (binary search of the end codes) returns. *)
From GR Require Import Base.Bytes Base.Mem Base.MemFacts Model.CmapModel Proofs.CmapCache Proofs.CmapSafe.
From Coq Require Import FMapPositive Lia ZifyN ZifyBool ZifyNat.
Local Open Scope N_scope.
Ltac Zify.zify_post_hook ::= Z.to_euclidean_division_equations.

Section Fmt4.
  Variable t : mem.
  Variable o nseg len sc : N.
  Hypothesis W : mem_wf t.
  Hypothesis Hlen : 16 + 8 * nseg <= len.
  Hypothesis Hin : o + len <= tlen t.
  Hypothesis H3 : w4 t o 3 = Some sc.
  Hypothesis Hsc : sc / 2 = nseg.
  Hypothesis H1 : w4 t o 1 = Some len.

  Definition wval (k : N) : N := match w4 t o k with Some v => v | None => 0 end.
  Lemma w4_val k : 2 * k + 2 <= len -> w4 t o k = Some (wval k).
  Proof. intros H. unfold wval. destruct (w4_some t o nseg len W Hlen Hin k H) as [v ->]. reflexivity. Qed.
  Definition en (i : N) : N := wval (7 + i).
  Definition st (i : N) : N := wval (7 + nseg + 1 + i).

  Hypothesis n_pos : 1 <= nseg.
  Hypothesis wf_se : forall i, i < nseg -> st i <= en i.
  Hypothesis wf_sorted : forall i j, i < j -> j < nseg -> en i < st j.
  Hypothesis wf_last : en (nseg - 1) = 0xFFFF.

  Lemma en_mono i j : i <= j -> j < nseg -> en i <= en j.
  Proof.
    intros Hij Hj. destruct (N.eq_dec i j) as [->|Hne]; [lia|].
    pose proof (wf_sorted i j ltac:(lia) Hj). pose proof (wf_se j Hj). lia.
  Qed.
  Lemma en_le i : i < nseg -> en i <= 0xFFFF.
  Proof. intros Hi. rewrite <- wf_last. apply en_mono; lia. Qed.
  Lemma wval_mono a b : 7 <= a -> a <= b -> b < 7 + nseg -> wval a <= wval b.
  Proof. intros Ha Hab Hb. pose proof (en_mono (a - 7) (b - 7) ltac:(lia) ltac:(lia)) as H. unfold en in H. replace (7 + (a - 7)) with a in H by lia. replace (7 + (b - 7)) with b in H by lia. exact H. Qed.

  (* ---- the binary search finds the first segment whose end code is >= c *)
  Lemma bsearch4_spec c : forall fuel left n, n < 2 ^ N.of_nat fuel -> 7 <= left -> left + n <= 7 + nseg -> (left = 7 \/ wval (left - 1) < c) ->
    match bsearch4 t o c fuel left n with
    | Some (Some (mid, ce)) => left <= mid /\ mid < left + n /\ ce = wval mid /\ c <= wval mid /\ (mid = 7 \/ wval (mid - 1) < c)
    | Some None => forall k, left <= k -> k < left + n -> wval k < c
    | None => False
    end.
  Proof.
    induction fuel as [|fuel IH]; intros left n Hn Hl Hr Hp.
    - cbn [bsearch4]. intros k H1' H2. cbn in Hn. lia.
    - cbn [bsearch4]. destruct (n =? 0) eqn:E0; [intros k Hk1 Hk2; lia|].
      assert (Hpow : 2 ^ N.of_nat (S fuel) = 2 * 2 ^ N.of_nat fuel) by (rewrite Nat2N.inj_succ, N.pow_succ_r'; reflexivity).
      rewrite Hpow in Hn. set (P := 2 ^ N.of_nat fuel) in *. clearbody P.
      rewrite (w4_val (left + n / 2)) by lia. cbn [bind].
      destruct (c <=? wval (left + n / 2)) eqn:Ec.
      + destruct (n / 2 =? 0) eqn:E1.
        * assert (Ez : left + n / 2 = left) by lia. rewrite Ez in *. repeat split; try lia.
        * rewrite (w4_val (left + n / 2 - 1)) by lia. cbn [bind].
          destruct (wval (left + n / 2 - 1) <? c) eqn:Ep.
          -- repeat split; try lia.
          -- specialize (IH left (n / 2) ltac:(lia) Hl ltac:(lia) Hp).
             destruct (bsearch4 t o c fuel left (n / 2)) as [[[mid ce]|]|]; [|exfalso|exact IH].
             ++ destruct IH as (I1 & I2 & I3 & I4 & I5). repeat split; try assumption; lia.
             ++ specialize (IH (left + n / 2 - 1) ltac:(lia) ltac:(lia)). lia.
      + specialize (IH (left + n / 2 + 1) (n - (n / 2 + 1)) ltac:(lia) ltac:(lia) ltac:(lia)).
        assert (Hp' : left + n / 2 + 1 = 7 \/ wval (left + n / 2 + 1 - 1) < c) by (right; replace (left + n / 2 + 1 - 1) with (left + n / 2) by lia; lia).
        specialize (IH Hp').
        destruct (bsearch4 t o c fuel (left + n / 2 + 1) (n - (n / 2 + 1))) as [[[mid ce]|]|]; [| |exact IH].
        * destruct IH as (I1 & I2 & I3 & I4 & I5). repeat split; try assumption; lia.
        * intros k Hk1 Hk2. destruct (N.le_gt_cases k (left + n / 2)) as [Hle|Hgt]; [|apply IH; lia].
          pose proof (wval_mono k (left + n / 2) ltac:(lia) Hle ltac:(lia)). lia.
  Qed.

  (* ---- the lookup: search, then the glyph computation on the segment found *)
  Definition tail4 (c : N) (found : option (N * N)) : option N :=
    match found with
    | None => Some 0
    | Some (mid, chEnd) =>
        let ms := mid + nseg + 1 in
        chStart <- w4 t o ms ;;
        if (c <=? chEnd) && (chStart <=? c) then
          delta <- w4 t o (ms + nseg) ;;
          ro <- w4 t o (ms + nseg + nseg) ;;
          if ro =? 0 then Some ((delta + c) mod 65536)
          else
            let off := (c - chStart) + ro / 2 + (ms + nseg + nseg) in
            len <- w4 t o 1 ;;
            if len <=? off * 2 + 1 then Some 0 else
            g <- w4 t o off ;;
            Some (if g =? 0 then 0 else (g + delta) mod 65536)
        else Some 0
    end.
  Lemma lookup4_unfold c key : lookup4 t o c key =
    (found <- (if negb (key =? 0) then chEnd <- w4 t o (7 + key) ;; Some (Some (7 + key, chEnd))
               else bsearch4 t o c (S (N.to_nat (N.log2 nseg + 2))) 7 nseg) ;; tail4 c found).
  Proof. unfold lookup4. rewrite H3. cbn [bind]. rewrite Hsc. reflexivity. Qed.

  Lemma fuel_enough : nseg < 2 ^ N.of_nat (S (N.to_nat (N.log2 nseg + 2))).
  Proof.
    rewrite Nat2N.inj_succ, N2Nat.id. pose proof (N.log2_spec nseg ltac:(lia)) as [_ Hs].
    eapply N.lt_le_trans; [exact Hs|]. apply N.pow_le_mono_r; lia.
  Qed.

  (* the direct search: the first segment whose end code is >= c (it exists: the last end code is 0xFFFF) *)
  Lemma direct_found c : c <= 0xFFFF -> exists i, i < nseg /\ c <= en i /\ (forall j, j < i -> en j < c) /\
    bsearch4 t o c (S (N.to_nat (N.log2 nseg + 2))) 7 nseg = Some (Some (7 + i, en i)).
  Proof.
    intros Hc. pose proof (bsearch4_spec c _ 7 nseg fuel_enough ltac:(lia) ltac:(lia) ltac:(left; reflexivity)) as Hs.
    destruct (bsearch4 t o c (S (N.to_nat (N.log2 nseg + 2))) 7 nseg) as [[[mid ce]|]|]; [| |contradiction].
    - destruct Hs as (S1 & S2 & S3 & S4 & S5). exists (mid - 7). replace (7 + (mid - 7)) with mid by lia.
      unfold en. replace (7 + (mid - 7)) with mid by lia. subst ce. repeat split; try lia.
      intros j Hj. destruct S5 as [->|S5]; [lia|].
      pose proof (wval_mono (7 + j) (mid - 1) ltac:(lia) ltac:(lia) ltac:(lia)). lia.
    - exfalso. specialize (Hs (7 + (nseg - 1)) ltac:(lia) ltac:(lia)). pose proof wf_last as Hl. unfold en in Hl. lia.
  Qed.

  Definition dl4 (c : N) : N := match lookup4 t o c 0 with Some g => g | None => 0 end.
  Definition G4 (c key : N) : Prop := key = 0 \/ (key < nseg /\ c <= en key /\ forall j, j < key -> en j < c).

  Lemma lookup4_total c key : key < nseg -> lookup4 t o c key <> None.
  Proof. intros Hk. exact (lookup4_body_safe t o nseg len W Hlen Hin c key sc Hsc H3 H1 Hk). Qed.

  Lemma G_look4 c key : c <= 0xFFFF -> G4 c key -> lookup4 t o c key = Some (dl4 c).
  Proof.
    intros Hc Hg. unfold dl4.
    assert (Hsame : lookup4 t o c key = lookup4 t o c 0).
    { destruct Hg as [->|(Hk & Hce & Hlow)]; [reflexivity|].
      destruct (N.eq_dec key 0) as [->|Hk0]; [reflexivity|].
      rewrite !lookup4_unfold. assert (E1 : negb (key =? 0) = true) by lia. assert (E2 : negb (0 =? 0) = false) by reflexivity. rewrite E1, E2.
      destruct (direct_found c Hc) as (i & Hi & Hci & Hli & ->).
      rewrite (w4_val (7 + key)) by lia. cbn [bind].
      assert (i = key).
      { destruct (N.lt_trichotomy i key) as [Hlt|[->|Hgt]]; [specialize (Hlow i Hlt); lia|reflexivity|specialize (Hli key Hgt); lia]. }
      subst i. reflexivity. }
    rewrite Hsame. destruct (lookup4 t o c 0) as [g|] eqn:E; [reflexivity|]. exfalso. exact (lookup4_total c 0 ltac:(lia) E).
  Qed.
  Lemma G_zero4 c : c <= 0xFFFF -> G4 c 0.
  Proof. intros _. left. reflexivity. Qed.

  Lemma unmapped4 d : d <= 0xFFFF -> (forall i, i < nseg -> d < st i \/ en i < d) -> dl4 d = 0.
  Proof.
    intros Hd H. unfold dl4. rewrite lookup4_unfold. assert (E2 : negb (0 =? 0) = false) by reflexivity. rewrite E2.
    destruct (direct_found d Hd) as (i & Hi & Hci & Hli & ->). cbn [bind tail4].
    rewrite (w4_val (7 + i + nseg + 1)) by lia. cbn [bind].
    assert (Es : wval (7 + i + nseg + 1) = st i) by (unfold st; f_equal; lia). rewrite Es.
    assert (E : ((d <=? en i) && (st i <=? d)) = false) by (specialize (H i Hi); lia). rewrite E. reflexivity.
  Qed.

  (* ---- NextCodepoint: the two scans *)
  Definition fdec4 (c : N) := fun i => s <- w4 t o (7 + nseg + 1 + i) ;; Some (c <? s).
  Definition finc4 (c : N) := fun i => e <- w4 t o (7 + i) ;; Some (e <? c).
  Lemma dec_spec4 c : forall fuel i, i < nseg -> (N.to_nat i < fuel)%nat ->
    exists r, dec_while fuel (fdec4 c) i = Some r /\ r <= i /\ (r = 0 \/ st r <= c).
  Proof.
    induction fuel as [|fuel IH]; intros i Hi Hf; [lia|]. cbn [dec_while].
    destruct (i =? 0) eqn:E0; [exists i; repeat split; try lia|].
    unfold fdec4 at 1. rewrite (w4_val (7 + nseg + 1 + i)) by lia. cbn [bind]. fold (st i).
    destruct (c <? st i) eqn:Ec.
    - destruct (IH (i - 1) ltac:(lia) ltac:(lia)) as (r & Hr & Hle & Hz). exists r. repeat split; try assumption; lia.
    - exists i. repeat split; try lia.
  Qed.
  Lemma inc_spec4 c : forall fuel i, i <= nseg - 1 -> (N.to_nat (nseg - 1 - i) < fuel)%nat ->
    exists r, inc_while fuel (finc4 c) (nseg - 1) i = Some r /\ i <= r /\ r <= nseg - 1 /\ (forall j, i <= j -> j < r -> en j < c) /\ (r = nseg - 1 \/ c <= en r).
  Proof.
    induction fuel as [|fuel IH]; intros i Hi Hf; [lia|]. cbn [inc_while].
    destruct (nseg - 1 <=? i) eqn:E0; [exists i; repeat split; try lia|].
    unfold finc4 at 1. rewrite (w4_val (7 + i)) by lia. cbn [bind]. fold (en i).
    destruct (en i <? c) eqn:Ec.
    - destruct (IH (i + 1) ltac:(lia) ltac:(lia)) as (r & Hr & I1 & I2 & I3 & I4). exists r. repeat split; try assumption; try lia.
      intros j Hj1 Hj2. destruct (N.eq_dec j i) as [->|Hne]; [lia|apply I3; lia].
    - exists i. repeat split; try lia.
  Qed.

  Definition next4_result (c i2 : N) : N * N :=
    let s := st i2 in let e := en i2 in
    let c' := if c <? s then s - 1 else c in
    if c' <? e then (c' + 1, i2)
    else if nseg <=? i2 + 1 then (0xFFFF, i2 + 1)
    else (st (i2 + 1), i2 + 1).
  Lemma next4_spec c key : 0 < c -> c < 0xFFFF -> G4 c key ->
    exists i2, i2 < nseg /\ (forall j, j < i2 -> en j < c) /\ (i2 = nseg - 1 \/ c <= en i2) /\ next4 t o c key = Some (next4_result c i2).
  Proof.
    intros Hc0 Hc1 Hg. assert (Hk : key < nseg) by (destruct Hg as [->|[Hk _]]; lia).
    destruct (dec_spec4 c (S (N.to_nat key)) key Hk ltac:(lia)) as (i1 & Hd & Hd1 & Hd2).
    destruct (inc_spec4 c (S (N.to_nat nseg)) i1 ltac:(lia) ltac:(lia)) as (i2 & Hi & Hi1 & Hi2 & Hi3 & Hi4).
    exists i2. split; [lia|]. split; [|split; [exact Hi4|]].
    - intros j Hj. destruct (N.lt_ge_cases j i1) as [Hlt|Hge]; [|apply Hi3; lia].
      destruct Hd2 as [->|Hd2]; [lia|]. pose proof (wf_sorted j i1 Hlt ltac:(lia)). lia.
    - unfold next4. rewrite H3. cbn [bind]. rewrite Hsc.
      assert (E1 : (c =? 0) = false) by lia. assert (E2 : (0xFFFF <=? c) = false) by lia. rewrite E1, E2.
      fold (fdec4 c). fold (finc4 c). rewrite Hd. cbn [bind]. rewrite Hi. cbn [bind].
      rewrite (w4_val (7 + nseg + 1 + i2)), (w4_val (7 + i2)) by lia. cbn [bind]. fold (st i2). fold (en i2). unfold next4_result. cbv zeta.
      destruct ((if c <? st i2 then st i2 - 1 else c) <? en i2); [reflexivity|].
      destruct (nseg <=? i2 + 1) eqn:E3; [reflexivity|]. rewrite (w4_val (7 + nseg + 1 + i2 + 1)) by lia. cbn [bind].
      unfold st. replace (7 + nseg + 1 + i2 + 1) with (7 + nseg + 1 + (i2 + 1)) by lia. reflexivity.
  Qed.

  Lemma next_good4 c key nx k : 0 < c -> c < 0xFFFF -> G4 c key -> next4 t o c key = Some (nx, k) -> c < nx -> nx <= 0xFFFF -> G4 nx k.
  Proof.
    intros Hc0 Hc1 Hg E Hlt Hle. destruct (next4_spec c key Hc0 Hc1 Hg) as (i2 & Hi & Hs & He & En). rewrite En in E. injection E as E.
    unfold next4_result in E. cbv zeta in E. pose proof (wf_se i2 Hi) as Ws.
    destruct ((if c <? st i2 then st i2 - 1 else c) <? en i2) eqn:E1.
    - injection E as <- <-. right. split; [exact Hi|]. split; [destruct (c <? st i2); lia|].
      intros j Hj. specialize (Hs j Hj). destruct (c <? st i2) eqn:E2; lia.
    - destruct (nseg <=? i2 + 1) eqn:E3; injection E as <- <-.
      + exfalso. assert (i2 = nseg - 1) by lia. subst i2. pose proof wf_last. destruct (c <? st (nseg - 1)) eqn:E2; lia.
      + right. split; [lia|]. split; [apply wf_se; lia|]. intros j Hj.
        pose proof (wf_sorted j (i2 + 1) ltac:(lia) ltac:(lia)). lia.
  Qed.

  Lemma next_skips4 c key nx k : 0 < c -> c < 0xFFFF -> G4 c key -> next4 t o c key = Some (nx, k) ->
    forall d, c < d -> d < nx -> d <= 0xFFFF -> dl4 d = 0.
  Proof.
    intros Hc0 Hc1 Hg E d Hd1 Hd2 Hd3. destruct (next4_spec c key Hc0 Hc1 Hg) as (i2 & Hi & Hs & He & En). rewrite En in E. injection E as E.
    unfold next4_result in E. cbv zeta in E. pose proof (wf_se i2 Hi) as Ws.
    apply (unmapped4 d Hd3). intros i Hin'.
    destruct (N.lt_trichotomy i i2) as [Hlt|[->|Hgt]].
    - right. specialize (Hs i Hlt). lia.
    - destruct ((if c <? st i2 then st i2 - 1 else c) <? en i2) eqn:E1.
      + injection E as <- <-. destruct (c <? st i2) eqn:E2; lia.
      + destruct (c <? st i2) eqn:E2; lia.
    - pose proof (wf_sorted i2 i Hgt Hin') as Hso.
      destruct ((if c <? st i2 then st i2 - 1 else c) <? en i2) eqn:E1.
      + injection E as <- <-. destruct (c <? st i2) eqn:E2; lia.
      + destruct (nseg <=? i2 + 1) eqn:E3; injection E as <- <-; [lia|].
        left. destruct (N.eq_dec i (i2 + 1)) as [->|Hne]; [lia|].
        pose proof (wf_sorted (i2 + 1) i ltac:(lia) Hin'). pose proof (wf_se (i2 + 1) ltac:(lia)). lia.
  Qed.

  Lemma next_total4 c key : 0 < c -> c < 0xFFFF -> G4 c key -> next4 t o c key <> None.
  Proof. intros Hc0 Hc1 Hg. destruct (next4_spec c key Hc0 Hc1 Hg) as (i2 & _ & _ & _ & En). rewrite En. discriminate. Qed.

  Lemma first4 : next4 t o 0 0 = Some (st 0, 0).
  Proof.
    unfold next4. rewrite H3. cbn [bind]. rewrite Hsc. assert (E : (0 =? 0) = true) by reflexivity. rewrite E.
    rewrite (w4_val (7 + nseg + 1)) by lia. cbn [bind]. unfold st. replace (7 + nseg + 1 + 0) with (7 + nseg + 1) by lia. reflexivity.
  Qed.
  Lemma first_good4 c0 k0 : next4 t o 0 0 = Some (c0, k0) -> (c0 <= 0xFFFF -> G4 c0 k0) /\ (forall d, d < c0 -> d <= 0xFFFF -> dl4 d = 0).
  Proof.
    rewrite first4. intros E. injection E as <- <-. split; [intros _; left; reflexivity|].
    intros d Hd Hd2. apply (unmapped4 d Hd2). intros i Hi. left. destruct (N.eq_dec i 0) as [->|Hne]; [exact Hd|].
    pose proof (wf_sorted 0 i ltac:(lia) Hi). pose proof (wf_se 0 ltac:(lia)). lia.
  Qed.

  Theorem cached4_eq_direct : exists m, cache_subtable (next4 t o) (lookup4 t o) 0xFFFF (PositiveMap.empty N) = Some (Some m) /\
    forall d, d <= 0xFFFF -> cget m d = dl4 d.
  Proof.
    assert (Hm0 : forall d, d <= 0xFFFF -> dl4 d = 0 -> cget (PositiveMap.empty N) d = 0).
    { intros d _ _. unfold cget. rewrite PositiveMap.gempty. reflexivity. }
    pose proof (cache_subtable_no_trap_G (next4 t o) (lookup4 t o) 0xFFFF dl4 G4 G_look4 G_zero4 next_good4 next_skips4 next_total4
                 (PositiveMap.empty N) Hm0 first_good4 ltac:(rewrite first4; discriminate)) as Hnt.
    pose proof (cache_subtable_terminates (next4 t o) (lookup4 t o) 0xFFFF (PositiveMap.empty N) ltac:(lia)) as Hterm.
    destruct (cache_subtable (next4 t o) (lookup4 t o) 0xFFFF (PositiveMap.empty N)) as [[m|]|] eqn:E; try contradiction.
    exists m. split; [reflexivity|].
    apply (cache_subtable_agrees_G (next4 t o) (lookup4 t o) 0xFFFF dl4 G4 G_look4 G_zero4 next_good4 next_skips4 next_total4
             (PositiveMap.empty N) Hm0 first_good4 m ltac:(lia) E).
  Qed.
End Fmt4.

(* a format-4 subtable whose segments are well formed in the OpenType sense *)
Definition wf4 (t : mem) (o : N) : Prop :=
  exists sc, w4 t o 3 = Some sc /\
    (forall i, i < sc / 2 -> st t o (sc / 2) i <= en t o i) /\
    (forall i j, i < j -> j < sc / 2 -> en t o i < st t o (sc / 2) j) /\
    en t o (sc / 2 - 1) = 0xFFFF.

Theorem cached4_eq_direct_checked t o : mem_wf t -> tlen t < S64 -> check4 t (Some o) = Some true -> wf4 t o ->
  exists m, cache_subtable (next4 t o) (lookup4 t o) 0xFFFF (PositiveMap.empty N) = Some (Some m) /\
            forall d, d <= 0xFFFF -> lookup4 t o d 0 = Some (cget m d).
Proof.
  intros W Hsz Hc (sc & H3 & Hse & Hso & Hla).
  destruct (check4_ok t o W Hsz Hc) as (sc' & len & H3' & H1 & Hpos & Hlen & Hin). rewrite H3 in H3'. injection H3' as <-.
  destruct (cached4_eq_direct t o (sc / 2) len sc W Hlen Hin H3 eq_refl H1 ltac:(lia) Hse Hso Hla) as (m & E & Hm).
  exists m. split; [exact E|]. intros d Hd. rewrite (Hm d Hd). unfold dl4.
  destruct (lookup4 t o d 0) as [g|] eqn:El; [reflexivity|]. exfalso.
  exact (lookup4_safe t o W Hsz Hc d 0 sc H3 ltac:(lia) El).
Qed.
