(* Proofs/UtfProofs.v — the three codecs satisfy the interface of UtfGeneric.v; plus codec-specific facts *)
From GR Require Import Base.Bytes Base.Sweep Model.UtfModel Proofs.UtfGeneric Proofs.UtfSweep8 Proofs.UtfSweep16.
From Coq Require Import Lia ZifyN ZifyBool ZifyNat.
Local Open Scope N_scope.
Ltac Zify.zify_post_hook ::= Z.to_euclidean_division_equations.

(* ================================================================ UTF-8: structural facts *)
Lemma cont_steps_bounds ths : forall u r l t u' l' t',
  cont_steps ths u r l t = Some (u', l', t') -> (l <= l' /\ l' <= l + length ths /\ l' - l <= length r)%nat.
Proof.
  induction ths as [|th ths IH]; intros u r l t u' l' t' H; cbn [cont_steps] in H.
  - inversion H; subst. cbn [length]. lia.
  - destruct r as [|b r]; [discriminate|].
    destruct (is_cont b).
    + apply IH in H. cbn [length]. lia.
    + inversion H; subst. cbn [length]. lia.
Qed.

(* every unit stepped over after the first is a continuation byte *)
Lemma cont_steps_skipped ths : forall u r l t u' l' t',
  cont_steps ths u r l t = Some (u', l', t') -> Forall (fun b => is_cont b = true) (firstn (l' - l) r).
Proof.
  induction ths as [|th ths IH]; intros u r l t u' l' t' H; cbn [cont_steps] in H.
  - inversion H; subst. rewrite Nat.sub_diag. constructor.
  - destruct r as [|b r]; [discriminate|].
    destruct (is_cont b) eqn:Eb.
    + pose proof (cont_steps_bounds _ _ _ _ _ _ _ _ H) as Hb.
      apply IH in H. replace (l' - l)%nat with (S (l' - S l)) by lia. cbn [firstn]. constructor; assumption.
    + inversion H; subst. rewrite Nat.sub_diag. constructor.
Qed.

Lemma cont_steps_ext ths : forall u r l t x rest,
  cont_steps ths u r l t = Some x -> cont_steps ths u (r ++ rest) l t = Some x.
Proof.
  induction ths as [|th ths IH]; intros u r l t x rest H; cbn [cont_steps] in *; [exact H|].
  destruct r as [|b r]; [discriminate|]. cbn [app].
  destruct (is_cont b); [apply IH; exact H|exact H].
Qed.

Lemma cont_steps_none ths : forall u r l t,
  cont_steps ths u r l t = None -> Forall (fun b => is_cont b = true) r /\ (length r < length ths)%nat.
Proof.
  induction ths as [|th ths IH]; intros u r l t H; cbn [cont_steps] in H; [discriminate|].
  destruct r as [|b r]; [split; [constructor|cbn; lia]|].
  destruct (is_cont b) eqn:Eb; [|discriminate].
  apply IH in H. destruct H as [Hf Hl]. split; [constructor; assumption|cbn [length]; lia].
Qed.

Lemma is_cont_zero : is_cont 0 = false.
Proof. reflexivity. Qed.

Lemma cont_steps_nul ths : forall u r rest l t,
  exists x, cont_steps ths u (r ++ 0 :: rest) l t = Some x /\ (snd (fst x) - l <= length r)%nat.
Proof.
  induction ths as [|th ths IH]; intros u r rest l t; cbn [cont_steps].
  - eexists; split; [reflexivity|]. cbn. lia.
  - destruct r as [|b r]; cbn [app].
    + rewrite is_cont_zero. eexists; split; [reflexivity|]. cbn. lia.
    + destruct (is_cont b).
      * destruct (IH (N.lor (N.shiftl u 6) (N.land b 63)) r rest (S l) (t || (N.lor (N.shiftl u 6) (N.land b 63) <? th)))
          as (x & Hx & Hl).
        exists x. split; [exact Hx|]. cbn [length]. lia.
      * eexists; split; [reflexivity|]. cbn. lia.
Qed.

Lemma thresholds_length sz : (length (thresholds sz) <= 3)%nat.
Proof. unfold thresholds. destruct (sz =? 4), (sz =? 3), (sz =? 2); cbn; lia. Qed.

Lemma get8_len m g : get8 m = Some g -> (1 <= g_len g <= length m)%nat.
Proof.
  unfold get8. destruct m as [|b0 r]; [discriminate|].
  destruct (seq_sz b0 =? 0); [intros H; inversion H; subst; cbn; lia|].
  destruct (cont_steps _ _ r 1 false) as [[[u l] t]|] eqn:E; [|discriminate].
  apply cont_steps_bounds in E. intros H.
  destruct (negb (N.of_nat l =? seq_sz b0) || t || (limit <=? u) || is_surrogate u); inversion H; subst; cbn [g_len length]; lia.
Qed.

Lemma get8_len4 m g : get8 m = Some g -> (g_len g <= 4)%nat.
Proof.
  unfold get8. destruct m as [|b0 r]; [discriminate|].
  destruct (seq_sz b0 =? 0); [intros H; inversion H; subst; cbn; lia|].
  destruct (cont_steps _ _ r 1 false) as [[[u l] t]|] eqn:E; [|discriminate].
  apply cont_steps_bounds in E. pose proof (thresholds_length (seq_sz b0)) as Ht. intros H.
  destruct (negb (N.of_nat l =? seq_sz b0) || t || (limit <=? u) || is_surrogate u); inversion H; subst; cbn [g_len]; lia.
Qed.

(* resynchronisation: whatever get8 steps over after the first unit is a continuation byte, so the next
   lead / ASCII byte is never consumed by an error *)
Lemma get8_skips_only_conts m g : get8 m = Some g ->
  Forall (fun b => is_cont b = true) (firstn (g_len g - 1) (tl m)).
Proof.
  unfold get8. destruct m as [|b0 r]; [discriminate|]. cbn [tl].
  destruct (seq_sz b0 =? 0); [intros H; inversion H; subst; cbn; constructor|].
  destruct (cont_steps _ _ r 1 false) as [[[u l] t]|] eqn:E; [|discriminate].
  apply cont_steps_skipped in E. intros H.
  destruct (negb (N.of_nat l =? seq_sz b0) || t || (limit <=? u) || is_surrogate u); inversion H; subst; cbn [g_len]; exact E.
Qed.

Lemma get8_ext m g rest : get8 m = Some g -> get8 (m ++ rest) = Some g.
Proof.
  unfold get8. destruct m as [|b0 r]; [discriminate|]. cbn [app].
  destruct (seq_sz b0 =? 0); [tauto|].
  destruct (cont_steps _ _ r 1 false) as [x|] eqn:E; [|discriminate].
  rewrite (cont_steps_ext _ _ _ _ _ _ rest E). tauto.
Qed.

(* lead-byte classes from the table *)
Lemma seq_sz_cases b : (seq_sz b = 0 /\ (0x80 <= b < 0xC0 \/ 0x100 <= b)) \/ (seq_sz b = 1 /\ b < 0x80) \/
  (seq_sz b = 2 /\ 0xC0 <= b < 0xE0) \/ (seq_sz b = 3 /\ 0xE0 <= b < 0xF0) \/ (seq_sz b = 4 /\ 0xF0 <= b < 0x100).
Proof.
  unfold seq_sz. rewrite N.shiftr_div_pow2. change (2 ^ 4) with 16.
  destruct (N.lt_ge_cases b 0x100) as [Hlt|Hge].
  - assert (Hk : (N.to_nat (b / 16) < 16)%nat) by lia.
    remember (N.to_nat (b / 16)) as k eqn:Ek.
    do 16 (destruct k as [|k]; [cbn [nth sz_lut]; lia|]). lia.
  - left. split; [|lia].
    rewrite nth_overflow; [reflexivity|]. cbn [length sz_lut]. lia.
Qed.

Lemma is_cont_range b : is_cont b = true <-> 0x80 <= b < 0xC0.
Proof. unfold is_cont. rewrite N.shiftr_div_pow2. change (2 ^ 6) with 64. rewrite N.eqb_eq. lia. Qed.

Lemma get8_none_validate p m : m <> [] -> get8 m = None -> validate8 (p ++ m) = false.
Proof.
  intros Hm. unfold get8. destruct m as [|b0 r]; [congruence|].
  destruct (seq_sz b0 =? 0) eqn:Ez; [discriminate|].
  destruct (cont_steps _ _ r 1 false) as [[[u l] t]|] eqn:E.
  { destruct (negb (N.of_nat l =? seq_sz b0) || t || (limit <=? u) || is_surrogate u); discriminate. }
  intros _. apply cont_steps_none in E. destruct E as [Hc Hl].
  unfold validate8. rewrite rev_app_distr.
  apply N.eqb_neq in Ez.
  destruct (seq_sz_cases b0) as [[E0 _]|[[E1 _]|[[E2 Hb]|[[E3 Hb]|[E4 Hb]]]]]; try congruence.
  - rewrite E1 in Hl. cbn in Hl. lia.
  - rewrite E2 in Hl. cbn in Hl. destruct r; [|cbn [length] in Hl; lia].
    cbn [rev app]. assert (A : (b0 <? 0x80) = false) by lia. assert (B : (0xC0 <=? b0) = true) by lia.
    rewrite A, B. reflexivity.
  - rewrite E3 in Hl. cbn in Hl.
    destruct r as [|c1 [|c2 r]]; [| |cbn [length] in Hl; lia].
    + cbn [rev app]. assert (A : (b0 <? 0x80) = false) by lia. assert (B : (0xC0 <=? b0) = true) by lia.
      rewrite A, B. reflexivity.
    + inversion Hc as [|? ? Hc1 _]; subst. apply is_cont_range in Hc1.
      cbn [rev app]. 
      assert (A : (c1 <? 0x80) = false) by lia. assert (B : (0xC0 <=? c1) = false) by lia.
      assert (C : (b0 <? 0x80) = false) by lia. assert (D : (0xE0 <=? b0) = true) by lia.
      rewrite A, B, C, D. reflexivity.
  - rewrite E4 in Hl. cbn in Hl.
    destruct r as [|c1 [|c2 [|c3 r]]]; [| | |cbn [length] in Hl; lia].
    + cbn [rev app]. assert (A : (b0 <? 0x80) = false) by lia. assert (B : (0xC0 <=? b0) = true) by lia.
      rewrite A, B. reflexivity.
    + inversion Hc as [|? ? Hc1 _]; subst. apply is_cont_range in Hc1.
      cbn [rev app].
      assert (A : (c1 <? 0x80) = false) by lia. assert (B : (0xC0 <=? c1) = false) by lia.
      assert (C : (b0 <? 0x80) = false) by lia. assert (D : (0xE0 <=? b0) = true) by lia.
      rewrite A, B, C, D. reflexivity.
    + inversion Hc as [|? ? Hc1 Hc']; subst. inversion Hc' as [|? ? Hc2 _]; subst.
      apply is_cont_range in Hc1. apply is_cont_range in Hc2.
      cbn [rev app].
      assert (A : (c2 <? 0x80) = false) by lia. assert (B : (0xC0 <=? c2) = false) by lia.
      assert (C : (c1 <? 0x80) = false) by lia. assert (D : (0xE0 <=? c1) = false) by lia.
      assert (E : (0xC0 <=? c1) = false) by lia.
      assert (F : (b0 <? 0x80) = false) by lia. assert (G : (0xF0 <=? b0) = true) by lia.
      rewrite A, B, C, D, E, F, G. reflexivity.
Qed.

Lemma get8_nul_some t rest : get8 (t ++ 0 :: rest) <> None.
Proof.
  unfold get8. destruct t as [|b0 r]; cbn [app].
  - cbn. discriminate.
  - destruct (seq_sz b0 =? 0); [discriminate|].
    destruct (cont_steps_nul (thresholds (seq_sz b0)) (N.land b0 (lead_mask (seq_sz b0))) r rest 1 false) as ([[u l] tl] & Hx & _).
    rewrite Hx. destruct (negb (N.of_nat l =? seq_sz b0) || tl || (limit <=? u) || is_surrogate u); discriminate.
Qed.

Lemma get8_nul_len t rest g : t <> [] -> get8 (t ++ 0 :: rest) = Some g -> (g_len g <= length t)%nat.
Proof.
  intros Ht. unfold get8. destruct t as [|b0 r]; [congruence|]. cbn [app].
  destruct (seq_sz b0 =? 0); [intros H; inversion H; subst; cbn; lia|].
  destruct (cont_steps_nul (thresholds (seq_sz b0)) (N.land b0 (lead_mask (seq_sz b0))) r rest 1 false) as ([[u l] tl] & Hx & Hl).
  rewrite Hx. cbn [fst snd] in Hl. intros H.
  destruct (negb (N.of_nat l =? seq_sz b0) || tl || (limit <=? u) || is_surrogate u); inversion H; subst; cbn [g_len length]; lia.
Qed.

Lemma get8_nul_zero rest : get8 (0 :: rest) = Some (mkgot 0 1 true).
Proof. reflexivity. Qed.

(* ================================================================ UTF-8: round trip, by exhaustive evaluation *)
Definition valid8 (u : N) : Prop := u < 0x110000 /\ ~ (0xD800 <= u <= 0xDFFF).

Lemma chk8_valid u : valid8 u ->
  got_is (get8 (put8 u)) u (length (put8 u)) && complete_tail (put8 u) && Nat.leb 1 (length (put8 u)) = true.
Proof.
  intros [H Hs]. pose proof (all_below_spec _ _ chk8_all u H) as C. unfold chk8 in C.
  assert (E : is_surrogate u = false) by (unfold is_surrogate; lia). rewrite E in C. exact C.
Qed.

(* a surrogate code point written out as three bytes (ED A0..BF xx) is refused: U+FFFD with the error flag *)
Lemma get8_surrogate u : 0xD800 <= u <= 0xDFFF -> exists l, get8 (put8 u) = Some (mkgot 0xFFFD l false).
Proof.
  intros H. pose proof (all_below_spec _ _ chk8_all u ltac:(lia)) as C. unfold chk8 in C.
  assert (E : is_surrogate u = true) by (unfold is_surrogate; lia). rewrite E in C.
  unfold got_err in C. destruct (get8 (put8 u)) as [[v l ok]|]; [|discriminate]. cbn [g_usv g_ok] in C.
  apply andb_prop in C. destruct C as [C1 C2]. apply N.eqb_eq in C1. subst v. destruct ok; [discriminate|]. exists l. reflexivity.
Qed.

Lemma get8_put8 u rest : valid8 u -> get8 (put8 u ++ rest) = Some (mkgot u (length (put8 u)) true).
Proof.
  intros H. apply chk8_valid in H.
  apply andb_prop in H. destruct H as [H _]. apply andb_prop in H. destruct H as [H _].
  apply get8_ext. apply got_is_spec. exact H.
Qed.

Lemma put8_len u : valid8 u -> (1 <= length (put8 u))%nat.
Proof.
  intros H. apply chk8_valid in H. apply andb_prop in H. destruct H as [_ H].
  apply Nat.leb_le. exact H.
Qed.

Lemma validate8_put8 p u : valid8 u -> validate8 (p ++ put8 u) = true.
Proof.
  intros H. apply chk8_valid in H.
  apply andb_prop in H. destruct H as [H _]. apply andb_prop in H. destruct H as [_ H].
  apply complete_tail_validate. exact H.
Qed.

(* a successful get8 returns a scalar value: nothing above U+10FFFF and no surrogate code point is ever produced *)
Lemma get8_ok_below_limit m g : get8 m = Some g -> g_ok g = true -> valid8 (g_usv g).
Proof.
  unfold get8. destruct m as [|b0 r]; [discriminate|].
  destruct (seq_sz b0 =? 0); [intros H; inversion H; subst; discriminate|].
  destruct (cont_steps _ _ r 1 false) as [[[u l] t]|]; [|discriminate].
  destruct (negb (N.of_nat l =? seq_sz b0) || t || (limit <=? u) || is_surrogate u) eqn:E; intros H; inversion H; subst; cbn; [discriminate|].
  intros _. apply Bool.orb_false_elim in E. destruct E as [E Es]. apply Bool.orb_false_elim in E. destruct E as [_ E].
  unfold limit in E. unfold is_surrogate in Es. unfold valid8. lia.
Qed.

(* ================================================================ UTF-16 *)
Definition valid16 (u : N) : Prop := u < 0x110000 /\ ~ (0xD800 <= u <= 0xDFFF).

Lemma get16_len m g : get16 m = Some g -> (1 <= g_len g <= length m)%nat.
Proof.
  unfold get16. destruct m as [|uh r]; [discriminate|].
  destruct ((uh <? 0xD800) || (0xDFFF <? uh)); [intros H; inversion H; subst; cbn; lia|].
  destruct (0xDBFF <? uh); [intros H; inversion H; subst; cbn; lia|].
  destruct r as [|ul r]; [discriminate|].
  destruct ((ul <? 0xDC00) || (0xDFFF <? ul)); intros H; inversion H; subst; cbn; lia.
Qed.

Lemma get16_none_validate p m : m <> [] -> get16 m = None -> validate16 (p ++ m) = false.
Proof.
  intros Hm. unfold get16. destruct m as [|uh r]; [congruence|].
  destruct ((uh <? 0xD800) || (0xDFFF <? uh)) eqn:A; [discriminate|].
  destruct (0xDBFF <? uh) eqn:B; [discriminate|].
  destruct r as [|ul r]; [|destruct ((ul <? 0xDC00) || (0xDFFF <? ul)); discriminate].
  intros _. unfold validate16. rewrite rev_app_distr. cbn [rev app].
  apply Bool.orb_false_elim in A. destruct A as [A1 A2]. rewrite A1, B. reflexivity.
Qed.

Lemma get16_nul_some t rest : get16 (t ++ 0 :: rest) <> None.
Proof.
  unfold get16. destruct t as [|uh r]; cbn [app]; [cbn; discriminate|].
  destruct ((uh <? 0xD800) || (0xDFFF <? uh)); [discriminate|]. destruct (0xDBFF <? uh); [discriminate|].
  destruct r as [|ul r]; cbn [app]; [cbn; discriminate|].
  destruct ((ul <? 0xDC00) || (0xDFFF <? ul)); discriminate.
Qed.

Lemma get16_nul_len t rest g : t <> [] -> get16 (t ++ 0 :: rest) = Some g -> (g_len g <= length t)%nat.
Proof.
  intros Ht. unfold get16. destruct t as [|uh r]; [congruence|]. cbn [app].
  destruct ((uh <? 0xD800) || (0xDFFF <? uh)); [intros H; inversion H; subst; cbn; lia|].
  destruct (0xDBFF <? uh); [intros H; inversion H; subst; cbn; lia|].
  destruct r as [|ul r]; cbn [app].
  - cbn. intros H; inversion H; subst; cbn; lia.
  - destruct ((ul <? 0xDC00) || (0xDFFF <? ul)); intros H; inversion H; subst; cbn; lia.
Qed.

Lemma get16_nul_zero rest : get16 (0 :: rest) = Some (mkgot 0 1 true).
Proof. reflexivity. Qed.

Lemma get16_ext m g rest : get16 m = Some g -> get16 (m ++ rest) = Some g.
Proof.
  unfold get16. destruct m as [|uh r]; [discriminate|]. cbn [app].
  destruct ((uh <? 0xD800) || (0xDFFF <? uh)); [tauto|]. destruct (0xDBFF <? uh); [tauto|].
  destruct r as [|ul r]; [discriminate|]. cbn [app]. tauto.
Qed.

Lemma chk16_valid u : valid16 u ->
  got_is (get16 (put16 u)) u (length (put16 u)) = true /\ validate16 (put16 u) = true /\ (1 <= length (put16 u))%nat.
Proof.
  intros [H Hs]. pose proof (all_below_spec _ _ chk16_all u H) as C. unfold chk16 in C.
  assert (E : is_surr u = false) by (unfold is_surr; lia). rewrite E in C. cbn [orb] in C.
  apply andb_prop in C. destruct C as [C C3]. apply andb_prop in C. destruct C as [C1 C2].
  apply Nat.leb_le in C3. tauto.
Qed.

Lemma get16_put16 u rest : valid16 u -> get16 (put16 u ++ rest) = Some (mkgot u (length (put16 u)) true).
Proof. intros H. apply get16_ext. apply got_is_spec. apply chk16_valid. exact H. Qed.

Lemma put16_len u : valid16 u -> (1 <= length (put16 u))%nat.
Proof. intros H. apply chk16_valid. exact H. Qed.

Lemma validate16_app p m : m <> [] -> validate16 (p ++ m) = validate16 m.
Proof.
  intros Hm. unfold validate16. rewrite rev_app_distr.
  destruct (rev m) eqn:E; [|reflexivity].
  apply (f_equal (@rev N)) in E. rewrite rev_involutive in E. cbn in E. congruence.
Qed.

Lemma validate16_put16 p u : valid16 u -> validate16 (p ++ put16 u) = true.
Proof.
  intros H. destruct (chk16_valid u H) as (_ & V & L).
  rewrite validate16_app; [exact V|]. destruct (put16 u); [cbn in L; lia|discriminate].
Qed.

(* ================================================================ UTF-32 *)
Definition valid32 (u : N) : Prop := u < 0x110000 /\ ~ (0xD800 <= u <= 0xDFFF).

Lemma get32_len m g : get32 m = Some g -> (1 <= g_len g <= length m)%nat.
Proof. unfold get32. destruct m as [|c r]; [discriminate|]. destruct ((c <? limit) && negb (is_surrogate c)); intros H; inversion H; subst; cbn; lia. Qed.
Lemma get32_none_validate p m : m <> [] -> get32 m = None -> validate32 (p ++ m) = false.
Proof. intros Hm. unfold get32. destruct m as [|c r]; [congruence|]. destruct ((c <? limit) && negb (is_surrogate c)); discriminate. Qed.
Lemma get32_nul_some t rest : get32 (t ++ 0 :: rest) <> None.
Proof. unfold get32. destruct t as [|c r]; cbn [app]; [cbn; discriminate|]. destruct ((c <? limit) && negb (is_surrogate c)); discriminate. Qed.
Lemma get32_nul_len t rest g : t <> [] -> get32 (t ++ 0 :: rest) = Some g -> (g_len g <= length t)%nat.
Proof.
  intros Ht. unfold get32. destruct t as [|c r]; [congruence|]. cbn [app].
  destruct ((c <? limit) && negb (is_surrogate c)); intros H; inversion H; subst; cbn; lia.
Qed.
Lemma get32_nul_zero rest : get32 (0 :: rest) = Some (mkgot 0 1 true).
Proof. reflexivity. Qed.
Lemma get32_put32 u rest : valid32 u -> get32 (put32 u ++ rest) = Some (mkgot u (length (put32 u)) true).
Proof. unfold valid32, get32, put32, limit, is_surrogate. intros H. cbn [app length]. assert (E : (u <? 0x110000) && negb ((0xD800 <=? u) && (u <? 0xE000)) = true) by lia. rewrite E. reflexivity. Qed.
Lemma get32_surrogate u rest : 0xD800 <= u <= 0xDFFF -> get32 (u :: rest) = Some (mkgot 0xFFFD 1 false).
Proof. unfold get32, limit, is_surrogate. intros H. assert (E : (u <? 0x110000) && negb ((0xD800 <=? u) && (u <? 0xE000)) = false) by lia. rewrite E. reflexivity. Qed.
Lemma put32_len u : valid32 u -> (1 <= length (put32 u))%nat.
Proof. cbn. lia. Qed.
Lemma validate32_put32 p u : valid32 u -> validate32 (p ++ put32 u) = true.
Proof. reflexivity. Qed.

(* ================================================================ the three encodings agree *)
Lemma valid16_valid8 u : valid16 u -> valid8 u.
Proof. unfold valid16, valid8. tauto. Qed.
Lemma valid16_valid32 u : valid16 u -> valid32 u.
Proof. unfold valid16, valid32. tauto. Qed.

Lemma map_fst_combine_bases put pos us : map fst (combine us (bases put pos us)) = us.
Proof.
  revert pos. induction us as [|u us IH]; intros pos; cbn [bases combine map]; [reflexivity|].
  rewrite IH. reflexivity.
Qed.

Lemma encodings_agree us n r8 r16 r32 : Forall (fun u => valid16 u /\ u <> 0) us ->
  exists l8 l16 l32,
    read_text get8 n (enc_all put8 us ++ 0 :: r8) 0 = Some l8 /\
    read_text get16 n (enc_all put16 us ++ 0 :: r16) 0 = Some l16 /\
    read_text get32 n (enc_all put32 us ++ 0 :: r32) 0 = Some l32 /\
    map fst l8 = firstn n us /\ map fst l16 = firstn n us /\ map fst l32 = firstn n us.
Proof.
  intros H.
  assert (H8 : Forall (fun u => valid8 u /\ u <> 0) us).
  { eapply Forall_impl; [|exact H]. cbv beta. intros u [Hv Hn]. split; [apply valid16_valid8; exact Hv|exact Hn]. }
  exists (firstn n (combine us (bases put8 0 us))), (firstn n (combine us (bases put16 0 us))),
         (firstn n (combine us (bases put32 0 us))).
  split; [exact (read_text_exact get8 put8 valid8 get8_nul_zero get8_put8 us n 0%nat r8 H8)|].
  split; [exact (read_text_exact get16 put16 valid16 get16_nul_zero get16_put16 us n 0%nat r16 H)|].
  split; [exact (read_text_exact get32 put32 valid32 get32_nul_zero get32_put32 us n 0%nat r32 H8)|].
  rewrite <- !firstn_map, !map_fst_combine_bases. repeat split.
Qed.
