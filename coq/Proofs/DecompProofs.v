(* Proofs/DecompProofs.v — Face::Table::decompress keeps every write inside the block it allocated, whatever the table announces. *)
From GR Require Import Base.Bytes Model.Lz4Model Proofs.Lz4Safe Proofs.Lz4Sound Model.DecompModel.
From Coq Require Import NArith List Arith Bool Lia.
Import ListNotations.

Lemma write_at_length buf i bs out : write_at buf i bs = Some out -> length out = length buf.
Proof.
  unfold write_at. destruct (i + length bs <=? length buf) eqn:E; [|discriminate]. apply Nat.leb_le in E.
  intros H. injection H as <-. rewrite !app_length, firstn_length, skipn_length. lia.
Qed.

(* the decoder only ever overwrites bytes of the block: its length never changes *)
Lemma overrun_in_length k : forall out d s out', overrun_in k out d s = Some out' -> length out' = length out.
Proof.
  induction k as [|k IH]; intros out d s out' H; cbn [overrun_in] in H; [injection H as <-; reflexivity|].
  destruct (read_at s 0 WS) as [w|]; cbn in H; [|discriminate].
  destruct (write_at out d w) as [o1|] eqn:Ew; cbn in H; [|discriminate].
  rewrite (IH _ _ _ _ H). exact (write_at_length _ _ _ _ Ew).
Qed.
Lemma overrun_out_length k : forall out d s out', overrun_out k out d s = Some out' -> length out' = length out.
Proof.
  induction k as [|k IH]; intros out d s out' H; cbn [overrun_out] in H; [injection H as <-; reflexivity|].
  destruct (read_at out s WS) as [w|]; cbn in H; [|discriminate].
  destruct (write_at out d w) as [o1|] eqn:Ew; cbn in H; [|discriminate].
  rewrite (IH _ _ _ _ H). exact (write_at_length _ _ _ _ Ew).
Qed.
Lemma safe_out_length n : forall out d s out', safe_out n out d s = Some out' -> length out' = length out.
Proof.
  induction n as [|n IH]; intros out d s out' H; cbn [safe_out] in H; [injection H as <-; reflexivity|].
  destruct (read_at out s 1) as [w|]; cbn in H; [|discriminate].
  destruct (write_at out d w) as [o1|] eqn:Ew; cbn in H; [|discriminate].
  rewrite (IH _ _ _ _ H). exact (write_at_length _ _ _ _ Ew).
Qed.
Lemma loop_length fuel : forall s out d orem n out', loop fuel s out d orem = Ok n out' -> length out' = length out.
Proof.
  induction fuel as [|fuel IH]; intros s out d orem n out' H; cbn [loop] in H; [discriminate|].
  destruct (read_sequence s) as [|lit ll|more lit ll ml md rest]; [discriminate| |].
  - destruct (_ || _); [discriminate|]. destruct (write_at out d _) as [o1|] eqn:Ew; [|discriminate].
    injection H as _ <-. exact (write_at_length _ _ _ _ Ew).
  - destruct more.
    + (* a match follows *)
      destruct (ll =? 0)%N.
      * destruct (_ || _); [discriminate|].
        match type of H with context [if ?c then overrun_out ?a ?b ?e ?f else safe_out ?g ?h ?i ?j] => destruct c end.
        -- destruct (overrun_out _ _ _ _) as [o2|] eqn:E2; [|discriminate]. rewrite (IH _ _ _ _ _ _ H). exact (overrun_out_length _ _ _ _ _ E2).
        -- destruct (safe_out _ _ _ _) as [o2|] eqn:E2; [|discriminate]. rewrite (IH _ _ _ _ _ _ H). exact (safe_out_length _ _ _ _ _ E2).
      * destruct (N.of_nat orem <? N.of_nat (align (N.to_nat ll)))%N; [discriminate|].
        destruct (overrun_in _ out d lit) as [o1|] eqn:E1; [|discriminate].
        pose proof (overrun_in_length _ _ _ _ _ E1) as L1.
        destruct (_ || _); [discriminate|].
        match type of H with context [if ?c then overrun_out ?a ?b ?e ?f else safe_out ?g ?h ?i ?j] => destruct c end.
        -- destruct (overrun_out _ _ _ _) as [o2|] eqn:E2; [|discriminate]. rewrite (IH _ _ _ _ _ _ H), (overrun_out_length _ _ _ _ _ E2). exact L1.
        -- destruct (safe_out _ _ _ _) as [o2|] eqn:E2; [|discriminate]. rewrite (IH _ _ _ _ _ _ H), (safe_out_length _ _ _ _ _ E2). exact L1.
    + destruct (_ || _); [discriminate|]. destruct (write_at out d _) as [o1|] eqn:Ew; [|discriminate].
      injection H as _ <-. exact (write_at_length _ _ _ _ Ew).
Qed.
Lemma decompress_length src osz out0 n out : decompress src osz out0 = Ok n out -> length out = length out0.
Proof. unfold decompress. destruct (_ || _); [discriminate|]. apply loop_length. Qed.

(* for ANY table bytes and ANY content of the fresh block of the announced size: no read or write leaves a buffer *)
Theorem table_decompress_safe t heap : length heap = announced t -> table_decompress t heap <> TTrap.
Proof.
  intros Hh. unfold table_decompress.
  destruct (length t <? 20); [discriminate|]. destruct (scheme t =? 0)%N; [discriminate|].
  destruct (negb (scheme t =? 1)%N); [discriminate|]. destruct (announced t <? 4) eqn:E4; [discriminate|].
  apply Nat.ltb_ge in E4.
  destruct (write_at_some heap 0 [0; 0; 0; 0]%N) as (out0 & Hw & _); [cbn [length]; lia|]. rewrite Hw.
  pose proof (write_at_length _ _ _ _ Hw) as Hl.
  destruct (decompress_safe (skipn 8 t) (announced t) out0 ltac:(lia)) as [H1 H2].
  destruct (decompress (skipn 8 t) (announced t) out0) as [| | |n out]; try congruence; try discriminate.
  destruct (negb (n =? announced t)); [discriminate|]. destruct (be32l out 0 =? be32l t 0)%N; discriminate.
Qed.

(* a table that announces fewer than four bytes is refused without touching the block: true of EVERY block, the empty one included *)
Theorem table_small_size_refused t heap : 20 <= length t -> scheme t = 1%N -> announced t < 4 ->
  table_decompress t heap = TReject E_OUTOFMEM.
Proof.
  intros Hl Hs Ha. unfold table_decompress.
  assert (E1 : (length t <? 20) = false) by (apply Nat.ltb_ge; lia). rewrite E1, Hs. cbn [N.eqb Pos.eqb negb].
  assert (E2 : (announced t <? 4) = true) by (apply Nat.ltb_lt; lia). rewrite E2. reflexivity.
Qed.

(* what is accepted starts with the table's own version word and came from a decoder run that produced exactly the announced size *)
Theorem table_ok_version t heap out : table_decompress t heap = TOk out ->
  be32l out 0 = be32l t 0 /\ scheme t = 1%N /\ 4 <= announced t /\ length out = length heap.
Proof.
  unfold table_decompress. destruct (length t <? 20); [discriminate|]. destruct (scheme t =? 0)%N eqn:E0; [discriminate|].
  destruct (scheme t =? 1)%N eqn:E1; cbn [negb]; [|discriminate]. destruct (announced t <? 4) eqn:E4; [discriminate|].
  destruct (write_at heap 0 [0; 0; 0; 0]%N) as [out0|] eqn:Ew; [|discriminate].
  destruct (decompress (skipn 8 t) (announced t) out0) as [| | |n o] eqn:Ed; try discriminate.
  destruct (negb (n =? announced t)); [discriminate|]. destruct (be32l o 0 =? be32l t 0)%N eqn:Ev; [|discriminate].
  intros H. injection H as <-. apply N.eqb_eq in Ev, E1. apply Nat.ltb_ge in E4. repeat split; try assumption.
  rewrite (decompress_length _ _ _ _ _ Ed). exact (write_at_length _ _ _ _ Ew).
Qed.

Theorem table_open_safe t vmin heap : length heap = announced t -> table_open t vmin heap <> TTrap.
Proof.
  intros Hh. unfold table_open. destruct (length t <? 4); [discriminate|]. destruct (be32l t 0 <? vmin)%N; [discriminate|].
  apply table_decompress_safe. exact Hh.
Qed.

(* what replaces the table is the byte-wise reference decoding of the block behind the header *)
Theorem table_ok_is_reference t heap out : length heap = announced t -> (N.of_nat (length t) < U32 - 1)%N ->
  table_decompress t heap = TOk out -> lz4_ref (skipn 8 t) = Some out.
Proof.
  intros Hh Hlen H. pose proof (table_ok_version _ _ _ H) as (_ & _ & _ & Hl). revert H. unfold table_decompress.
  destruct (length t <? 20); [discriminate|]. destruct (scheme t =? 0)%N; [discriminate|]. destruct (negb (scheme t =? 1)%N); [discriminate|].
  destruct (announced t <? 4); [discriminate|]. destruct (write_at heap 0 [0; 0; 0; 0]%N) as [out0|]; [|discriminate].
  destruct (decompress (skipn 8 t) (announced t) out0) as [| | |n o] eqn:Ed; try discriminate.
  destruct (negb (n =? announced t)) eqn:En; [discriminate|]. destruct (be32l o 0 =? be32l t 0)%N; [|discriminate].
  intros H. injection H as <-. apply Bool.negb_false_iff, Nat.eqb_eq in En.
  assert (Hs : (N.of_nat (length (skipn 8 t)) < U32 - 1)%N) by (rewrite skipn_length; lia).
  rewrite (decompress_sound _ _ _ _ _ Hs Ed). f_equal. apply firstn_all2. lia.
Qed.
