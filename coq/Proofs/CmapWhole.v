(* Proofs/CmapWhole.v — CachedCmap against DirectCmap as a whole: for a face whose BMP subtable (format 4) and, when present,
   supplementary subtable (format 12) were accepted by the checks and are well formed, building the cache succeeds and the cached
   lookup returns on EVERY code point what the direct lookup returns. *)
From GR Require Import Base.Bytes Base.Mem Base.MemFacts Model.CmapModel Proofs.CmapCache Proofs.CmapSafe Proofs.Cmap12Agree Proofs.Cmap4Agree.
From Coq Require Import FMapPositive Lia ZifyN ZifyBool.
Local Open Scope N_scope.

Definition smp_ok (t : mem) (smp : option N) : Prop :=
  match smp with Some os => check12 t (Some os) = Some true /\ wf12 t os | None => True end.

Theorem cached_eq_direct t ob smp : mem_wf t -> tlen t < S64 -> check4 t (Some ob) = Some true -> wf4 t ob -> smp_ok t smp ->
  exists cc, cached_build t (Some ob) smp = Some (Some cc) /\
             forall c, c <= 0x10FFFF -> direct t (Some ob) smp c = Some (cached cc (match smp with Some _ => false | None => true end) c).
Proof.
  intros W Hsz Hc4 Hw4 Hs.
  destruct (cached4_eq_direct_checked t ob W Hsz Hc4 Hw4) as (mb & Eb & Hb).
  destruct smp as [os|].
  - destruct Hs as [Hc12 Hw12]. destruct (cached12_eq_direct_checked t os W Hsz Hc12 Hw12) as (ms & Es & Hms).
    exists {| cc_smp := ms; cc_bmp := Some mb |}. split.
    + unfold cached_build. rewrite Es. cbn [bind]. rewrite Eb. reflexivity.
    + intros c Hc. unfold direct, cached. cbn [cc_smp cc_bmp andb orb].
      assert (E0 : (0x10FFFF <? c) = false) by lia. rewrite E0.
      destruct (0xFFFF <? c) eqn:E1.
      * assert (E2 : (c <=? 0xFFFF) = false) by lia. rewrite E2. apply Hms. exact Hc.
      * assert (E2 : (c <=? 0xFFFF) = true) by lia. rewrite E2. apply Hb. lia.
  - exists {| cc_smp := PositiveMap.empty N; cc_bmp := Some mb |}. split.
    + unfold cached_build. cbn [bind]. rewrite Eb. reflexivity.
    + intros c Hc. unfold direct, cached. cbn [cc_smp cc_bmp andb orb].
      destruct (0xFFFF <? c) eqn:E1; cbn [orb]; [reflexivity|].
      assert (E0 : (0x10FFFF <? c) = false) by lia. rewrite E0.
      assert (E2 : (c <=? 0xFFFF) = true) by lia. rewrite E2. apply Hb. lia.
Qed.
