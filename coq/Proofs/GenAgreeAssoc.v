(* Proofs/GenAgreeAssoc.v — tie A for C05: the association fields of Slot and CharInfo (widths regenerated from the headers, Gen/GenAssoc.v) *)
From GR Require Import Base.Bytes Gen.GenAssoc.
From Coq Require Import NArith Lia.
Local Open Scope N_scope.

(* the fields are at least 32 bits wide and read through int accessors: an index below 2^31 -- any character or slot of a segment the API
   can describe -- is stored and read back unchanged (the models keep unbounded numbers) *)
Lemma gen_assoc_index_roundtrip : forall i : N, i < 2 ^ 31 -> i mod 2 ^ GenAssoc.assoc_index_bits = i /\ 31 < GenAssoc.assoc_index_bits.
Proof. intros i H. unfold GenAssoc.assoc_index_bits. split; [apply N.mod_small; change (2 ^ 32) with (2 * 2 ^ 31); lia | lia]. Qed.
