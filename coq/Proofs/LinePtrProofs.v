(* Proofs/LinePtrProofs.v — the statement-by-statement transcription of Segment::reverseSlots (Model/LinePtrModel.v), run on a well-formed
   chain without marks whose ends are m_first and m_last (the precondition that Segment::justify breaks in the recorded defects), reverses
   exactly that chain: the links of the chain afterwards are those of the reversed list, m_first / m_last are swapped, and the links of
   every slot outside the chain are untouched. *)
From GR Require Import Base.Bytes Model.LinePtrModel.
From Coq Require Import List Arith Bool Lia.
Import ListNotations.

Lemma getp_setp_same l i v : (i < length l)%nat -> getp (setp l i v) i = v.
Proof. revert i. induction l as [|x l IH]; intros [|i] H; cbn in *; try lia; [reflexivity|]. apply IH. lia. Qed.
Lemma getp_setp_other l i j v : i <> j -> getp (setp l i v) j = getp l j.
Proof. revert i j. induction l as [|x l IH]; intros [|i] [|j] H; cbn; try reflexivity; try lia. apply IH. lia. Qed.
Lemma setp_length l i v : length (setp l i v) = length l.
Proof. revert i. induction l as [|x l IH]; intros [|i]; cbn; try reflexivity. rewrite IH. reflexivity. Qed.

(* the loop without marks: pointer reversal.  [done] is the part already reversed (most recent first), [todo] what is left *)
Fixpoint links_fwd (nx pv : list ptr) (l : list nat) (before : ptr) : Prop :=      (* l is a next-chain with consistent prev links *)
  match l with
  | [] => True
  | a :: r => getp pv a = before /\ getp nx a = hd_error r /\ links_fwd nx pv r (Some a)
  end.

Lemma links_fwd_ext nx pv nx' pv' l before : (forall a, In a l -> getp nx' a = getp nx a /\ getp pv' a = getp pv a) ->
  links_fwd nx pv l before -> links_fwd nx' pv' l before.
Proof.
  revert before. induction l as [|a r IH]; intros before He H; cbn in *; [exact I|].
  destruct H as (H1 & H2 & H3). destruct (He a (or_introl eq_refl)) as [E1 E2]. rewrite E1, E2.
  repeat split; try assumption. apply IH; [intros b Hb; apply He; right; exact Hb|exact H3].
Qed.

Lemma nodup_app_r {A} (a b : list A) : NoDup (a ++ b) -> NoDup b.
Proof. induction a as [|x a IH]; cbn; intros H; [exact H|]. inversion H; subst. apply IH. assumption. Qed.
Lemma nodup_app_disjoint {A} (a b : list A) : NoDup (a ++ b) -> forall x, In x a -> In x b -> False.
Proof.
  induction a as [|y a IH]; cbn; intros H x Ha Hb; [contradiction|]. inversion H; subst.
  destruct Ha as [->|Ha]; [apply H2; apply in_or_app; right; exact Hb|exact (IH H3 x Ha Hb)].
Qed.

Definition R (nx pv : list ptr) (done : list nat) : Prop :=
  match done with [] => True | d1 :: rest => getp nx d1 = hd_error rest /\ links_fwd nx pv rest (Some d1) end.
Definition unmarked (marks : list bool) (l : list nat) : Prop := forall a, In a l -> is_mark marks a = false.

Lemma rev_loop_chain marks last : forall todo fuel done nx pv tlast b,
  NoDup (done ++ todo) -> (forall a, In a (done ++ todo) -> a < length nx /\ a < length pv)%nat -> unmarked marks todo ->
  (length todo < fuel)%nat -> links_fwd nx pv todo b -> R nx pv done ->
  exists nx' pv', rev_loop fuel marks last nx pv (hd_error todo) (hd_error done) tlast = Some (Some (nx', pv', hd_error (rev todo ++ done), tlast))
    /\ R nx' pv' (rev todo ++ done) /\ length nx' = length nx /\ length pv' = length pv
    /\ (forall a, ~ In a (done ++ todo) -> getp nx' a = getp nx a /\ getp pv' a = getp pv a).
Proof.
  induction todo as [|c r IH]; intros fuel done nx pv tlast b Hnd Hlt Hum Hf Hl Hr.
  - destruct fuel as [|f]; [cbn in Hf; lia|]. cbn [rev_loop hd_error rev app]. exists nx, pv. repeat split; try assumption; reflexivity.
  - destruct fuel as [|f]; [cbn in Hf; lia|]. cbn [rev_loop hd_error].
    rewrite (Hum c (or_introl eq_refl)). cbn [links_fwd] in Hl. destruct Hl as (_ & Hnc & Hlr).
    assert (Hc : (c < length nx /\ c < length pv)%nat) by (apply Hlt; apply in_or_app; right; left; reflexivity).
    assert (Hcd : ~ In c done).
    { intros X. apply NoDup_remove_2 in Hnd. apply Hnd. apply in_or_app. left. exact X. }
    assert (Hcr : ~ In c r).
    { apply nodup_app_r in Hnd. inversion Hnd; assumption. }
    set (pv1 := match hd_error done with Some o => setp pv o (Some c) | None => pv end).
    set (nx1 := setp nx c (hd_error done)).
    rewrite Hnc.
    assert (Hnd' : NoDup ((c :: done) ++ r)).
    { cbn. constructor.
      - intros X. apply in_app_or in X. destruct X; contradiction.
      - apply NoDup_remove_1 in Hnd. exact Hnd. }
    assert (L1 : length nx1 = length nx) by apply setp_length.
    assert (L2 : length pv1 = length pv) by (unfold pv1; destruct (hd_error done); [apply setp_length|reflexivity]).
    assert (Hlt' : forall a, In a ((c :: done) ++ r) -> (a < length nx1 /\ a < length pv1)%nat).
    { intros a Ha. rewrite L1, L2. apply Hlt. cbn in Ha. destruct Ha as [<-|Ha]; [apply in_or_app; right; left; reflexivity|].
      apply in_app_or in Ha. apply in_or_app. destruct Ha; [left|right; right]; assumption. }
    assert (Hr' : R nx1 pv1 (c :: done)).
    { cbn [R]. split; [unfold nx1; apply getp_setp_same; lia|].
      destruct done as [|d1 rest]; [exact I|]. cbn [links_fwd]. cbn [R] in Hr. destruct Hr as [Hr1 Hr2].
      assert (Hd1c : d1 <> c) by (intros ->; apply Hcd; left; reflexivity).
      assert (Hd1 : (d1 < length pv)%nat) by (apply (Hlt d1); left; reflexivity).
      unfold pv1, nx1. cbn [hd_error]. rewrite getp_setp_same by exact Hd1. rewrite getp_setp_other by (intros X; apply Hd1c; symmetry; exact X).
      repeat split; [exact Hr1|].
      apply (links_fwd_ext nx pv); [|exact Hr2].
      intros a Ha. assert (a <> c) by (intros ->; apply Hcd; right; exact Ha).
      assert (a <> d1). { intros ->. inversion Hnd as [|x l0 Hn0 Hn1]. apply Hn0. apply in_or_app. left. exact Ha. }
      rewrite !getp_setp_other by congruence. split; reflexivity. }
    assert (Hl' : links_fwd nx1 pv1 r (Some c)).
    { apply (links_fwd_ext nx pv); [|exact Hlr].
      intros a Ha. assert (a <> c) by (intros ->; contradiction).
      unfold nx1, pv1. rewrite getp_setp_other by congruence. split; [reflexivity|].
      destruct done as [|d1 rest]; [reflexivity|]. cbn [hd_error]. apply getp_setp_other.
      intros ->. apply (nodup_app_disjoint _ _ Hnd a); [left; reflexivity|right; exact Ha]. }
    destruct (IH f (c :: done) nx1 pv1 tlast (Some c) Hnd' Hlt' ltac:(intros a Ha; apply Hum; right; exact Ha) ltac:(cbn in Hf; lia) Hl' Hr')
      as (nx' & pv' & E & R' & L1' & L2' & Hout).
    exists nx', pv'. cbn [hd_error] in E. rewrite E. cbn [rev]. rewrite <- app_assoc. cbn [app].
    split; [reflexivity|]. split; [exact R'|]. split; [congruence|]. split; [congruence|].
    intros a Ha. destruct (Hout a) as [O1 O2].
    { intros X. apply Ha. cbn in X. destruct X as [<-|X]; [apply in_or_app; right; left; reflexivity|].
      apply in_app_or in X. apply in_or_app. destruct X; [left|right; right]; assumption. }
    assert (a <> c) by (intros ->; apply Ha; apply in_or_app; right; left; reflexivity).
    rewrite O1, O2. unfold nx1, pv1. rewrite getp_setp_other by congruence. split; [reflexivity|].
    destruct done as [|d1 rest]; [reflexivity|]. cbn [hd_error]. apply getp_setp_other.
    intros ->. apply Ha. apply in_or_app. left. left. reflexivity.
Qed.

Lemma nodup_bounded_length (l : list nat) n : NoDup l -> (forall a, In a l -> a < n)%nat -> (length l <= n)%nat.
Proof.
  intros Hnd Hb. rewrite <- (seq_length n 0). apply NoDup_incl_length; [exact Hnd|].
  intros a Ha. apply in_seq. specialize (Hb a Ha). lia.
Qed.
Lemma hd_rev_in (a : nat) r x : hd_error (rev (a :: r)) = Some x -> r <> [] -> In x r.
Proof.
  intros H Hr. cbn [rev] in H. destruct (rev r) as [|y t] eqn:E.
  - exfalso. apply Hr. apply (f_equal (@rev nat)) in E. rewrite rev_involutive in E. exact E.
  - cbn in H. injection H as <-. apply in_rev. rewrite E. left. reflexivity.
Qed.

Theorem preverse_reverses_chain marks s l :
  (2 <= length l)%nat -> NoDup l -> (forall a, In a l -> a < length (p_next s) /\ a < length (p_prev s))%nat -> unmarked marks l ->
  links_fwd (p_next s) (p_prev s) l None -> p_first s = hd_error l -> p_last s = hd_error (rev l) ->
  exists s', preverse marks s = POk s' /\ links_fwd (p_next s') (p_prev s') (rev l) None
             /\ p_first s' = hd_error (rev l) /\ p_last s' = hd_error l
             /\ (forall a, ~ In a l -> getp (p_next s') a = getp (p_next s) a /\ getp (p_prev s') a = getp (p_prev s) a)
             /\ length (p_next s') = length (p_next s) /\ length (p_prev s') = length (p_prev s).
Proof.
  intros Hlen Hnd Hb Hum Hl Hf Hla. destruct l as [|c0 r]; [cbn in Hlen; lia|].
  assert (Hr : r <> []) by (intros ->; cbn in Hlen; lia).
  destruct (hd_error (rev (c0 :: r))) as [o|] eqn:Eo.
  2:{ exfalso. cbn [rev] in Eo. destruct (rev r); cbn in Eo; discriminate. }
  pose proof (hd_rev_in c0 r o Eo Hr) as Hor.
  assert (Hoc : o <> c0) by (intros ->; inversion Hnd; contradiction).
  unfold preverse. rewrite Hf, Hla. cbn [hd_error peq].
  assert (E1 : Nat.eqb c0 o = false) by (apply Nat.eqb_neq; congruence). rewrite E1.
  cbn [skip_marks]. rewrite (Hum c0 (or_introl eq_refl)).
  cbn [links_fwd] in Hl. destruct Hl as (Hp0 & Hn0 & Hlr). rewrite Hp0.
  destruct (rev_loop_chain marks (Some o) (c0 :: r) (2 * length (p_next s) + 4) [] (p_next s) (p_prev s) (Some c0) None)
    as (nx' & pv' & E & R' & L1 & L2 & Hout); try assumption; try exact I.
  - cbn [length]. pose proof (nodup_bounded_length (c0 :: r) (length (p_next s)) Hnd ltac:(intros a Ha; apply Hb; exact Ha)). cbn [length] in H. lia.
  - cbn [links_fwd]. repeat split; assumption.
  - cbn [hd_error] in E. rewrite E. rewrite app_nil_r in *. rewrite Eo.
    eexists. split; [reflexivity|]. cbn [p_next p_prev p_first p_last].
    destruct (rev (c0 :: r)) as [|o' rest] eqn:Er; [discriminate|]. cbn in Eo. injection Eo as Eo'. subst o'.
    cbn [R] in R'. destruct R' as [R1 R2].
    assert (Hol : (o < length pv')%nat) by (rewrite L2; apply Hb; right; exact Hor).
    split; [|split; [reflexivity|split; [reflexivity|split; [|split; [exact L1|rewrite setp_length; exact L2]]]]].
    + cbn [links_fwd]. rewrite getp_setp_same by exact Hol. repeat split; [exact R1|].
      apply (links_fwd_ext nx' pv'); [|exact R2].
      intros a Ha. split; [reflexivity|]. apply getp_setp_other. intros E0. rewrite <- E0 in Ha.
      assert (Hx : NoDup (o :: rest)) by (rewrite <- Er; apply NoDup_rev; exact Hnd). inversion Hx; contradiction.
    + intros a Ha. destruct (Hout a Ha) as [O1 O2]. rewrite O1. split; [reflexivity|].
      rewrite getp_setp_other; [exact O2|]. intros E0. apply Ha. rewrite <- E0. right. exact Hor.
Qed.

(* the pair of reversals that positionSlots makes around its work restores every link, m_first and m_last — under the precondition *)
Corollary preverse_twice_restores marks s l :
  (2 <= length l)%nat -> NoDup l -> (forall a, In a l -> a < length (p_next s) /\ a < length (p_prev s))%nat -> unmarked marks l ->
  links_fwd (p_next s) (p_prev s) l None -> p_first s = hd_error l -> p_last s = hd_error (rev l) ->
  exists s' s'', preverse marks s = POk s' /\ preverse marks s' = POk s'' /\ links_fwd (p_next s'') (p_prev s'') l None
                 /\ p_first s'' = p_first s /\ p_last s'' = p_last s
                 /\ (forall a, ~ In a l -> getp (p_next s'') a = getp (p_next s) a /\ getp (p_prev s'') a = getp (p_prev s) a).
Proof.
  intros Hlen Hnd Hb Hum Hl Hf Hla.
  destruct (preverse_reverses_chain marks s l Hlen Hnd Hb Hum Hl Hf Hla) as (s' & E1 & L1 & F1 & La1 & O1 & N1 & P1).
  destruct (preverse_reverses_chain marks s' (rev l)) as (s'' & E2 & L2 & F2 & La2 & O2 & N2 & P2).
  - rewrite rev_length. exact Hlen.
  - apply NoDup_rev. exact Hnd.
  - intros a Ha. rewrite N1, P1. apply Hb. apply in_rev. exact Ha.
  - intros a Ha. apply Hum. apply in_rev. exact Ha.
  - exact L1.
  - exact F1.
  - rewrite rev_involutive. exact La1.
  - rewrite rev_involutive in *. exists s', s''. repeat split; try assumption; try congruence.
    + destruct (O2 a) as [X _]; [intros Y; apply H; apply in_rev; exact Y|]. destruct (O1 a H) as [Z _]. congruence.
    + destruct (O2 a) as [_ X]; [intros Y; apply H; apply in_rev; exact Y|]. destruct (O1 a H) as [_ Z]. congruence.
Qed.

(* ---------------------------------------------------------------- the end-of-line slots of Segment::justify (addLineEnd / delLineEnd)
   On a line whose first slot has no predecessor -- what justify assumes of pSlot -- putting a fresh end-of-line slot before it and
   deleting it again restores every link of every other slot and leaves m_first / m_last alone.  (The recorded defect of right-to-left
   lines is a call where the slot handed to the second addLineEnd already has a predecessor: the first end-of-line slot.) *)
Lemma getp_grow l e i : getp (grow l e) i = getp l i.
Proof.
  unfold grow, getp. destruct (Nat.lt_ge_cases i (length l)) as [H|H].
  - apply app_nth1. exact H.
  - rewrite app_nth2 by exact H. rewrite (nth_overflow l None H). apply nth_repeat.
Qed.
Lemma grow_length l e : (length l <= e)%nat -> length (grow l e) = S e.
Proof. intros H. unfold grow. rewrite app_length, repeat_length. lia. Qed.
Lemma peq_neq a e : a <> Some e -> peq a (Some e) = false.
Proof. destruct a as [x|]; cbn; [|reflexivity]. intros H. destruct (Nat.eqb_spec x e); [subst; congruence | reflexivity]. Qed.

Theorem add_del_restores marks s e n :
  length (p_next s) = length (p_prev s) -> (length (p_next s) <= e)%nat -> (n < length (p_next s))%nat -> getp (p_prev s) n = None ->
  p_first s <> Some e -> p_last s <> Some e ->
  exists s1 s2, papply marks s (PAddEnd e (Some n) false) = POk s1 /\ papply marks s1 (PDelEnd e) = POk s2 /\
    (forall i, i <> e -> getp (p_next s2) i = getp (p_next s) i /\ getp (p_prev s2) i = getp (p_prev s) i) /\
    p_first s2 = p_first s /\ p_last s2 = p_last s.
Proof.
  intros Hlen He Hn Hp Hf Hl. destruct s as [nx pv fst lst]. cbn [p_next p_prev p_first p_last] in *.
  assert (Hne : n <> e) by lia.
  eexists. eexists. split; [cbn [papply p_next p_prev p_first p_last]; reflexivity|].
  assert (Lnx : length (setp (setp (grow nx e) e None) e (Some n)) = S e) by (rewrite !setp_length; apply grow_length; exact He).
  assert (Lpv0 : length (setp (grow pv e) e None) = S e) by (rewrite setp_length; apply grow_length; lia).
  cbn [papply p_next p_prev p_first p_last].
  rewrite (getp_setp_same _ e (Some n)) by (rewrite setp_length, grow_length; lia).
  assert (G1 : getp (setp (grow pv e) e None) n = None) by (rewrite getp_setp_other by lia; rewrite getp_grow; exact Hp).
  rewrite G1.
  assert (G2 : getp (setp (setp (setp (grow pv e) e None) e None) n (Some e)) e = None).
  { rewrite getp_setp_other by lia. apply getp_setp_same. rewrite setp_length, grow_length; lia. }
  rewrite G2.
  rewrite (peq_neq _ _ Hf), (peq_neq _ _ Hl).
  split; [reflexivity|]. cbn [p_next p_prev p_first p_last]. split; [|split; reflexivity].
  intros i Hi. split.
  - rewrite !(getp_setp_other _ e i) by lia. apply getp_grow.
  - rewrite (getp_setp_other _ e i) by lia. destruct (Nat.eq_dec i n) as [->|Hin].
    + rewrite getp_setp_same by (rewrite !setp_length, grow_length; lia). symmetry. exact Hp.
    + rewrite !(getp_setp_other _ n i) by lia. rewrite !(getp_setp_other _ e i) by lia. apply getp_grow.
Qed.
