(* Proofs/Lz4Sound.v — the fast LZ4 decoder is SOUND with respect to the block format: whenever lz4::decompress (Model/Lz4Model.v:
   word-wise overrunning copies, 32-bit saturating lengths, end-of-block guards) accepts a block, the bytes it produced are exactly the
   byte-wise reference decoding [lz4_ref] of that block.  (The converse does not hold: the recorded finding about MINSRCSIZE and the
   end-of-block margins are blocks the reference accepts and the decoder refuses.) *)
From GR Require Import Base.Bytes Model.Lz4Model Proofs.Lz4Safe.
From Coq Require Import Lia ZifyN ZifyBool ZifyNat.
Local Open Scope nat_scope.
Ltac Zify.zify_post_hook ::= Z.to_euclidean_division_equations.

(* ------------------------------------------------------------ lists *)
Lemma rev_nth_error {A} (l : list A) : forall i, i < length l -> nth_error (rev l) i = nth_error l (length l - S i).
Proof.
  induction l as [|a l IH]; intros i Hi; cbn [length] in *; [lia|]. cbn [rev].
  destruct (Nat.lt_ge_cases i (length l)) as [Hlt|Hge].
  - rewrite nth_error_app1 by (rewrite rev_length; exact Hlt). rewrite IH by exact Hlt.
    replace (S (length l) - S i) with (S (length l - S i)) by lia. reflexivity.
  - assert (i = length l) by lia. subst i. rewrite nth_error_app2 by (rewrite rev_length; lia).
    rewrite rev_length, Nat.sub_diag. replace (S (length l) - S (length l)) with 0 by lia. reflexivity.
Qed.

Lemma firstn_firstn_le {A} (l : list A) a b : a <= b -> firstn a (firstn b l) = firstn a l.
Proof. intros H. rewrite firstn_firstn. f_equal. lia. Qed.

Lemma firstn_add {A} (l : list A) : forall a b, firstn (a + b) l = firstn a l ++ firstn b (skipn a l).
Proof.
  induction l as [|x l IH]; intros a b; [rewrite skipn_nil, !firstn_nil; reflexivity|]. destruct a as [|a]; [reflexivity|].
  cbn [Nat.add firstn skipn app]. f_equal. apply IH.
Qed.

Lemma firstn_app_le {A} (l1 l2 : list A) n : n <= length l1 -> firstn n (l1 ++ l2) = firstn n l1.
Proof. intros H. rewrite firstn_app. replace (n - length l1) with 0 by lia. cbn [firstn]. apply app_nil_r. Qed.

Lemma firstn_app_exact {A} (l1 l2 : list A) n : n = length l1 -> firstn n (l1 ++ l2) = l1.
Proof. intros ->. rewrite firstn_app, Nat.sub_diag, firstn_all. cbn [firstn]. apply app_nil_r. Qed.

Lemma nth_error_firstn_lt {A} (l : list A) n i : i < n -> nth_error (firstn n l) i = nth_error l i.
Proof.
  revert l i. induction n as [|n IH]; intros l i H; [lia|]. destruct l as [|a l]; [destruct i; reflexivity|].
  destruct i as [|i]; [reflexivity|]. cbn [firstn nth_error]. apply IH. lia.
Qed.

Lemma nth_error_skipn' {A} (l : list A) : forall n i, nth_error (skipn n l) i = nth_error l (n + i).
Proof.
  induction l as [|a l IH]; intros n i; [destruct n, i; reflexivity|]. destruct n as [|n]; [reflexivity|]. cbn [skipn Nat.add nth_error]. apply IH.
Qed.
Lemma skipn_S_tail {A} (l : list A) : forall n b tail, skipn n l = b :: tail -> skipn (S n) l = tail.
Proof.
  induction l as [|a l IH]; intros n b tail H; [destruct n; discriminate|]. destruct n as [|n].
  - cbn [skipn] in *. congruence.
  - cbn [skipn] in *. apply (IH _ _ _ H).
Qed.

(* what a successful write leaves in front of and at the written place *)
Lemma write_at_prefix buf i bs out : write_at buf i bs = Some out ->
  firstn (i + length bs) out = firstn i buf ++ bs /\ length out = length buf /\ i + length bs <= length buf.
Proof.
  unfold write_at. destruct (i + length bs <=? length buf) eqn:E; [|discriminate]. apply Nat.leb_le in E.
  intros H. injection H as <-. split; [|split; [|exact E]].
  - rewrite app_assoc. apply firstn_app_exact. rewrite app_length, firstn_length. lia.
  - rewrite !app_length, firstn_length, skipn_length. lia.
Qed.

(* ------------------------------------------------------------ the reference match copy *)
Lemma ref_match_app a : forall b dist o, ref_match (a + b) dist o = match ref_match a dist o with Some o1 => ref_match b dist o1 | None => None end.
Proof.
  induction a as [|a IH]; intros b dist o; [reflexivity|]. cbn [Nat.add ref_match].
  destruct (nth_error o (dist - 1)); [apply IH|reflexivity].
Qed.
Lemma ref_match_grows n : forall dist o o', ref_match n dist o = Some o' -> exists new, o' = new ++ o /\ length new = n.
Proof.
  induction n as [|n IH]; intros dist o o' H; cbn [ref_match] in H.
  - injection H as <-. exists []. split; reflexivity.
  - destruct (nth_error o (dist - 1)) as [b|]; [|discriminate]. destruct (IH _ _ _ H) as (new & -> & Hl).
    exists (new ++ [b]). rewrite <- app_assoc. split; [reflexivity|]. rewrite app_length. cbn [length]. lia.
Qed.
(* asking for more bytes only appends: the first [length o + m] bytes are those of the shorter copy *)
Lemma ref_match_prefix m e dist o o2 : ref_match (m + e) dist o = Some o2 ->
  exists o1, ref_match m dist o = Some o1 /\ firstn (length o + m) (rev o2) = rev o1 /\ length o1 = length o + m.
Proof.
  rewrite ref_match_app. destruct (ref_match m dist o) as [o1|] eqn:E1; [|discriminate]. intros H2.
  destruct (ref_match_grows _ _ _ _ E1) as (n1 & -> & L1). destruct (ref_match_grows _ _ _ _ H2) as (n2 & -> & L2).
  exists (n1 ++ o). split; [reflexivity|]. rewrite app_length. split; [|lia].
  rewrite rev_app_distr. apply firstn_app_exact. rewrite rev_length, app_length. lia.
Qed.

(* up to [dist] bytes at once: the copy appends the bytes found [dist] back *)
Lemma ref_match_block n : forall dist o, n <= dist -> dist <= length o ->
  ref_match n dist o = Some (rev (firstn n (skipn (length o - dist) (rev o))) ++ o).
Proof.
  induction n as [|n IH]; intros dist o Hn Hd; [reflexivity|]. cbn [ref_match].
  assert (Hb : nth_error o (dist - 1) = nth_error (rev o) (length o - dist)).
  { rewrite rev_nth_error by lia. f_equal. lia. }
  destruct (nth_error (rev o) (length o - dist)) as [b|] eqn:Eb.
  2:{ apply nth_error_None in Eb. rewrite rev_length in Eb. lia. }
  rewrite Hb. rewrite IH by (cbn [length]; lia). cbn [length rev].
  (* skipn (len - dist) (rev o) = b :: tail *)
  destruct (skipn (length o - dist) (rev o)) as [|b' tail] eqn:Es.
  { apply (f_equal (@length N)) in Es. rewrite skipn_length, rev_length in Es. cbn [length] in Es. lia. }
  assert (b' = b).
  { pose proof (nth_error_skipn' (rev o) (length o - dist) 0) as Hs. rewrite Nat.add_0_r in Hs. rewrite Es in Hs. cbn [nth_error] in Hs. congruence. }
  subst b'.
  assert (Et : skipn (S (length o) - dist) (rev o ++ [b]) = tail ++ [b]).
  { replace (S (length o) - dist) with (S (length o - dist)) by lia. rewrite skipn_app.
    replace (S (length o - dist) - length (rev o)) with 0 by (rewrite rev_length; lia). cbn [skipn].
    f_equal. apply (skipn_S_tail _ _ _ _ Es). }
  rewrite Et.
  assert (Lt : length tail = dist - 1).
  { apply (f_equal (@length N)) in Es. rewrite skipn_length, rev_length in Es. cbn [length] in Es. lia. }
  rewrite firstn_app_le by lia. cbn [firstn rev]. rewrite <- app_assoc. reflexivity.
Qed.

(* ------------------------------------------------------------ the decoder's copies against the reference *)
Definition Inv (out : list N) (d : nat) (outr : list N) : Prop := firstn d out = rev outr /\ length outr = d.

Lemma read1 out s w : read_at out s 1 = Some w -> exists x, w = [x] /\ nth_error out s = Some x.
Proof.
  unfold read_at. destruct (s + 1 <=? length out) eqn:E; [|discriminate]. apply Nat.leb_le in E. intros H. injection H as <-.
  destruct (skipn s out) as [|x tl] eqn:Es.
  - apply (f_equal (@length N)) in Es. rewrite skipn_length in Es. cbn [length] in Es. lia.
  - exists x. split; [reflexivity|]. pose proof (nth_error_skipn' out s 0) as Hs. rewrite Nat.add_0_r, Es in Hs. cbn [nth_error] in Hs. congruence.
Qed.

Lemma inv_back out d outr dist : Inv out d outr -> 1 <= dist -> dist <= d -> nth_error outr (dist - 1) = nth_error out (d - dist).
Proof.
  intros [Hp Hl] H1 H2. rewrite <- (nth_error_firstn_lt out d (d - dist)) by lia. rewrite Hp, rev_nth_error by lia. f_equal. lia.
Qed.

(* byte-wise copy inside the output: exactly the reference *)
Lemma safe_out_sound n : forall out d outr dist out', 1 <= dist -> dist <= d -> Inv out d outr ->
  safe_out n out d (d - dist) = Some out' -> exists outr', ref_match n dist outr = Some outr' /\ Inv out' (d + n) outr'.
Proof.
  induction n as [|n IH]; intros out d outr dist out' H1 H2 HI H; cbn [safe_out] in H.
  - injection H as <-. exists outr. rewrite Nat.add_0_r. split; [reflexivity|exact HI].
  - destruct (read_at out (d - dist) 1) as [w|] eqn:Er; cbn in H; [|discriminate].
    destruct (read1 _ _ _ Er) as (x & -> & Hx).
    destruct (write_at out d [x]) as [out1|] eqn:Ew; cbn in H; [|discriminate].
    destruct (write_at_prefix _ _ _ _ Ew) as (P1 & L1 & B1). cbn [length] in P1.
    cbn [ref_match]. rewrite (inv_back _ _ _ _ HI H1 H2), Hx.
    assert (HI1 : Inv out1 (S d) (x :: outr)).
    { destruct HI as [Hp Hl]. split; [|cbn [length]; lia]. replace (S d) with (d + 1) by lia. rewrite P1, Hp. reflexivity. }
    replace (S (d - dist)) with (S d - dist) in H by lia.
    destruct (IH out1 (S d) (x :: outr) dist out' H1 ltac:(lia) HI1 H) as (outr' & Hr & HI'). exists outr'. split; [exact Hr|].
    replace (d + S n) with (S d + n) by lia. exact HI'.
Qed.

Lemma readn out s n w : read_at out s n = Some w -> w = firstn n (skipn s out) /\ length w = n /\ s + n <= length out.
Proof.
  unfold read_at. destruct (s + n <=? length out) eqn:E; [|discriminate]. apply Nat.leb_le in E. intros H. injection H as <-.
  split; [reflexivity|]. split; [|exact E]. rewrite firstn_length, skipn_length. lia.
Qed.
Lemma readw out s w : read_at out s WS = Some w -> w = firstn WS (skipn s out) /\ length w = WS /\ s + WS <= length out.
Proof. apply readn. Qed.

Lemma skipn_firstn_comm' {A} (l : list A) s n d : s + n <= d -> firstn n (skipn s (firstn d l)) = firstn n (skipn s l).
Proof.
  revert s n d. induction l as [|a l IH]; intros s n d H; [rewrite firstn_nil, !skipn_nil; reflexivity|].
  destruct d as [|d]; [assert (n = 0) by lia; subst; reflexivity|]. cbn [firstn]. destruct s as [|s].
  - cbn [skipn]. destruct n as [|n]; [reflexivity|]. cbn [firstn]. f_equal. apply (IH 0 n d). lia.
  - cbn [skipn]. apply IH. lia.
Qed.

(* word-wise copy inside the output with a distance larger than a word: the reference, a whole number of words *)
Lemma overrun_out_sound k : forall out d outr dist out', WS < dist -> dist <= d -> Inv out d outr ->
  overrun_out k out d (d - dist) = Some out' -> exists outr', ref_match (k * WS) dist outr = Some outr' /\ Inv out' (d + k * WS) outr'.
Proof.
  induction k as [|k IH]; intros out d outr dist out' H1 H2 HI H; cbn [overrun_out] in H.
  - injection H as <-. exists outr. cbn [Nat.mul]. rewrite Nat.add_0_r. split; [reflexivity|exact HI].
  - destruct (read_at out (d - dist) WS) as [w|] eqn:Er; cbn in H; [|discriminate].
    destruct (readw _ _ _ Er) as (Ew' & Lw & Bw).
    destruct (write_at out d w) as [out1|] eqn:Ew; cbn in H; [|discriminate].
    destruct (write_at_prefix _ _ _ _ Ew) as (P1 & L1 & B1). rewrite Lw in P1.
    destruct HI as [Hp Hl].
    (* the word lies entirely in the part already decoded *)
    assert (Hw : w = firstn WS (skipn (length outr - dist) (rev outr))).
    { rewrite Ew', <- Hp, Hl. symmetry. apply skipn_firstn_comm'. lia. }
    assert (HI1 : Inv out1 (d + WS) (rev w ++ outr)).
    { split; [|rewrite app_length, rev_length; lia]. rewrite P1, Hp, rev_app_distr, rev_involutive. reflexivity. }
    replace (d - dist + WS) with (d + WS - dist) in H by lia.
    destruct (IH out1 (d + WS) (rev w ++ outr) dist out' H1 ltac:(lia) HI1 H) as (outr' & Hr & HI'). exists outr'.
    replace (S k * WS) with (WS + k * WS) by lia. rewrite ref_match_app.
    rewrite (ref_match_block WS dist outr) by lia. rewrite <- Hw. split; [exact Hr|].
    replace (d + (WS + k * WS)) with (d + WS + k * WS) by lia. exact HI'.
Qed.

(* word-wise copy of literals from the input: a whole number of words of the input *)
Lemma overrun_in_sound k : forall out d s out' pre, firstn d out = pre -> length pre = d ->
  overrun_in k out d s = Some out' -> firstn (d + k * WS) out' = pre ++ firstn (k * WS) s /\ k * WS <= length s.
Proof.
  induction k as [|k IH]; intros out d s out' pre Hp Hl H; cbn [overrun_in] in H.
  - injection H as <-. cbn [Nat.mul firstn]. rewrite Nat.add_0_r, app_nil_r. split; [exact Hp|lia].
  - destruct (read_at s 0 WS) as [w|] eqn:Er; cbn [bind] in H; [|discriminate].
    destruct (readw _ _ _ Er) as (Ew' & Lw & Bw). cbn [skipn] in Ew'.
    destruct (write_at out d w) as [out1|] eqn:Ew; cbn [bind] in H; [|discriminate].
    destruct (write_at_prefix _ _ _ _ Ew) as (P1 & L1 & B1). rewrite Lw in P1.
    destruct (IH out1 (d + WS) (skipn WS s) out' (pre ++ w)) as (R1 & R2); [rewrite P1, Hp; reflexivity | rewrite app_length; lia | exact H |].
    rewrite skipn_length in R2. split; [|lia].
    replace (d + S k * WS) with (d + WS + k * WS) by lia. rewrite R1, <- app_assoc. f_equal.
    replace (S k * WS) with (WS + k * WS) by lia. rewrite firstn_add, Ew'. reflexivity.
Qed.

(* ------------------------------------------------------------ lengths: the saturating 32-bit sum against the unbounded one *)
Lemma read_ext_spec s : forall l l2 r2, (l < U32)%N -> s <> [] -> read_ext s l = (l2, r2) ->
  (exists m, ref_len s (N.to_nat l) = Some (m, r2) /\ N.of_nat m = l2) \/ l2 = (U32 - 1)%N \/ r2 = [].
Proof.
  induction s as [|b r IH]; intros l l2 r2 Hl Hne H; [congruence|]. cbn [read_ext ref_len] in *.
  set (l' := (if (l + b <? U32)%N then (l + b)%N else (U32 - 1)%N)) in *.
  assert (Hl' : (l' < U32)%N) by (unfold l', U32; destruct (l + b <? 4294967296)%N eqn:E; lia).
  destruct (b =? 255)%N eqn:Eb.
  - apply N.eqb_eq in Eb. destruct r as [|b2 r'].
    + injection H as <- <-. right. right. reflexivity.
    + pose proof (read_ext_monotone (b2 :: r') l' Hl') as Hm. rewrite H in Hm. cbn [fst] in Hm.
      destruct (l + b <? U32)%N eqn:Es.
      * destruct (IH l' l2 r2 Hl' ltac:(discriminate) H) as [(m & Hr & Hm2)|Hbad]; [|right; exact Hbad].
        left. exists m. split; [|exact Hm2]. rewrite <- Hr. f_equal. unfold l'. subst b. lia.
      * right. left. unfold l', U32 in *. lia.
  - injection H as <- <-. destruct (l + b <? U32)%N eqn:Es.
    + left. exists (N.to_nat l + N.to_nat b). split; [reflexivity|]. unfold l'. lia.
    + right. left. reflexivity.
Qed.

Lemma read_literal_spec s nib l2 r2 : read_literal s nib = (l2, r2) ->
  ((exists m, ref_length nib s = Some (m, r2) /\ N.of_nat m = l2) \/ ((15 <= l2)%N /\ (l2 = (U32 - 1)%N \/ r2 = []))) /\ ((nib < U32)%N -> (l2 < U32)%N).
Proof.
  intros H. unfold read_literal, ref_length in *. assert (H15 : (15 < U32)%N) by (unfold U32; lia). destruct s as [|b r].
  - injection H as <- <-. split; [|intros Hn; exact Hn]. destruct (nib =? 15)%N eqn:E.
    + apply N.eqb_eq in E. right. split; [lia|]. right. reflexivity.
    + left. exists (N.to_nat nib). split; [reflexivity|lia].
  - destruct (nib =? 15)%N eqn:E.
    + apply N.eqb_eq in E. subst nib.
      pose proof (read_ext_monotone (b :: r) 15%N H15) as Hm. rewrite H in Hm. cbn [fst] in Hm. split; [|intros _; lia].
      destruct (read_ext_spec (b :: r) 15%N l2 r2 H15 ltac:(discriminate) H) as [Hex|Hbad].
      * left. exact Hex.
      * right. split; [lia|exact Hbad].
    + injection H as <- <-. split; [|intros Hn; exact Hn]. left. exists (N.to_nat nib). split; [reflexivity|lia].
Qed.

(* ------------------------------------------------------------ one sequence of the decoder / of the reference *)
Lemma read_sequence_end s lit ll : read_sequence s = SeqEnd lit ll ->
  exists tok r1, s = tok :: r1 /\ read_literal r1 (tok / 16)%N = (ll, lit) /\ (N.of_nat (length lit) < ll + 2)%N.
Proof.
  unfold read_sequence. destruct s as [|tok r1]; [discriminate|].
  destruct (read_literal r1 (tok / 16)%N) as [ll' lit'] eqn:E1.
  destruct (N.of_nat (length lit') <? ll' + 2)%N eqn:E2.
  - intros H. injection H as <- <-. exists tok, r1. split; [reflexivity|]. split; [exact E1|lia].
  - destruct (skipn (N.to_nat ll') lit') as [|d0 [|d1 r4]]; try discriminate.
    destruct (read_literal r4 (tok mod 16)%N); discriminate.
Qed.

Lemma read_sequence_match_inv s more lit ll ml md rest : read_sequence s = SeqMatch more lit ll ml md rest ->
  exists tok r1 d0 d1 r4 ml0, s = tok :: r1 /\ read_literal r1 (tok / 16)%N = (ll, lit) /\ (ll + 2 <= N.of_nat (length lit))%N /\
    skipn (N.to_nat ll) lit = d0 :: d1 :: r4 /\ md = (d0 + 256 * d1)%N /\ read_literal r4 (tok mod 16)%N = (ml0, rest) /\
    ml = ((ml0 + N.of_nat MINMATCH) mod U32)%N /\ more = (MINCODA <=? length rest).
Proof.
  unfold read_sequence. destruct s as [|tok r1]; [discriminate|].
  destruct (read_literal r1 (tok / 16)%N) as [ll' lit'] eqn:E1.
  destruct (N.of_nat (length lit') <? ll' + 2)%N eqn:E2; [discriminate|].
  destruct (skipn (N.to_nat ll') lit') as [|d0 [|d1 r4]] eqn:E3; try discriminate.
  destruct (read_literal r4 (tok mod 16)%N) as [ml0 r5] eqn:E4.
  intros H. injection H as <- <- <- <- <- <-. exists tok, r1, d0, d1, r4, ml0. repeat split; try assumption; try reflexivity. lia.
Qed.

Lemma ref_step_end f tok r1 outr m lit : ref_length (tok / 16)%N r1 = Some (m, lit) -> length lit = m ->
  ref_decode (S f) (tok :: r1) outr = Some (rev (firstn m lit) ++ outr).
Proof.
  intros H1 H2. cbn [ref_decode]. rewrite H1. assert (E : (length lit <? m) = false) by (apply Nat.ltb_ge; lia). rewrite E.
  rewrite skipn_all2 by lia. reflexivity.
Qed.

Lemma ref_step_match f tok r1 outr m lit d0 d1 r4 m0 r5 o1 : ref_length (tok / 16)%N r1 = Some (m, lit) -> m <= length lit ->
  skipn m lit = d0 :: d1 :: r4 -> ref_length (tok mod 16)%N r4 = Some (m0, r5) -> N.to_nat (d0 + 256 * d1) <> 0 ->
  ref_match (m0 + MINMATCH) (N.to_nat (d0 + 256 * d1)) (rev (firstn m lit) ++ outr) = Some o1 ->
  ref_decode (S f) (tok :: r1) outr = ref_decode f r5 o1.
Proof.
  intros H1 H2 H3 H4 H5 H6. cbn [ref_decode]. rewrite H1. assert (E : (length lit <? m) = false) by (apply Nat.ltb_ge; lia). rewrite E.
  rewrite H3, H4. assert (E0 : (N.to_nat (d0 + 256 * d1) =? 0) = false) by (apply Nat.eqb_neq; exact H5). rewrite E0, H6. reflexivity.
Qed.

(* ------------------------------------------------------------ the decoder's loop against the reference *)
Lemma final_sound f tok r1 lit ll out d orem outr n out' : read_literal r1 (tok / 16)%N = (ll, lit) ->
  (N.of_nat (length (tok :: r1)) < U32 - 1)%N -> Inv out d outr ->
  (if negb (N.of_nat (length lit) =? ll)%N || (N.of_nat orem <? ll)%N then Fail
   else match write_at out d (firstn (N.to_nat ll) lit) with None => Trap | Some o => Ok (d + N.to_nat ll) o end) = Ok n out' ->
  exists outr', ref_decode (S f) (tok :: r1) outr = Some outr' /\ Inv out' n outr'.
Proof.
  intros E1 Hlen [Hp Hl] H. destruct (negb (N.of_nat (length lit) =? ll)%N || (N.of_nat orem <? ll)%N) eqn:Ec; [discriminate|].
  apply Bool.orb_false_elim in Ec. destruct Ec as [Ec _]. apply Bool.negb_false_iff, N.eqb_eq in Ec.
  pose proof (read_literal_suffix r1 (tok / 16)%N) as Hs. rewrite E1 in Hs. cbn [snd] in Hs. cbn [length] in Hlen.
  destruct (read_literal_spec _ _ _ _ E1) as [[(m & Hr & Hm) | (H15 & [Hsat | Hnil])] _].
  - destruct (write_at out d (firstn (N.to_nat ll) lit)) as [o|] eqn:Ew; [|discriminate]. injection H as <- <-.
    assert (Em : N.to_nat ll = m) by lia. assert (Elen : length lit = m) by lia. rewrite Em in *.
    exists (rev (firstn m lit) ++ outr). split; [apply ref_step_end; assumption|].
    destruct (write_at_prefix _ _ _ _ Ew) as (P1 & _ & _). rewrite firstn_length, Nat.min_l in P1 by lia.
    split; [rewrite P1, Hp, rev_app_distr, rev_involutive; reflexivity | rewrite app_length, rev_length, firstn_length; lia].
  - unfold U32 in *. lia.
  - subst lit. cbn [length] in Ec. lia.
Qed.

Section Step.
  Variable fuel : nat.
  Hypothesis IH : forall s out d orem outr n out', (N.of_nat (length s) < U32 - 1)%N -> Inv out d outr ->
    loop fuel s out d orem = Ok n out' -> exists outr', ref_decode fuel s outr = Some outr' /\ Inv out' n outr'.

  Lemma match_sound out1 d1 orem1 outr1 nib ml0 md rest r4 n out' :
    Inv out1 d1 outr1 -> read_literal r4 nib = (ml0, rest) -> (nib < 16)%N -> MINCODA <= length rest -> (N.of_nat (length rest) < U32 - 1)%N ->
    (if (d1 <? N.to_nat md) || (u32_of_size_minus orem1 LASTLITERALS <? (ml0 + N.of_nat MINMATCH) mod U32)%N || (orem1 <? LASTLITERALS) || (N.to_nat md =? 0)
        || ((ml0 + N.of_nat MINMATCH) mod U32 <? N.of_nat MINMATCH)%N then Fail
     else match (if (WS <? N.to_nat md) && (align (N.to_nat ((ml0 + N.of_nat MINMATCH) mod U32)) <=? orem1)
                 then overrun_out (words (N.to_nat ((ml0 + N.of_nat MINMATCH) mod U32))) out1 d1 (d1 - N.to_nat md)
                 else safe_out (N.to_nat ((ml0 + N.of_nat MINMATCH) mod U32)) out1 d1 (d1 - N.to_nat md)) with
          | None => Trap
          | Some out2 => loop fuel rest out2 (d1 + N.to_nat ((ml0 + N.of_nat MINMATCH) mod U32)) (orem1 - N.to_nat ((ml0 + N.of_nat MINMATCH) mod U32))
          end) = Ok n out' ->
    exists m0 o1 outr', ref_length nib r4 = Some (m0, rest) /\ N.to_nat md <> 0 /\ ref_match (m0 + MINMATCH) (N.to_nat md) outr1 = Some o1 /\
                        ref_decode fuel rest o1 = Some outr' /\ Inv out' n outr'.
  Proof.
    intros HI E4 Hnib Hmore Hlen H.
    set (ml := ((ml0 + N.of_nat MINMATCH) mod U32)%N) in *. set (mdn := N.to_nat md) in *.
    destruct ((d1 <? mdn) || (u32_of_size_minus orem1 LASTLITERALS <? ml)%N || (orem1 <? LASTLITERALS) || (mdn =? 0) || (ml <? N.of_nat MINMATCH)%N) eqn:Ec; [discriminate|].
    repeat (apply Bool.orb_false_elim in Ec; destruct Ec as [Ec ?]).
    assert (Hd : mdn <= d1) by (apply Nat.ltb_ge; assumption). assert (Hz : mdn <> 0) by (apply Nat.eqb_neq; assumption).
    assert (Hml : (N.of_nat MINMATCH <= ml)%N) by lia.
    (* the match length was read exactly and did not wrap *)
    destruct (read_literal_spec _ _ _ _ E4) as [Hspec Hlt]. specialize (Hlt ltac:(unfold U32; lia)).
    assert (Hex : exists m0, ref_length nib r4 = Some (m0, rest) /\ N.of_nat m0 = ml0 /\ N.to_nat ml = m0 + MINMATCH).
    { unfold MINMATCH, U32 in *. destruct Hspec as [(m0 & Hr & Hm0) | (H15 & [Hsat | Hnil])].
      - exists m0. split; [exact Hr|]. split; [exact Hm0|]. unfold ml in *. lia.
      - exfalso. unfold ml in Hml. subst ml0. cbn in Hml. lia.
      - exfalso. subst rest. cbn [length] in Hmore. unfold MINCODA in Hmore. lia. }
    destruct Hex as (m0 & Hr & Hm0 & Eml). rewrite Eml in H.
    assert (Hcopy : exists out2 o1, (if (WS <? mdn) && (align (m0 + MINMATCH) <=? orem1) then overrun_out (words (m0 + MINMATCH)) out1 d1 (d1 - mdn)
                                     else safe_out (m0 + MINMATCH) out1 d1 (d1 - mdn)) = Some out2 /\
                                    ref_match (m0 + MINMATCH) mdn outr1 = Some o1 /\ Inv out2 (d1 + (m0 + MINMATCH)) o1).
    { destruct ((WS <? mdn) && (align (m0 + MINMATCH) <=? orem1)) eqn:Ep.
      - apply Bool.andb_true_iff in Ep. destruct Ep as [Ep _]. apply Nat.ltb_lt in Ep.
        destruct (overrun_out (words (m0 + MINMATCH)) out1 d1 (d1 - mdn)) as [out2|] eqn:Eo; [|discriminate].
        destruct (overrun_out_sound _ _ _ _ _ _ Ep Hd HI Eo) as (o2 & Hr2 & [Hp2 Hl2]).
        assert (Hw : words (m0 + MINMATCH) * WS = (m0 + MINMATCH) + (words (m0 + MINMATCH) * WS - (m0 + MINMATCH))).
        { pose proof (words_align (m0 + MINMATCH) ltac:(unfold MINMATCH; lia)) as Hwa. pose proof (align_bound (m0 + MINMATCH)). lia. }
        rewrite Hw in Hr2. destruct (ref_match_prefix _ _ _ _ _ Hr2) as (o1 & Hr1 & Hf & Hl1).
        exists out2, o1. split; [reflexivity|]. split; [exact Hr1|]. destruct HI as [_ Hl]. split; [|lia].
        rewrite <- Hf, <- Hp2, Hl. symmetry. apply firstn_firstn_le. lia.
      - destruct (safe_out (m0 + MINMATCH) out1 d1 (d1 - mdn)) as [out2|] eqn:Eo; [|discriminate].
        destruct (safe_out_sound (m0 + MINMATCH) out1 d1 outr1 mdn out2 ltac:(lia) Hd HI Eo) as (o1 & Hr1 & HI1). exists out2, o1. repeat split; try assumption; apply HI1. }
    destruct Hcopy as (out2 & o1 & Ecopy & Hr1 & HI2). rewrite Ecopy in H.
    destruct (IH _ _ _ _ _ _ _ Hlen HI2 H) as (outr' & Hd' & HI'). exists m0, o1, outr'. repeat split; try assumption; apply HI'.
  Qed.
End Step.

Lemma loop_sound fuel : forall s out d orem outr n out', (N.of_nat (length s) < U32 - 1)%N -> Inv out d outr ->
  loop fuel s out d orem = Ok n out' -> exists outr', ref_decode fuel s outr = Some outr' /\ Inv out' n outr'.
Proof.
  induction fuel as [|fuel IH]; intros s out d orem outr n out' Hlen HI H; cbn [loop] in H; [discriminate|].
  destruct (read_sequence s) as [|lit ll|more lit ll ml md rest] eqn:Ers; [discriminate| |].
  - (* the last sequence *)
    destruct (read_sequence_end _ _ _ Ers) as (tok & r1 & -> & E1 & _). exact (final_sound fuel _ _ _ _ _ _ _ _ _ _ E1 Hlen HI H).
  - pose proof (read_sequence_match _ _ _ _ _ _ _ Ers) as (Hlit & Hrest & _).
    destruct (read_sequence_match_inv _ _ _ _ _ _ _ Ers) as (tok & r1 & d0 & d1 & r4 & ml0 & -> & E1 & Hlong & E3 & -> & E4 & -> & ->).
    destruct (MINCODA <=? length rest) eqn:Emore.
    2:{ (* too little input left for another sequence: taken as the last one, which needs the literal to be all that is left *)
        exfalso. destruct (negb (N.of_nat (length lit) =? ll)%N || (N.of_nat orem <? ll)%N) eqn:Ec; [discriminate|].
        apply Bool.orb_false_elim in Ec. destruct Ec as [Ec _]. apply Bool.negb_false_iff, N.eqb_eq in Ec. lia. }
    apply Nat.leb_le in Emore.
    (* the literal length was read exactly *)
    pose proof (read_literal_suffix r1 (tok / 16)%N) as Hs. rewrite E1 in Hs. cbn [snd] in Hs. cbn [length] in Hlen.
    assert (Hex : exists m, ref_length (tok / 16)%N r1 = Some (m, lit) /\ N.to_nat ll = m).
    { destruct (read_literal_spec _ _ _ _ E1) as [[(m & Hr & Hm) | (H15 & [Hsat | Hnil])] _].
      - exists m. split; [exact Hr|lia].
      - exfalso. unfold U32 in *. lia.
      - exfalso. subst lit. cbn [length] in Hlong. lia. }
    destruct Hex as (m & Hr & Em). cbv zeta in H. rewrite Em in *.
    (* the literal is copied *)
    assert (Hstep : exists out1, Inv out1 (d + m) (rev (firstn m lit) ++ outr) /\
              match (if (ll =? 0)%N then Some (Some (out, d, orem))
                     else if (N.of_nat orem <? N.of_nat (align m))%N then Some None
                          else match overrun_in (words m) out d lit with None => None | Some out' => Some (Some (out', d + m, orem - m)) end) with
              | Some (Some (o, dd, oo)) => o = out1 /\ dd = d + m /\ oo = orem - m
              | _ => True end).
    { destruct (ll =? 0)%N eqn:E0.
      - apply N.eqb_eq in E0. assert (Hm0 : m = 0) by lia. exists out. split; [|repeat split; lia].
        rewrite Hm0. cbn [firstn rev app]. rewrite Nat.add_0_r. exact HI.
      - destruct (N.of_nat orem <? N.of_nat (align m))%N; [exists out; split; [|exact I]; exfalso; discriminate H|].
        destruct (overrun_in (words m) out d lit) as [o1|] eqn:Eo; [|exfalso; discriminate H].
        exists o1. split; [|repeat split]. destruct HI as [Hp Hl].
        destruct (overrun_in_sound _ _ _ _ _ (rev outr) Hp ltac:(rewrite rev_length; exact Hl) Eo) as (R1 & R2).
        apply N.eqb_neq in E0. assert (Hm0 : 0 < m) by lia.
        pose proof (words_align m Hm0) as Hwa. pose proof (align_bound m) as Hab.
        split; [|rewrite app_length, rev_length, firstn_length; lia].
        rewrite <- (firstn_firstn_le o1 (d + m) (d + words m * WS)) by lia. rewrite R1.
        rewrite <- Hl at 1. rewrite <- (rev_length outr), firstn_app_2, firstn_firstn_le by lia.
        rewrite rev_app_distr, rev_involutive. reflexivity. }
    destruct Hstep as (out1 & HI1 & Hshape).
    destruct (if (ll =? 0)%N then Some (Some (out, d, orem))
              else if (N.of_nat orem <? N.of_nat (align m))%N then Some None
                   else match overrun_in (words m) out d lit with None => None | Some out' => Some (Some (out', d + m, orem - m)) end)
      as [[[[o dd] oo]|]|]; [|discriminate|discriminate].
    destruct Hshape as (-> & -> & ->).
    assert (Hlr : (N.of_nat (length rest) < U32 - 1)%N) by lia.
    destruct (match_sound fuel IH _ _ _ _ (tok mod 16)%N ml0 (d0 + 256 * d1)%N rest r4 n out' HI1 E4 ltac:(lia) Emore Hlr H)
      as (m0 & o1 & outr' & Hr4 & Hz & Hrm & Hdec & HI').
    exists outr'. split; [|exact HI'].
    rewrite (ref_step_match fuel tok r1 outr m lit d0 d1 r4 m0 rest o1 Hr ltac:(lia) E3 Hr4 Hz Hrm). exact Hdec.
Qed.

(* whatever the decoder accepts is the reference decoding of the block *)
Theorem decompress_sound src osz out0 n out : (N.of_nat (length src) < U32 - 1)%N ->
  decompress src osz out0 = Ok n out -> lz4_ref src = Some (firstn n out).
Proof.
  intros Hlen. unfold decompress, lz4_ref. destruct ((osz <=? length src) || (length src <? MINSRCSIZE)); [discriminate|]. intros H.
  assert (HI0 : Inv out0 0 []) by (split; reflexivity).
  destruct (loop_sound _ _ _ _ _ _ _ _ Hlen HI0 H) as (outr' & Hd & [Hp _]).
  rewrite Hd, Hp. reflexivity.
Qed.
