(* Proofs/PassProofs.v — Pass::readPass never reads outside the pass, whatever its bytes; every region it goes on to read lies inside. *)
From GR Require Import Base.Bytes Base.Mem Base.MemFacts Model.PassModel.
From Coq Require Import NArith ZArith Bool Lia ZifyN ZifyBool.
Local Open Scope Z_scope.

Section PassSafe.
  Variable t : mem.
  Hypothesis Hwf : mem_wf t.
  Let L := Z.of_N (tlen t).

  Lemma zrb_some o : 0 <= o -> o + 1 <= L -> exists v, zrb t o = Some v /\ 0 <= v.
  Proof.
    intros H0 H1. unfold zrb. destruct (Z.ltb_spec o 0); [lia|].
    destruct (rdb_some t (Z.to_N o) Hwf ltac:(unfold L in *; lia)) as [v E]. rewrite E. exists (Z.of_N v). split; [reflexivity | lia].
  Qed.
  Lemma zr16_some o : 0 <= o -> o + 2 <= L -> exists v, zr16 t o = Some v /\ 0 <= v.
  Proof.
    intros H0 H1. unfold zr16. destruct (Z.ltb_spec o 0); [lia|].
    destruct (r16_some t (Z.to_N o) Hwf ltac:(unfold L in *; lia)) as [v E]. rewrite E. exists (Z.of_N v). split; [reflexivity | lia].
  Qed.
  Lemma zr32_some o : 0 <= o -> o + 4 <= L -> exists v, zr32 t o = Some v /\ 0 <= v.
  Proof.
    intros H0 H1. unfold zr32. destruct (Z.ltb_spec o 0); [lia|].
    destruct (r32_some t (Z.to_N o) Hwf ltac:(unfold L in *; lia)) as [v E]. rewrite E. exists (Z.of_N v). split; [reflexivity | lia].
  Qed.

  Definition inside (r : Z * Z) : Prop := 0 <= fst r /\ 0 <= snd r /\ fst r + snd r <= L.
  Definition ok (p : pres) : Prop := match p with PTrap => False | PReject => True | PAccept rs => Forall inside rs end.

  Lemma rule_regions_ok : forall n o_con o_act rc_data ac_data rc_data_end ac_data_end rc_end ac_end acc,
    Forall inside acc ->
    0 <= o_con -> o_con + 2 * Z.of_nat n <= L -> 0 <= o_act -> o_act + 2 * Z.of_nat n <= L ->
    0 <= rc_data -> rc_data_end <= L -> 0 <= ac_data -> ac_data_end <= L -> rc_data <= rc_end -> ac_data <= ac_end ->
    ok (rule_regions t n o_con o_act rc_data ac_data rc_data_end ac_data_end rc_end ac_end acc).
  Proof.
    induction n as [|k IH]; intros o_con o_act rc_data ac_data rc_data_end ac_data_end rc_end ac_end acc Hacc Hc0 Hc1 Ha0 Ha1 Hr0 Hr1 Hd0 Hd1 Hre Hae; cbn [rule_regions ok]; [exact Hacc|].
    destruct (zr16_some (o_act + 2 * Z.of_nat k) ltac:(lia) ltac:(lia)) as [oa [Ea Hoa]]. rewrite Ea.
    destruct (zr16_some (o_con + 2 * Z.of_nat k) ltac:(lia) ltac:(lia)) as [oc [Ec Hoc]]. rewrite Ec.
    set (rc_begin := if oc =? 0 then rc_end else rc_data + oc).
    destruct (_ || _) eqn:Ebad; [exact I|].
    repeat (apply orb_false_elim in Ebad; destruct Ebad as [Ebad ?]).
    apply IH; try lia; try (unfold rc_begin; destruct (oc =? 0); lia).
    constructor; [unfold inside; cbn [fst snd]; lia|]. constructor; [unfold inside; cbn [fst snd]; unfold rc_begin in *; destruct (oc =? 0); lia|]. exact Hacc.
  Qed.
  Ltac rd H := match goal with |- context [match ?f t ?o with _ => _ end] =>
                 first [ destruct (zr16_some o ltac:(lia) ltac:(lia)) as [?v [H ?Hv]]; rewrite H
                       | destruct (zr32_some o ltac:(lia) ltac:(lia)) as [?v [H ?Hv]]; rewrite H
                       | destruct (zrb_some o ltac:(lia) ltac:(lia)) as [?v [H ?Hv]]; rewrite H ] end.
  Ltac cond := match goal with |- context [if ?c then _ else _] => destruct c eqn:?C; [exact I|] end.

  Theorem read_pass_ok base coll_ok : ok (read_pass t base coll_ok).
  Proof.
    unfold read_pass. fold L. destruct (Z.ltb_spec L 40) as [|H40]; [exact I|].
    destruct (zrb_some 0 ltac:(lia) ltac:(lia)) as [flags [E0 _]]. rewrite E0.
    destruct (zr16_some 4 ltac:(lia) ltac:(lia)) as [nr [E1 Hnr]]. rewrite E1.
    destruct (zr32_some 8 ltac:(lia) ltac:(lia)) as [pc32 [E2 _]]. rewrite E2.
    destruct (zr32_some 12 ltac:(lia) ltac:(lia)) as [rc32 [E3 _]]. rewrite E3.
    destruct (zr32_some 16 ltac:(lia) ltac:(lia)) as [ac32 [E4 _]]. rewrite E4.
    destruct (zr16_some 24 ltac:(lia) ltac:(lia)) as [nst [E5 Hnst]]. rewrite E5.
    destruct (zr16_some 26 ltac:(lia) ltac:(lia)) as [nt [E6 Hnt]]. rewrite E6.
    destruct (zr16_some 28 ltac:(lia) ltac:(lia)) as [ns [E7 Hns]]. rewrite E7.
    destruct (zr16_some 30 ltac:(lia) ltac:(lia)) as [nc [E8 Hnc]]. rewrite E8.
    destruct (zr16_some 32 ltac:(lia) ltac:(lia)) as [nrg [E9 Hnrg]]. rewrite E9.
    destruct (negb coll_ok); [exact I|]. cond. cond. cbv zeta.
    destruct (Z.ltb_spec L (40 + nrg * 6 - 2)) as [|Hr]; [exact I|].
    (* the peek of the last range: inside the header when there are no ranges, inside the ranges otherwise *)
    destruct (zr16_some (40 + nrg * 6 - 4) ltac:(lia) ltac:(lia)) as [lastg [E10 _]]. rewrite E10.
    destruct ((L <? 40 + 6 * nrg + 2 * ns) || (L <? 40 + 6 * nrg + 2 * (ns + 1))) eqn:Cm; [exact I|].
    apply orb_false_elim in Cm. destruct Cm as [Cm1 Cm2]. apply Z.ltb_ge in Cm1, Cm2.
    destruct (zr16_some (40 + 6 * nrg + 2 * ns) ltac:(lia) ltac:(lia)) as [ne [E11 Hne]]. rewrite E11.
    set (p1 := 40 + 6 * nrg + 2 * (ns + 1) + 2 * ne).
    destruct (Z.ltb_spec L (p1 + 2)) as [|Hp1]; [exact I|].
    destruct (zrb_some p1 ltac:(unfold p1; lia) ltac:(lia)) as [minp [E12 Hminp]]. rewrite E12.
    destruct (zrb_some (p1 + 1) ltac:(unfold p1; lia) ltac:(lia)) as [maxp [E13 Hmaxp]]. rewrite E13.
    destruct (Z.ltb_spec maxp minp) as [|Hmm]; [exact I|].
    set (p2 := p1 + 2 + 2 * (maxp - minp + 1) + 2 * nr + nr).
    destruct (Z.ltb_spec L (p2 + 3)) as [|Hp2]; [exact I|].
    destruct (zr16_some (p2 + 1) ltac:(unfold p2, p1; lia) ltac:(lia)) as [pcl [E14 Hpcl]]. rewrite E14.
    set (st := p2 + 3 + 2 * (nr + 1) + 2 * (nr + 1)).
    destruct ((L <=? st) || (L - st <=? 2 * nt * nc)) eqn:Cs; [exact I|].
    apply orb_false_elim in Cs. destruct Cs as [Cs1 Cs2]. apply Z.leb_gt in Cs1, Cs2.
    set (p3 := st + 2 * nt * nc + 1).
    destruct (Z.eqb_spec p3 (pc32 - base)) as [Epc|]; cbn [negb]; [|exact I].
    destruct (negb (p3 + pcl =? rc32 - base) || negb (rc32 - base - (pc32 - base) =? pcl)) eqn:Crc; [exact I|].
    apply orb_false_elim in Crc. destruct Crc as [Crc1 _]. apply negb_false_iff in Crc1. apply Z.eqb_eq in Crc1.
    destruct (zr16_some (p2 + 3 + 2 * nr) ltac:(unfold p2, p1; lia) ltac:(unfold st in *; lia)) as [ct [E15 Hct]]. rewrite E15.
    destruct (Z.eqb_spec (p3 + pcl + ct) (ac32 - base)) as [Eac|]; cbn [negb]; [|exact I].
    destruct (zr16_some (p2 + 3 + 2 * (nr + 1) + 2 * nr) ltac:(unfold p2, p1; lia) ltac:(unfold st in *; lia)) as [at_ [E16 Hat]]. rewrite E16.
    destruct (Z.ltb_spec L (p3 + pcl + ct + at_)) as [|Hend]; [exact I|].
    assert (Hnn : 0 <= nt * nc) by (apply Z.mul_nonneg_nonneg; lia).
    assert (Hfixed : Forall inside ((if 0 <? pcl then [(p1 + 2 + 2 * (maxp - minp + 1) + 2 * nr, 1); (p1 + 2 + 2 * (maxp - minp + 1), 2)] else []) ++
                       [(0, 40); (40, 6 * nrg); (40 + 6 * nrg, 2 * (ns + 1)); (40 + 6 * nrg + 2 * (ns + 1), 2 * ne);
                        (p1 + 2, 2 * (maxp - minp + 1)); (p1 + 2 + 2 * (maxp - minp + 1), 2 * nr); (p1 + 2 + 2 * (maxp - minp + 1) + 2 * nr, nr);
                        (p2 + 3, 2 * (nr + 1)); (p2 + 3 + 2 * (nr + 1), 2 * (nr + 1)); (st, 2 * nt * nc); (pc32 - base, pcl)])).
    { apply Forall_app. split.
      - destruct (0 <? pcl); repeat constructor; unfold inside, p2, p1 in *; cbn [fst snd]; lia.
      - repeat constructor; unfold inside, st, p3, p2, p1 in *; cbn [fst snd]; lia. }
    destruct (Z.eqb_spec nr 0) as [Hz|Hnz].
    - cbn [ok]. subst nr. exact Hfixed.
    - apply rule_regions_ok; try exact Hfixed; unfold st, p3, p2, p1 in *; rewrite ?Z2Nat.id by lia; lia.
  Qed.
End PassSafe.

(* for arbitrary bytes *)
Theorem read_pass_arbitrary_bytes (l : bytes) base coll_ok : ok (mem_of_list l) (read_pass (mem_of_list l) base coll_ok).
Proof. apply read_pass_ok. apply mem_of_list_wf. Qed.
