(* Proofs/MemoProofs.v — the glyph cache is observationally a pure function: every lookup, after any history, lazily or
   preloaded, returns [spec gid]; a preloaded cache is never written. *)
From GR Require Import Base.Bytes Model.MemoModel.
From Coq Require Import NArith Bool Lia ZifyN ZifyBool ZifyNat.
Local Open Scope N_scope.

Section MemoProofs.
  Variable V : Type.
  Variable load : N -> option V.
  Variable n : N.
  Notation gcache := (gcache V).
  Notation glyph := (glyph V load n).
  Notation spec := (spec V load n).
  Notation run := (run V load n).

  Definition Inv (c : gcache) : Prop :=
    length (gc_slots V c) = N.to_nat n /\ 0 < n /\
    (exists v0, load 0 = Some v0 /\ nth 0 (gc_slots V c) None = Some v0) /\
    (forall k : nat, (k < N.to_nat n)%nat -> match nth k (gc_slots V c) None with Some v => load (N.of_nat k) = Some v | None => gc_loader V c = true end).

  Lemma set_nth_length k v l : length (set_nth V k v l) = length l.
  Proof. revert k; induction l as [|x l IH]; intros [|k]; cbn [set_nth length]; try reflexivity. rewrite IH; reflexivity. Qed.
  Lemma nth_set_nth k j v l : (k < length l)%nat -> nth j (set_nth V k v l) None = if Nat.eqb j k then v else nth j l None.
  Proof.
    revert k j; induction l as [|x l IH]; intros k j Hk; cbn [length] in Hk; [lia|].
    destruct k as [|k]; destruct j as [|j]; cbn [set_nth nth Nat.eqb]; try reflexivity. apply IH. lia.
  Qed.

  Lemma glyph_correct g c : Inv c ->
    fst (glyph g c) = spec g /\ Inv (snd (glyph g c)) /\ (gc_loader V c = false -> snd (glyph g c) = c).
  Proof.
    intros Hi. pose proof Hi as [Hlen [Hn [[v0 [H0 Hs0]] Hall]]].
    unfold MemoModel.glyph, MemoModel.spec.
    destruct (N.leb_spec n g) as [Hge|Hlt].
    - cbn [fst snd]. rewrite Hs0, H0. split; [reflexivity | split; [exact Hi | reflexivity]].
    - specialize (Hall (N.to_nat g) ltac:(lia)) as Hg. rewrite N2Nat.id in Hg.
      destruct (nth (N.to_nat g) (gc_slots V c) None) as [v|] eqn:E.
      + cbn [fst snd]. rewrite Hg. split; [reflexivity | split; [exact Hi | reflexivity]].
      + rewrite Hg. destruct (load g) as [v|] eqn:El; cbn [fst snd].
        * split; [reflexivity|]. split; [|intros Hf; discriminate].
          assert (Hk : (N.to_nat g < length (gc_slots V c))%nat) by lia.
          split; [|split; [|split]]; cbn [gc_slots gc_loader].
          -- rewrite set_nth_length. exact Hlen.
          -- exact Hn.
          -- exists v0. split; [exact H0|]. rewrite (nth_set_nth _ _ _ _ Hk).
             destruct (Nat.eqb_spec 0 (N.to_nat g)) as [Heq|Hne]; [|exact Hs0].
             assert (g = 0) by lia. subst g. rewrite El in H0. exact H0.
          -- intros k Hklt. rewrite (nth_set_nth _ _ _ _ Hk).
             destruct (Nat.eqb_spec k (N.to_nat g)) as [->|Hne]; [rewrite N2Nat.id; exact El|].
             specialize (Hall k Hklt). destruct (nth k (gc_slots V c) None); [exact Hall | reflexivity].
        * rewrite Hs0, H0. split; [reflexivity | split; [exact Hi | reflexivity]].
  Qed.

  Lemma run_correct : forall gids c, Inv c ->
    fst (run c gids) = map spec gids /\ Inv (snd (run c gids)) /\ (gc_loader V c = false -> snd (run c gids) = c).
  Proof.
    induction gids as [|g r IH]; intros c Hi; cbn [MemoModel.run map fst snd]; [split; [reflexivity | split; [exact Hi | reflexivity]]|].
    destruct (glyph_correct g c Hi) as [Hv [Hi1 Hro]].
    destruct (glyph g c) as [v c1] eqn:Eg. cbn [fst snd] in *.
    specialize (IH c1 Hi1). destruct (run c1 r) as [vs c2] eqn:Er. cbn [fst snd] in *.
    destruct IH as [Hvs [Hi2 Hro2]]. split; [|split].
    - rewrite Hv, Hvs. reflexivity.
    - exact Hi2.
    - intros Hf. specialize (Hro Hf). subst c1. exact (Hro2 Hf).
  Qed.

  (* construction *)
  Lemma nth_repeat_none k m : nth k (repeat (@None V) m) None = None.
  Proof. revert k; induction m as [|m IH]; intros [|k]; cbn [repeat nth]; try reflexivity. apply IH. Qed.

  Lemma init_lazy_inv c : init_lazy V load n = Some c -> Inv c.
  Proof.
    unfold init_lazy. destruct (N.eqb_spec n 0) as [|Hn]; [discriminate|].
    unfold MemoModel.glyph. destruct (N.leb_spec n 0); [lia|]. cbn [gc_slots gc_loader].
    change (N.to_nat 0) with 0%nat.
    destruct (N.to_nat n) as [|m] eqn:En; [lia|]. cbn [repeat nth].
    destruct (load 0) as [v0|] eqn:E0; [|discriminate].
    intros Hc. injection Hc as <-. cbn [set_nth].
    split; [|split; [|split]]; cbn [gc_slots gc_loader].
    - cbn [length]. rewrite repeat_length, En. reflexivity.
    - lia.
    - exists v0. split; [exact E0 | reflexivity].
    - intros [|k] Hklt; cbn [nth]; [exact E0|]. rewrite nth_repeat_none. reflexivity.
  Qed.

  Lemma load_all_spec : forall k from l, load_all V load k from = Some l ->
    length l = k /\ forall j, (j < k)%nat -> exists v, load (from + N.of_nat j) = Some v /\ nth j l None = Some v.
  Proof.
    induction k as [|k IH]; intros from l H; cbn [load_all] in H.
    - injection H as <-. split; [reflexivity | intros j Hj; lia].
    - destruct (load from) as [v|] eqn:E; [|discriminate]. destruct (load_all V load k (from + 1)) as [r|] eqn:Er; [|discriminate].
      injection H as <-. destruct (IH _ _ Er) as [Hl Hn]. split; [cbn [length]; lia|].
      intros [|j] Hj; cbn [nth].
      + exists v. rewrite N.add_0_r. split; [exact E | reflexivity].
      + destruct (Hn j ltac:(lia)) as [w [Hw1 Hw2]]. exists w. split; [|exact Hw2]. replace (from + N.of_nat (S j)) with (from + 1 + N.of_nat j) by lia. exact Hw1.
  Qed.

  (* preloading is all or nothing: it fails exactly when some glyph it is asked to load cannot be read *)
  Lemma load_all_none : forall k from, load_all V load k from = None <-> exists i, (i < k)%nat /\ load (from + N.of_nat i) = None.
  Proof.
    induction k as [|k IH]; intros from; cbn [load_all].
    - split; [discriminate|]. intros (i & Hi & _). lia.
    - destruct (load from) as [v|] eqn:E0.
      + destruct (load_all V load k (from + 1)) as [r|] eqn:Er.
        * split; [discriminate|]. intros (i & Hi & Hn). exfalso. destruct i as [|i].
          -- rewrite N.add_0_r in Hn. congruence.
          -- assert (Hex : exists j, (j < k)%nat /\ load (from + 1 + N.of_nat j) = None).
             { exists i. split; [lia|]. replace (from + 1 + N.of_nat i) with (from + N.of_nat (S i)) by lia. exact Hn. }
             apply IH in Hex. congruence.
        * split; [|reflexivity]. intros _. apply IH in Er. destruct Er as (j & Hj & Hn). exists (S j). split; [lia|].
          replace (from + N.of_nat (S j)) with (from + 1 + N.of_nat j) by lia. exact Hn.
      + split; [|reflexivity]. intros _. exists 0%nat. split; [lia|]. rewrite N.add_0_r. exact E0.
  Qed.
  Lemma init_preload_refused_iff : init_preload V load n = None <-> n = 0 \/ exists g, g < n /\ load g = None.
  Proof.
    unfold init_preload. destruct (N.eqb_spec n 0) as [->|Hn]; [split; [left; reflexivity|reflexivity]|].
    destruct (load_all V load (N.to_nat n) 0) as [l|] eqn:E.
    - split; [discriminate|]. intros [H0|(g & Hg & Hl)]; [contradiction|]. exfalso.
      assert (Hex : exists i, (i < N.to_nat n)%nat /\ load (0 + N.of_nat i) = None) by (exists (N.to_nat g); split; [lia|]; rewrite N.add_0_l, N2Nat.id; exact Hl).
      apply load_all_none in Hex. congruence.
    - split; [|reflexivity]. intros _. right. apply load_all_none in E. destruct E as (i & Hi & Hl). exists (N.of_nat i). split; [lia|].
      rewrite N.add_0_l in Hl. exact Hl.
  Qed.

  Lemma init_preload_inv c : init_preload V load n = Some c -> Inv c /\ gc_loader V c = false.
  Proof.
    unfold init_preload. destruct (N.eqb_spec n 0) as [|Hn]; [discriminate|].
    destruct (load_all V load (N.to_nat n) 0) as [l|] eqn:E; [|discriminate]. intros H. injection H as <-.
    destruct (load_all_spec _ _ _ E) as [Hl Hall]. split; [|reflexivity].
    split; [|split; [|split]]; cbn [gc_slots gc_loader].
    - exact Hl.
    - lia.
    - destruct (Hall 0%nat ltac:(lia)) as [v [Hv1 Hv2]]. exists v. split; assumption.
    - intros k Hk. destruct (Hall k Hk) as [v [Hv1 Hv2]]. rewrite Hv2. cbn in Hv1. exact Hv1.
  Qed.

  (* C08: a lookup after any history equals the lookup on the fresh face *)
  Theorem history_independent c hist probe : Inv c -> fst (glyph probe (snd (run c hist))) = fst (glyph probe c).
  Proof.
    intros Hi. destruct (run_correct hist c Hi) as [_ [Hi2 _]].
    rewrite (proj1 (glyph_correct probe _ Hi2)), (proj1 (glyph_correct probe _ Hi)). reflexivity.
  Qed.

  (* C10: a lazily filled and a preloaded cache answer every history alike *)
  Theorem lazy_eq_preloaded cl cp gids : init_lazy V load n = Some cl -> init_preload V load n = Some cp -> fst (run cl gids) = fst (run cp gids).
  Proof.
    intros Hl Hp. rewrite (proj1 (run_correct gids cl (init_lazy_inv _ Hl))), (proj1 (run_correct gids cp (proj1 (init_preload_inv _ Hp)))). reflexivity.
  Qed.

  (* C09: a preloaded cache is read-only: under ANY schedule of lookups issued by any number of threads every lookup returns
     what a single-threaded call returns and the cache is never written *)
  Theorem preloaded_schedule_free cp (sched : list (nat * N)) : init_preload V load n = Some cp ->
    run cp (map snd sched) = (map spec (map snd sched), cp).
  Proof.
    intros Hp. destruct (init_preload_inv _ Hp) as [Hi Hf]. destruct (run_correct (map snd sched) cp Hi) as [H1 [_ H3]].
    destruct (run cp (map snd sched)) as [vs c2]. cbn [fst snd] in *. rewrite H1, (H3 Hf). reflexivity.
  Qed.
End MemoProofs.
