(* Proofs/ForestProofs.v — the parent relation of the stream model stays acyclic under attachment and detachment:
   Slot::setAttr(gr_slatAttTo) refuses exactly the attachments that would close a cycle. *)
From GR Require Import Base.Bytes Model.StreamModel.
From Coq Require Import NArith ZArith Bool Lia.
Local Open Scope N_scope.

Definition par (m : amap) (s : sid) : option sid := match m s with Some a => a_par a | None => None end.
(* the n-th ancestor *)
Fixpoint climb (n : nat) (m : amap) (s : sid) : option sid :=
  match n with O => Some s | S k => match par m s with Some p => climb k m p | None => None end end.
Definition acyclic (m : amap) : Prop := forall s n, (0 < n)%nat -> climb n m s <> Some s.

Lemma climb_add : forall a b m x, climb (a + b) m x = match climb a m x with Some y => climb b m y | None => None end.
Proof. induction a as [|a IH]; intros b m x; cbn [Nat.add climb]; [reflexivity|]. destruct (par m x); [apply IH | reflexivity]. Qed.

(* two maps that agree on parents except at c: a climb that does not leave from c is the same in both *)
Section OneEdge.
  Variables (m m' : amap) (c : sid).
  Hypothesis Hsame : forall x, x <> c -> par m' x = par m x.

  Lemma climb_same : forall n x, (forall i, (i < n)%nat -> climb i m' x <> Some c) -> climb n m' x = climb n m x.
  Proof.
    induction n as [|n IH]; intros x H; cbn [climb]; [reflexivity|].
    assert (x <> c) by (intros ->; exact (H 0%nat ltac:(lia) eq_refl)).
    rewrite (Hsame x H0). destruct (par m x) as [p|] eqn:Ep; [|reflexivity].
    apply IH. intros i Hi Hc. apply (H (S i) ltac:(lia)). cbn [climb]. rewrite (Hsame x H0), Ep. exact Hc.
  Qed.

  (* if c is reachable from t in m', it is reachable from t in m *)
  Lemma reach_c_old : forall j t, climb j m' t = Some c -> exists j', climb j' m t = Some c.
  Proof.
    induction j as [j IH] using lt_wf_ind. intros t H.
    (* is c hit strictly before step j? *)
    assert (D : (exists i, (i < j)%nat /\ climb i m' t = Some c) \/ (forall i, (i < j)%nat -> climb i m' t <> Some c)).
    { clear IH H. induction j as [|j IHj]; [right; intros i Hi; lia|].
      destruct IHj as [[i [Hi Hc]]|Hn]; [left; exists i; split; [lia | exact Hc]|].
      destruct (climb j m' t) as [y|] eqn:E.
      - destruct (N.eq_dec y c) as [->|Hne]; [left; exists j; split; [lia | exact E]|].
        right. intros i Hi. destruct (Nat.eq_dec i j) as [->|]; [rewrite E; intros X; injection X as X; contradiction | apply Hn; lia].
      - right. intros i Hi. destruct (Nat.eq_dec i j) as [->|]; [rewrite E; discriminate | apply Hn; lia]. }
    destruct D as [[i [Hi Hc]]|Hn]; [exact (IH i Hi t Hc)|].
    exists j. rewrite <- (climb_same j t Hn). exact H.
  Qed.
End OneEdge.

(* adding the edge c -> t keeps the relation acyclic when c is not an ancestor-or-self of t *)
Theorem add_edge_acyclic m m' c t : acyclic m ->
  (forall x, x <> c -> par m' x = par m x) -> par m' c = Some t ->
  (forall j, climb j m t <> Some c) -> acyclic m'.
Proof.
  intros Hac Hsame Hpc Hnot x n Hn Hcyc.
  (* does the cycle pass through c? *)
  assert (D : (exists i, (i < n)%nat /\ climb i m' x = Some c) \/ (forall i, (i < n)%nat -> climb i m' x <> Some c)).
  { clear Hcyc Hn. induction n as [|n IHn]; [right; intros i Hi; lia|].
    destruct IHn as [[i [Hi Hc]]|Hno]; [left; exists i; split; [lia | exact Hc]|].
    destruct (climb n m' x) as [y|] eqn:E.
    - destruct (N.eq_dec y c) as [->|Hne]; [left; exists n; split; [lia | exact E]|].
      right. intros i Hi. destruct (Nat.eq_dec i n) as [->|]; [rewrite E; intros X; injection X as X; contradiction | apply Hno; lia].
    - right. intros i Hi. destruct (Nat.eq_dec i n) as [->|]; [rewrite E; discriminate | apply Hno; lia]. }
  destruct D as [[i [Hi Hc]]|Hno].
  - (* rotate the cycle so that it starts at c: c -> t ->* c *)
    assert (Hcc : climb n m' c = Some c).
    { replace n with ((n - i) + i)%nat by lia. rewrite climb_add.
      assert (Hx : climb (n - i) m' c = Some x).
      { replace n with (i + (n - i))%nat in Hcyc at 1 by lia. rewrite climb_add, Hc in Hcyc. exact Hcyc. }
      rewrite Hx. exact Hc. }
    destruct n as [|n']; [lia|]. cbn [climb] in Hcc. rewrite Hpc in Hcc.
    destruct (reach_c_old m m' c Hsame n' t Hcc) as [j' Hj']. exact (Hnot j' Hj').
  - rewrite (climb_same m m' c Hsame n x Hno) in Hcyc. exact (Hac x n Hn Hcyc).
Qed.

(* removing an edge keeps it acyclic *)
Theorem del_edge_acyclic m m' c : acyclic m -> (forall x, x <> c -> par m' x = par m x) -> par m' c = None -> acyclic m'.
Proof.
  intros Hac Hsame Hpc x n Hn Hcyc.
  assert (G : forall k y z, climb k m' y = Some z -> climb k m y = Some z).
  { induction k as [|k IH]; intros y z H; cbn [climb] in *; [exact H|].
    destruct (N.eq_dec y c) as [->|Hne]; [rewrite Hpc in H; discriminate|].
    rewrite (Hsame y Hne) in H. destruct (par m y); [exact (IH _ _ H) | discriminate]. }
  exact (Hac x n Hn (G n x x Hcyc)).
Qed.

(* ---- chain_up lists every ancestor when it ends before its fuel does *)
Lemma chain_up_climb : forall fuel m t n x, climb n m t = Some x -> (n < fuel)%nat -> In x (chain_up fuel m t).
Proof.
  induction fuel as [|f IH]; intros m t n x H Hn; [lia|]. cbn [chain_up].
  destruct n as [|n]; cbn [climb] in H; [injection H as <-; left; reflexivity|].
  right. unfold par in H. destruct (m t) as [a|]; [|discriminate]. destruct (a_par a) as [p|]; [|discriminate].
  exact (IH m p n x H ltac:(lia)).
Qed.
Lemma chain_up_ends : forall fuel m t, (length (chain_up fuel m t) < fuel)%nat -> forall n, (length (chain_up fuel m t) <= n)%nat -> climb n m t = None.
Proof.
  induction fuel as [|f IH]; intros m t Hl n Hn; [lia|]. cbn [chain_up length] in Hl, Hn.
  destruct n as [|n]; [lia|]. cbn [climb]. unfold par. destruct (m t) as [a|]; [|reflexivity]. destruct (a_par a) as [p|]; [|reflexivity].
  apply IH; lia.
Qed.
Lemma not_in_chain_not_ancestor fuel m t c : (length (chain_up fuel m t) < fuel)%nat -> ~ In c (chain_up fuel m t) -> forall j, climb j m t <> Some c.
Proof.
  intros Hl Hnin j Hj. destruct (Nat.lt_ge_cases j (length (chain_up fuel m t))) as [Hlt|Hge].
  - apply Hnin. exact (chain_up_climb fuel m t j c Hj ltac:(lia)).
  - rewrite (chain_up_ends fuel m t Hl j Hge) in Hj. discriminate.
Qed.

Lemma mem_In s l : mem s l = true <-> In s l.
Proof. unfold mem. rewrite existsb_exists. split; [intros [x [Hin E]]; apply N.eqb_eq in E; subst; exact Hin | intros H; exists s; split; [exact H | apply N.eqb_refl]]. Qed.

(* ---- the operations of the model *)
Theorem attach_keeps_acyclic st s other acc st' : acyclic (st_attr st) -> do_attach st s other acc = Ok st' -> acyclic (st_attr st').
Proof.
  unfold do_attach, with_attr, aget. intros Hac H.
  destruct (st_attr st s) as [a|] eqn:Ea; [|discriminate]. destruct (st_attr st other) as [oa|] eqn:Eo; [|discriminate].
  set (up := chain_up 200 (st_attr st) other) in *.
  set (count := (length up + first_child_depth 200 (st_attr st) s)%nat) in *.
  destruct (negb (Bool.eqb ((count <? 100)%nat && negb (mem s up)) acc)); [discriminate|].
  destruct ((count <? 100)%nat && negb (mem s up)) eqn:Eacc; cbn [negb] in H; [|injection H as <-; exact Hac].
  apply andb_prop in Eacc. destruct Eacc as [Ecnt Emem]. apply Nat.ltb_lt in Ecnt. apply negb_true_iff in Emem.
  assert (Hnin : ~ In s up) by (intros Hin; apply mem_In in Hin; rewrite Hin in Emem; discriminate).
  injection H as <-.
  (* the new map: other's children changed, then s's parent set to other *)
  set (st1 := upd_attr st other _).
  assert (Hp1 : forall x, par (st_attr st1) x = par (st_attr st) x).
  { intros x. unfold st1, upd_attr, par, aset. cbn [st_attr]. destruct (N.eqb_spec x other) as [->|]; [rewrite Eo; reflexivity | reflexivity]. }
  assert (Hs1 : exists a1, st_attr st1 s = Some a1).
  { unfold st1, upd_attr, aset. cbn [st_attr]. destruct (s =? other); [eexists; reflexivity | exists a; exact Ea]. }
  destruct Hs1 as [a1 Ea1].
  apply (add_edge_acyclic (st_attr st) _ s other Hac).
  - intros x Hx. unfold set_par, aget. rewrite Ea1. unfold upd_attr, par, aset. cbn [st_attr]. destruct (N.eqb_spec x s); [contradiction|]. apply Hp1.
  - unfold set_par, aget. rewrite Ea1. unfold upd_attr, par, aset. cbn [st_attr]. rewrite N.eqb_refl. reflexivity.
  - apply (not_in_chain_not_ancestor 200); [fold up; lia | exact Hnin].
Qed.

Theorem detach_keeps_acyclic st s st' : acyclic (st_attr st) -> do_detach st s = Ok st' -> acyclic (st_attr st').
Proof.
  unfold do_detach, with_attr, aget. intros Hac H. destruct (st_attr st s) as [a|] eqn:Ea; [|discriminate].
  destruct (a_par a) as [p|] eqn:Ep; [|injection H as <-; exact Hac]. injection H as <-.
  set (st1 := remove_kid st p s).
  assert (Hp1 : forall x, par (st_attr st1) x = par (st_attr st) x).
  { intros x. unfold st1, remove_kid, aget. destruct (st_attr st p) as [pa|] eqn:Epa; [|reflexivity].
    unfold upd_attr, par, aset. cbn [st_attr]. destruct (N.eqb_spec x p) as [->|]; [rewrite Epa; reflexivity | reflexivity]. }
  destruct (st_attr st1 s) as [a1|] eqn:Ea1.
  - apply (del_edge_acyclic (st_attr st) _ s Hac).
    + intros x Hx. unfold set_par, aget. rewrite Ea1. unfold upd_attr, par, aset. cbn [st_attr]. destruct (N.eqb_spec x s); [contradiction|]. apply Hp1.
    + unfold set_par, aget. rewrite Ea1. unfold upd_attr, par, aset. cbn [st_attr]. rewrite N.eqb_refl. reflexivity.
  - unfold set_par, aget. rewrite Ea1. intros x n Hn Hc. apply (Hac x n Hn).
    assert (G : forall k y z, climb k (st_attr st1) y = Some z -> climb k (st_attr st) y = Some z).
    { induction k as [|k IH]; intros y z Hy; cbn [climb] in *; [exact Hy|]. rewrite Hp1 in Hy. destruct (par (st_attr st) y); [exact (IH _ _ Hy) | discriminate]. }
    exact (G n x x Hc).
Qed.

(* any sequence of attachments (accepted or refused, re-attachments, attempts to close cycles) and detachments *)
Definition is_att (o : op) : Prop := match o with OAttach _ _ _ | ODetach _ => True | _ => False end.
Theorem attach_ops_keep_acyclic : forall ops st st', Forall is_att ops -> acyclic (st_attr st) -> run_ops st ops = Ok st' -> acyclic (st_attr st').
Proof.
  induction ops as [|o r IH]; intros st st' Hf Hac H; cbn [run_ops] in H.
  - injection H as <-. exact Hac.
  - inversion Hf as [|? ? Ho Hr]; subst. destruct (apply_op st o) as [st1|] eqn:E; [|discriminate].
    apply (IH st1 st' Hr); [|exact H].
    destruct o; try destruct Ho; cbn [apply_op] in E; [exact (detach_keeps_acyclic _ _ _ Hac E) | exact (attach_keeps_acyclic _ _ _ _ _ Hac E)].
Qed.

(* ---- the other stream operations do not touch parents at all *)
Definition par_eq (m m' : amap) : Prop := forall x, par m' x = par m x.
Lemma par_eq_acyclic m m' : par_eq m m' -> acyclic m -> acyclic m'.
Proof.
  intros He Hac x n Hn Hc. apply (Hac x n Hn).
  assert (G : forall k y, climb k m' y = climb k m y) by (induction k as [|k IH]; intros y; cbn [climb]; [reflexivity|]; rewrite He; destruct (par m y); [apply IH | reflexivity]).
  rewrite <- G. exact Hc.
Qed.
Lemma par_eq_refl m : par_eq m m. Proof. intros x; reflexivity. Qed.
Lemma par_eq_trans m1 m2 m3 : par_eq m1 m2 -> par_eq m2 m3 -> par_eq m1 m3.
Proof. intros A B x. rewrite B, A. reflexivity. Qed.
Lemma par_eq_aset m s a : (match m s with Some a0 => a_par a0 | None => None end) = a_par a -> par_eq m (aset m s a).
Proof. intros H x. unfold par, aset. destruct (N.eqb_spec x s) as [->|]; [symmetry; exact H | reflexivity]. Qed.

Lemma set_indices_par : forall l m i, par_eq m (set_indices m l i).
Proof.
  induction l as [|s r IH]; intros m i; cbn [set_indices]; [apply par_eq_refl|].
  destruct (m s) as [a|] eqn:E; [|apply IH].
  eapply par_eq_trans; [|apply IH]. apply par_eq_aset. rewrite E. reflexivity.
Qed.
Lemma assoc_pass2_par : forall l m n cs, par_eq m (fst (assoc_pass2 m l n cs)).
Proof.
  induction l as [|s r IH]; intros m n cs; cbn [assoc_pass2]; [apply par_eq_refl|].
  destruct (m s) as [a|] eqn:E; [|apply IH].
  destruct (ext_after _ _ _ _ _) as [cs1 na]. destruct (ext_before _ _ _ _) as [cs2 nb].
  eapply par_eq_trans; [|apply IH]. apply par_eq_aset. rewrite E. reflexivity.
Qed.

Definition keeps_parents (o : op) : Prop :=
  match o with OAppend _ _ | OInsert _ _ | ODelete _ | OAssoc _ _ | OReverse _ | OAssocChars => True | _ => False end.

Lemma keeps_parents_ok st o st' : keeps_parents o -> apply_op st o = Ok st' -> par_eq (st_attr st) (st_attr st').
Proof.
  destruct o; intros Hk H; try destruct Hk; cbn [apply_op] in H.
  - (* append *) unfold do_append, aget in H. destruct (st_attr st s) eqn:E; [discriminate|]. destruct (mem s (st_stream st)); [discriminate|].
    injection H as <-. unfold upd_attr, set_stream. cbn [st_attr]. apply par_eq_aset. rewrite E. reflexivity.
  - (* insert *) unfold do_insert, aget in H. destruct (st_attr st nw) eqn:E; [discriminate|]. destruct (mem nw (st_stream st)); [discriminate|].
    destruct at_ as [iss|].
    + destruct (negb (mem iss (st_stream st))); [discriminate|]. unfold with_attr, aget in H. destruct (st_attr st iss); [|discriminate].
      injection H as <-. unfold upd_attr, set_stream. cbn [st_attr]. apply par_eq_aset. rewrite E. reflexivity.
    + injection H as <-. unfold upd_attr, set_stream. cbn [st_attr]. apply par_eq_aset. rewrite E.
      destruct (last (map Some (st_stream st)) None) as [lst|]; [unfold aget; destruct (st_attr st lst)|]; reflexivity.
  - (* delete *) unfold do_delete in H. destruct (negb (mem s (st_stream st))); [discriminate|]. unfold with_attr, aget in H.
    destruct (st_attr st s) as [a|] eqn:E; [|discriminate]. injection H as <-. unfold upd_attr, set_stream. cbn [st_attr]. apply par_eq_aset. rewrite E. reflexivity.
  - (* assoc *) unfold do_assoc, with_attr, aget in H. destruct (st_attr st s) as [a|] eqn:E; [|discriminate].
    destruct (fold_left _ refs (-1, -1)%Z) as [mn mx]. destruct (-1 <? mn)%Z; injection H as <-; [|apply par_eq_refl].
    unfold upd_attr. cbn [st_attr]. apply par_eq_aset. rewrite E. reflexivity.
  - (* reverse *) unfold do_reverse in H. destruct (negb _); [discriminate|]. destruct (st_stream st) as [|a [|b r]]; injection H as <-; apply par_eq_refl.
  - (* associateChars *) unfold do_assocchars in H. destruct (assoc_pass2 _ _ _ _) as [m2 cs2] eqn:E. injection H as <-. cbn [st_attr].
    eapply par_eq_trans; [apply set_indices_par|]. pose proof (assoc_pass2_par (st_stream st) (set_indices (st_attr st) (st_stream st) 0) (st_nchars st) (assoc_pass1 (st_attr st) (st_stream st) 0 (repeat (mkci (-1) (-1)) (Z.to_nat (st_nchars st))))) as P.
    rewrite E in P. exact P.
Qed.

(* every sequence of stream operations other than the copying ones (PUT_COPY, TEMP_COPY, free): appends, insertions, deletions,
   associations, reversals, associateChars, and attachments / detachments in any order *)
Definition forest_op (o : op) : Prop := keeps_parents o \/ is_att o.
Theorem forest_ops_keep_acyclic : forall ops st st', Forall forest_op ops -> acyclic (st_attr st) -> run_ops st ops = Ok st' -> acyclic (st_attr st').
Proof.
  induction ops as [|o r IH]; intros st st' Hf Hac H; cbn [run_ops] in H.
  - injection H as <-. exact Hac.
  - inversion Hf as [|? ? Ho Hr]; subst. destruct (apply_op st o) as [st1|] eqn:E; [|discriminate].
    apply (IH st1 st' Hr); [|exact H]. destruct Ho as [Hk|Ha].
    + exact (par_eq_acyclic _ _ (keeps_parents_ok _ _ _ Hk E) Hac).
    + destruct o; try destruct Ha; cbn [apply_op] in E; [exact (detach_keeps_acyclic _ _ _ Hac E) | exact (attach_keeps_acyclic _ _ _ _ _ Hac E)].
Qed.
Lemma st0_acyclic n rtl : acyclic (st_attr (st0 n rtl)).
Proof. intros s k Hk. destruct k; [lia|]. cbn. discriminate. Qed.
