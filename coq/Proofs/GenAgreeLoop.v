(* tie A obligations for the loop / growth model *)
From GR Require Import Base.Bytes Model.LoopModel Model.PosModel Model.SparseModel Gen.GenLoop.
From Coq Require Import List Lia ZifyN ZifyBool NArith.
Import ListNotations.
Local Open Scope N_scope.
(* the growth factor of the model is the one in the source; the loop limit the loader enforces is >= 1 (hypothesis of
   C02_pass_loop_bounded); the model's finalise fuel is the source's depth cut-off + 1 *)
Lemma gen_loop_consts_agree : GenLoop.growth_factor = LoopModel.growth_factor /\ 1 <= GenLoop.min_max_loop /\ GenLoop.depth_cutoff + 1 = 101.
Proof. repeat split; try reflexivity; discriminate. Qed.
Lemma gen_sparse_chunk_agrees : GenLoop.sparse_chunk_bits = SparseModel.CHUNK.
Proof. reflexivity. Qed.

(* the recursion of Slot::finalise / Slot::floodShift over a cluster goes one level deeper on EVERY recursive call — to the first child
   and to the next sibling alike — which is how Model/PosModel.v spends its fuel; with an increment of 0 on either call the depth
   cut-off would no longer bound the recursion (sibling lists are unbounded) *)
Lemma gen_depth_incs_agree : GenLoop.fin_child_depth_inc = 1 /\ GenLoop.fin_sibling_depth_inc = 1 /\ GenLoop.flood_child_depth_inc = 1 /\ GenLoop.flood_sibling_depth_inc = 1.
Proof. repeat split; reflexivity. Qed.

(* the machine's map cursor: it starts at entry 1 + context of m_slot_map (entry 0 is the slot before the map), INSERT may step it back
   to entry 0, NEXT steps it forward unless it already stands past the last of the [size] entries — `if (map - &smap[0] >= size) DIE`,
   with &smap[0] = &m_slot_map[1].  So it never leaves entries 0 .. size + 1, and the map holds at most MAX_SLOTS entries: the array needs
   MAX_SLOTS + 2 entries.  (With MAX_SLOTS + 1 the end-of-action store `*map = is` wrote one past the array on a full map: F29.) *)
Inductive cur_op := CNext | CInsert.
Definition cur_step (size : N) (i : N) (o : cur_op) : option N :=
  match o with
  | CNext => if size <=? i - 1 then (if i =? 0 then Some 1 else None) else Some (i + 1)      (* i = 0: map - &smap[0] = -1 < size *)
  | CInsert => Some (if i =? 0 then 0 else i - 1)
  end.
Fixpoint cur_run (size i : N) (os : list cur_op) : option N :=
  match os with [] => Some i | o :: r => match cur_step size i o with Some j => cur_run size j r | None => None end end.
Lemma cur_step_bound size i o j : i <= size + 1 -> cur_step size i o = Some j -> j <= size + 1.
Proof.
  intros Hi. destruct o; cbn [cur_step].
  - destruct (size <=? i - 1) eqn:E.
    + destruct (i =? 0) eqn:E0; [|discriminate]. intros H; injection H as <-. lia.
    + intros H; injection H as <-. lia.
  - intros H; injection H as <-. destruct (i =? 0); lia.
Qed.
Theorem map_cursor_in_bounds : forall os size i j, size <= GenLoop.max_slots -> i <= size + 1 -> cur_run size i os = Some j ->
  j < GenLoop.max_slots + GenLoop.slot_map_extra.
Proof.
  induction os as [|o r IH]; intros size i j Hs Hi H; cbn [cur_run] in H.
  - injection H as <-. unfold GenLoop.max_slots, GenLoop.slot_map_extra in *. lia.
  - destruct (cur_step size i o) as [k|] eqn:E; [|discriminate]. exact (IH size k j Hs (cur_step_bound _ _ _ _ Hi E) H).
Qed.

(* the state machine's limits as the source has them now: runFSM counts its free-slot counter down from SlotMap::MAX_SLOTS, a state
   keeps at most FiniteStateMachine::MAX_RULES rules (the translator checks both statements are still there) *)
From GR Require Model.FsmModel.
Lemma gen_fsm_consts_agree : GenLoop.max_slots = N.of_nat FsmModel.MAX_SLOTS /\ GenLoop.max_rules = N.of_nat FsmModel.MAX_RULES.
Proof. split; reflexivity. Qed.
