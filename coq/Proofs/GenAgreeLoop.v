(* tie A obligations for the loop / growth model *)
From GR Require Import Base.Bytes Model.LoopModel Model.PosModel Model.SparseModel Gen.GenLoop.
Local Open Scope N_scope.
(* the growth factor of the model is the one in the source; the loop limit the loader enforces is >= 1 (hypothesis of
   C02_pass_loop_bounded); the model's finalise fuel is the source's depth cut-off + 1 *)
Lemma gen_loop_consts_agree : GenLoop.growth_factor = LoopModel.growth_factor /\ 1 <= GenLoop.min_max_loop /\ GenLoop.depth_cutoff + 1 = 101.
Proof. repeat split; try reflexivity; discriminate. Qed.
Lemma gen_sparse_chunk_agrees : GenLoop.sparse_chunk_bits = SparseModel.CHUNK.
Proof. reflexivity. Qed.

(* the recursion of Slot::finalise / Slot::floodShift over a cluster goes one level deeper on EVERY recursive call — to the first child
   and to the next sibling alike — which is how Model/PosModel.v spends its fuel; with an increment of 0 on either call the depth
   cut-off would no longer bound the recursion (sibling lists are unbounded) *)
Lemma gen_depth_incs_agree : GenLoop.fin_child_depth_inc = 1 /\ GenLoop.fin_sibling_depth_inc = 1 /\ GenLoop.flood_child_depth_inc = 1 /\ GenLoop.flood_sibling_depth_inc = 1.
Proof. repeat split; reflexivity. Qed.
