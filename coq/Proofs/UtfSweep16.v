(* Proofs/UtfSweep16.v — exhaustive evaluation over all code points below 0x110000 (a finite domain; the bound is in the statement) *)
From GR Require Import Base.Bytes Base.Sweep Model.UtfModel Proofs.UtfSweep8.
From Coq Require Import Lia.
Local Open Scope N_scope.

Definition is_surr (u : N) : bool := (0xD800 <=? u) && (u <=? 0xDFFF).
Definition chk16 (u : N) : bool :=
  is_surr u || (got_is (get16 (put16 u)) u (length (put16 u)) && validate16 (put16 u) && Nat.leb 1 (length (put16 u))).

Lemma chk16_all : all_below 0x110000 chk16 = true.
Proof. vm_cast_no_check (@eq_refl bool true). Qed.

