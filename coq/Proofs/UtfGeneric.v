(* Proofs/UtfGeneric.v — facts about count_unicode_chars / process_utf_data that hold for any codec whose
   get/validate satisfy a small interface; instantiated for UTF-8/16/32 in UtfProofs.v *)
From GR Require Import Base.Bytes Model.UtfModel.
From Coq Require Import Lia.
Local Open Scope N_scope.

Lemma skipn_app_le {A} k (a b : list A) : (k <= length a)%nat -> skipn k (a ++ b) = skipn k a ++ b.
Proof.
  revert a. induction k as [|k IH]; intros a H; cbn [skipn]; [reflexivity|].
  destruct a as [|x a]; cbn [length] in H; [lia|]. cbn [app skipn]. apply IH. lia.
Qed.

Lemma skipn_exact {A} (a b : list A) : skipn (length a) (a ++ b) = b.
Proof. induction a as [|x a IH]; cbn; [reflexivity|exact IH]. Qed.

Lemma length_skipn_lt {A} k (m : list A) : (1 <= k)%nat -> m <> [] -> (length (skipn k m) < length m)%nat.
Proof. intros Hk Hm. rewrite skipn_length. destruct m; [congruence|cbn [length]; lia]. Qed.

Section Generic.
  Variable get : units -> option got.
  Variable validate : units -> bool.
  Variable put : N -> units.
  Variable valid : N -> Prop.

  (* H1: a successful get consumed between one unit and what is there *)
  Hypothesis get_len : forall m g, get m = Some g -> (1 <= g_len g <= length m)%nat.
  (* H2: a get that would read past the end means the region ends in a truncated sequence *)
  Hypothesis get_none_validate : forall p m, m <> [] -> get m = None -> validate (p ++ m) = false.
  (* H3/H4: in front of a NUL unit get never traps and never swallows the NUL as part of a longer sequence *)
  Hypothesis get_nul_some : forall t rest, get (t ++ 0 :: rest) <> None.
  Hypothesis get_nul_len : forall t rest g, t <> [] -> get (t ++ 0 :: rest) = Some g -> (g_len g <= length t)%nat.
  Hypothesis get_nul_zero : forall rest, get (0 :: rest) = Some (mkgot 0 1 true).
  (* H6/H7: canonical encodings decode to themselves whatever follows, and complete the region *)
  Hypothesis get_put : forall u rest, valid u -> get (put u ++ rest) = Some (mkgot u (length (put u)) true).
  Hypothesis put_len : forall u, valid u -> (1 <= length (put u))%nat.
  Hypothesis validate_put : forall p u, valid u -> validate (p ++ put u) = true.
  Hypothesis validate_nil : validate [] = true.

  (* ------------------------------------------------ bounded form: never reads outside [begin,end) *)
  Lemma count_loop_no_oob fuel : forall p m pos n, validate (p ++ m) = true -> count_loop get fuel m pos n <> None.
  Proof.
    induction fuel as [|fuel IH]; intros p m pos n Hv; cbn [count_loop]; [discriminate|].
    destruct m as [|b r]; [discriminate|].
    destruct (get (b :: r)) as [g|] eqn:Eg.
    - destruct (negb (g_ok g)); [discriminate|]. destruct (g_usv g =? 0); [discriminate|].
      apply (IH (p ++ firstn (g_len g) (b :: r))).
      rewrite <- app_assoc, firstn_skipn. exact Hv.
    - rewrite (get_none_validate p (b :: r)) in Hv by (try discriminate; exact Eg). discriminate.
  Qed.

  Theorem count_end_no_oob m : count_end get validate m <> None.
  Proof.
    unfold count_end. destruct (validate m) eqn:Ev; cbn [negb]; [|discriminate].
    apply (count_loop_no_oob _ []). exact Ev.
  Qed.

  (* when an error is reported its position is inside the region *)
  Lemma count_loop_err_inside fuel : forall m pos n c e,
    count_loop get fuel m pos n = Some (c, Some e) -> (pos <= e < pos + length m)%nat.
  Proof.
    induction fuel as [|fuel IH]; intros m pos n c e H; cbn [count_loop] in H; [discriminate|].
    destruct m as [|b r]; [discriminate|].
    destruct (get (b :: r)) as [g|] eqn:Eg; [|discriminate].
    destruct (negb (g_ok g)).
    - inversion H; subst. cbn [length]. lia.
    - destruct (g_usv g =? 0); [discriminate|].
      apply IH in H. pose proof (get_len _ _ Eg) as Hl. rewrite skipn_length in H. lia.
  Qed.

  Theorem count_end_err_inside m c e : count_end get validate m = Some (c, Some e) -> (e < length m)%nat.
  Proof.
    unfold count_end. destruct (validate m) eqn:Ev; cbn [negb].
    - intros H. apply count_loop_err_inside in H. lia.
    - intros H. inversion H; subst. destruct m; [rewrite validate_nil in Ev; discriminate|cbn [length]; lia].
  Qed.

  (* ------------------------------------------------ NUL-terminated form: nothing beyond the first NUL is read *)
  Lemma count_nul_loop_ok fuel : forall t pos n, (length t < fuel)%nat ->
    count_nul_loop get fuel (t ++ [0]) pos n <> None.
  Proof.
    induction fuel as [|fuel IH]; intros t pos n Hf; [lia|]. cbn [count_nul_loop].
    destruct t as [|b r].
    - cbn [app]. rewrite get_nul_zero. cbn. discriminate.
    - destruct (get ((b :: r) ++ [0])) as [g|] eqn:Eg; [|destruct (get_nul_some _ _ Eg)].
      destruct (negb (g_ok g)); [discriminate|]. destruct (g_usv g =? 0); [discriminate|].
      pose proof (get_nul_len (b :: r) [] g ltac:(discriminate) Eg) as Hl.
      pose proof (get_len _ _ Eg) as Hl1.
      rewrite skipn_app_le by exact Hl. apply IH.
      rewrite skipn_length. cbn [length] in *. lia.
  Qed.

  Theorem count_nul_no_oob t : count_nul get (t ++ [0]) <> None.
  Proof. unfold count_nul. apply count_nul_loop_ok. rewrite app_length. cbn. lia. Qed.

  (* ------------------------------------------------ exact count on canonical encodings *)
  Lemma count_loop_exact fuel : forall us tail pos n,
    Forall (fun u => valid u /\ u <> 0) us ->
    (length (enc_all put us ++ tail) < fuel)%nat ->
    count_loop get fuel (enc_all put us ++ tail) pos n =
    count_loop get (fuel - length us) tail (pos + length (enc_all put us)) (n + length us).
  Proof.
    induction fuel as [|fuel IH]; intros us tail pos n Hus Hf; [lia|].
    destruct us as [|u us].
    - cbn [enc_all map concat app length]. rewrite !Nat.add_0_r, Nat.sub_0_r. reflexivity.
    - inversion Hus as [|? ? [Hu Hnz] Hus']; subst.
      unfold enc_all in *. cbn [map concat] in *. rewrite <- app_assoc in *.
      pose proof (put_len u Hu) as Hpl.
      cbn [count_loop].
      destruct (put u ++ concat (map put us) ++ tail) as [|b r] eqn:Em.
      { apply (f_equal (@length N)) in Em. rewrite app_length in Em. cbn [length] in Em. lia. }
      rewrite <- Em in *. rewrite get_put by exact Hu. cbn [g_ok g_usv g_len negb].
      assert (E0 : (u =? 0) = false) by (apply N.eqb_neq; exact Hnz). rewrite E0.
      rewrite skipn_exact.
      rewrite IH; [|exact Hus'|].
      + cbn [length]. rewrite !app_length. f_equal; lia.
      + rewrite !app_length in *. lia.
  Qed.

  Lemma validate_enc_all us : Forall (fun u => valid u /\ u <> 0) us -> validate (enc_all put us) = true.
  Proof.
    intros H. destruct us as [|u us] using rev_ind; [exact validate_nil|].
    unfold enc_all. rewrite map_app, concat_app. cbn [map concat]. rewrite app_nil_r.
    apply validate_put. apply Forall_app in H. destruct H as [_ H]. inversion H as [|? ? [Hu _] _]; exact Hu.
  Qed.

  Theorem count_end_exact us : Forall (fun u => valid u /\ u <> 0) us ->
    count_end get validate (enc_all put us) = Some (length us, None).
  Proof.
    intros H. unfold count_end. rewrite (validate_enc_all us H). cbn [negb].
    rewrite <- (app_nil_r (enc_all put us)) at 2.
    rewrite count_loop_exact; [|exact H|rewrite app_nil_r; lia].
    assert (Hlen : (length us <= length (enc_all put us))%nat).
    { clear -H put_len. induction H as [|u us [Hu _] _ IH]; [cbn; lia|].
      unfold enc_all in *. cbn [map concat]. rewrite app_length. pose proof (put_len u Hu). cbn [length]. lia. }
    destruct (S (length (enc_all put us)) - length us)%nat eqn:E; [lia|]. cbn [count_loop]. reflexivity.
  Qed.

  (* the first ill-formed sequence: error reported at its position, count = characters before it *)
  Theorem count_end_error us bad g : Forall (fun u => valid u /\ u <> 0) us ->
    get bad = Some g -> g_ok g = false -> validate (enc_all put us ++ bad) = true ->
    count_end get validate (enc_all put us ++ bad) = Some (length us, Some (length (enc_all put us))).
  Proof.
    intros H Hg Hok Hv. unfold count_end. rewrite Hv. cbn [negb].
    rewrite count_loop_exact; [|exact H|lia].
    assert (Hlen : (length us <= length (enc_all put us))%nat).
    { clear -H put_len. induction H as [|u us [Hu _] _ IH]; [cbn; lia|].
      unfold enc_all in *. cbn [map concat]. rewrite app_length. pose proof (put_len u Hu). cbn [length]. lia. }
    rewrite app_length.
    destruct (S (length (enc_all put us) + length bad) - length us)%nat eqn:E; [lia|]. cbn [count_loop].
    destruct bad as [|b r]; [pose proof (get_len _ _ Hg) as Hl; cbn [length] in Hl; lia|].
    rewrite Hg, Hok. cbn [negb]. reflexivity.
  Qed.

  (* NUL-terminated form on canonical text *)
  Lemma count_nul_loop_exact fuel : forall us tail pos n,
    Forall (fun u => valid u /\ u <> 0) us -> (length us <= fuel)%nat ->
    count_nul_loop get fuel (enc_all put us ++ tail) pos n =
    count_nul_loop get (fuel - length us) tail (pos + length (enc_all put us)) (n + length us).
  Proof.
    induction fuel as [|fuel IH]; intros us tail pos n Hus Hf.
    - destruct us; cbn [length] in Hf; [|lia]. cbn. reflexivity.
    - destruct us as [|u us].
      + cbn [enc_all map concat app length]. rewrite !Nat.add_0_r, Nat.sub_0_r. reflexivity.
      + inversion Hus as [|? ? [Hu Hnz] Hus']; subst.
        unfold enc_all in *. cbn [map concat] in *. rewrite <- app_assoc.
        cbn [count_nul_loop]. rewrite get_put by exact Hu. cbn [g_ok g_usv g_len negb].
        assert (E0 : (u =? 0) = false) by (apply N.eqb_neq; exact Hnz). rewrite E0.
        rewrite skipn_exact. rewrite IH; [|exact Hus'|cbn [length] in Hf; lia].
        cbn [length]. rewrite !app_length. f_equal; lia.
  Qed.

  Theorem count_nul_exact us rest : Forall (fun u => valid u /\ u <> 0) us ->
    count_nul get (enc_all put us ++ 0 :: rest) = Some (length us, None).
  Proof.
    intros H. unfold count_nul.
    assert (Hlen : (length us <= length (enc_all put us))%nat).
    { clear -H put_len. induction H as [|u us [Hu _] _ IH]; [cbn; lia|].
      unfold enc_all in *. cbn [map concat]. rewrite app_length. pose proof (put_len u Hu). cbn [length]. lia. }
    rewrite count_nul_loop_exact; [|exact H|rewrite app_length; cbn [length]; lia].
    rewrite app_length. cbn [length].
    destruct (S (length (enc_all put us) + S (length rest)) - length us)%nat eqn:E; [lia|].
    cbn [count_nul_loop]. rewrite get_nul_zero. reflexivity.
  Qed.

  (* ------------------------------------------------ process_utf_data (C12) *)
  (* full decode of the NUL-terminated text in front of the terminator *)
  Fixpoint decode_z (fuel : nat) (t : units) (pos : nat) : list (N * nat) :=
    match fuel with
    | O => []
    | S fuel' =>
        match t with
        | [] => []
        | _ => match get (t ++ [0]) with
               | None => []
               | Some g => if g_usv g =? 0 then [] else (g_usv g, pos) :: decode_z fuel' (skipn (g_len g) t) (pos + g_len g)
               end
        end
    end.

  Lemma read_text_prefix fuel : forall t pos n, (length t <= fuel)%nat ->
    read_text get n (t ++ [0]) pos = Some (firstn n (decode_z fuel t pos)).
  Proof.
    induction fuel as [|fuel IH]; intros t pos n Hf.
    - destruct t; cbn [length] in Hf; [|lia]. cbn [decode_z app]. rewrite firstn_nil.
      destruct n; cbn [read_text]; [reflexivity|]. rewrite get_nul_zero. reflexivity.
    - destruct n as [|n]; [reflexivity|]. cbn [read_text decode_z].
      destruct t as [|b r].
      + cbn [app]. rewrite get_nul_zero. reflexivity.
      + destruct (get ((b :: r) ++ [0])) as [g|] eqn:Eg; [|destruct (get_nul_some _ _ Eg)].
        destruct (g_usv g =? 0) eqn:Ez; [reflexivity|].
          pose proof (get_nul_len (b :: r) [] g ltac:(discriminate) Eg) as Hl.
          pose proof (get_len _ _ Eg) as Hl1.
          rewrite skipn_app_le by exact Hl.
          rewrite IH by (rewrite skipn_length; cbn [length] in *; lia).
          cbn [firstn]. reflexivity.
  Qed.
  Lemma decode_z_length fuel : forall t pos, (length (decode_z fuel t pos) <= length t)%nat.
  Proof.
    induction fuel as [|fuel IH]; intros t pos; cbn [decode_z]; [cbn; lia|].
    destruct t as [|b r]; [cbn; lia|].
    destruct (get ((b :: r) ++ [0])) as [g|] eqn:Eg; [|cbn; lia].
    destruct (g_usv g =? 0); [cbn; lia|].
    pose proof (get_len _ _ Eg) as Hl. cbn [length]. specialize (IH (skipn (g_len g) (b :: r)) (pos + g_len g)%nat).
    rewrite skipn_length in IH. cbn [length] in IH. lia.
  Qed.

  Theorem read_text_stops_at_nul t : exists l, (length l <= length t)%nat /\
    forall n, read_text get n (t ++ [0]) 0 = Some (firstn n l).
  Proof.
    exists (decode_z (length t) t 0). split; [apply decode_z_length|].
    intros n. apply read_text_prefix. lia.
  Qed.

  (* canonical text: the characters and their code-unit offsets *)
  Fixpoint bases (pos : nat) (us : list N) : list nat :=
    match us with [] => [] | u :: us' => pos :: bases (pos + length (put u)) us' end.

  Theorem read_text_exact : forall us n pos rest, Forall (fun u => valid u /\ u <> 0) us ->
    read_text get n (enc_all put us ++ 0 :: rest) pos = Some (firstn n (combine us (bases pos us))).
  Proof.
    induction us as [|u us IH]; intros n pos rest Hus.
    - cbn [enc_all map concat app combine]. rewrite firstn_nil.
      destruct n; cbn [read_text]; [reflexivity|]. rewrite get_nul_zero. reflexivity.
    - inversion Hus as [|? ? [Hu Hnz] Hus']; subst.
      destruct n as [|n]; [reflexivity|].
      unfold enc_all. cbn [map concat]. rewrite <- app_assoc. cbn [read_text].
      rewrite get_put by exact Hu. cbn [g_usv g_len].
      assert (E0 : (u =? 0) = false) by (apply N.eqb_neq; exact Hnz). rewrite E0.
      rewrite skipn_exact. fold (enc_all put us). rewrite IH by exact Hus'.
      cbn [bases combine firstn]. reflexivity.
  Qed.
End Generic.
