(* Proofs/RuleProofs.v — facts about the reference semantics: the selected rule is the matching rule of highest precedence; a
   pass in which no rule matches is the identity; the pass terminates within length + 1 steps; passes compose. *)
From GR Require Import Base.Bytes Model.RuleModel.
From Coq Require Import NArith ZArith Bool Lia ZifyNat ZifyBool.

Section RuleProofs.
  Variable adv : N -> Z.
  Notation select := (select).
  Notation run_pass := (run_pass adv).
  Notation fire := (fire adv).
  Notation fire_pos := (fire_pos adv).

  (* precedence: longer sort key first, then earlier rule *)
  Definition better (k : nat) (r : rule) (k' : nat) (r' : rule) : Prop :=
    (r_sort r' < r_sort r)%nat \/ (r_sort r' = r_sort r /\ (k <= k')%nat).

  Lemma select_spec : forall rules l i k best res,
    (forall kb b, best = Some (kb, b) -> (kb < k)%nat /\ rule_matches b l i = true) ->
    select rules l i k best = Some res ->
    let '(kr, r) := res in
    rule_matches r l i = true /\
    ((best = Some (kr, r)) \/ ((k <= kr)%nat /\ nth_error rules (kr - k) = Some r)) /\
    (forall kb b, best = Some (kb, b) -> better kr r kb b) /\
    (forall j r', nth_error rules j = Some r' -> rule_matches r' l i = true -> better kr r (k + j) r').
  Proof.
    induction rules as [|r0 rest IH]; intros l i k best res Hb H; cbn [RuleModel.select] in H.
    - subst best. destruct res as [kr r]. destruct (Hb kr r eq_refl) as [Hk Hm]. repeat split.
      + exact Hm.
      + left; reflexivity.
      + intros kb b E. injection E as <- <-. right. split; [reflexivity | lia].
      + intros j r' Hn. destruct j; discriminate.
    - set (best' := if rule_matches r0 l i then match best with Some (_, b) => if Nat.ltb (r_sort b) (r_sort r0) then Some (k, r0) else best | None => Some (k, r0) end else best) in H.
      assert (Hb' : forall kb b, best' = Some (kb, b) -> (kb < S k)%nat /\ rule_matches b l i = true).
      { intros kb b E. unfold best' in E. destruct (rule_matches r0 l i) eqn:M0.
        - destruct best as [[kb0 b0]|].
          + destruct (Nat.ltb (r_sort b0) (r_sort r0)).
            * injection E as <- <-. split; [lia | exact M0].
            * destruct (Hb kb b E) as [A B]. split; [lia | exact B].
          + injection E as <- <-. split; [lia | exact M0].
        - destruct (Hb kb b E) as [A B]. split; [lia | exact B]. }
      specialize (IH l i (S k) best' res Hb' H). destruct res as [kr r]. destruct IH as [Hm [Hwhere [Hbest Hall]]].
      assert (Hr0 : rule_matches r0 l i = true -> better kr r k r0).
      { intros M0. unfold best' in Hbest, Hwhere. rewrite M0 in Hbest, Hwhere. destruct best as [[kb0 b0]|].
        - destruct (Nat.ltb_spec (r_sort b0) (r_sort r0)) as [Hlt|Hge].
          + exact (Hbest k r0 eq_refl).
          + pose proof (Hbest kb0 b0 eq_refl) as Hb0. destruct (Hb kb0 b0 eq_refl) as [Hk0 _]. unfold better in *. lia.
        - exact (Hbest k r0 eq_refl). }
      repeat split.
      + exact Hm.
      + unfold best' in Hwhere. destruct Hwhere as [Hw|[Hle Hn]].
        * destruct (rule_matches r0 l i) eqn:M0; [|left; exact Hw].
          destruct best as [[kb0 b0]|].
          -- destruct (Nat.ltb (r_sort b0) (r_sort r0)); [|left; exact Hw]. injection Hw as <- <-. right. split; [lia|]. replace (k - k)%nat with 0%nat by lia. reflexivity.
          -- injection Hw as <- <-. right. split; [lia|]. replace (k - k)%nat with 0%nat by lia. reflexivity.
        * right. split; [lia|]. replace (kr - k)%nat with (S (kr - S k)) by lia. exact Hn.
      + intros kb b E. subst best. unfold best' in Hbest. destruct (rule_matches r0 l i) eqn:M0.
        * destruct (Nat.ltb_spec (r_sort b) (r_sort r0)) as [Hlt|Hge].
          -- pose proof (Hbest k r0 eq_refl) as H0. destruct (Hb kb b eq_refl) as [Hkb _]. unfold better in *. lia.
          -- exact (Hbest kb b eq_refl).
        * exact (Hbest kb b eq_refl).
      + intros [|j] r' Hn Hm'; cbn [nth_error] in Hn.
        * injection Hn as <-. replace (k + 0)%nat with k by lia. exact (Hr0 Hm').
        * replace (k + S j)%nat with (S k + j)%nat by lia. exact (Hall j r' Hn Hm').
  Qed.

  (* the selected rule matches, is a rule of the pass, and no matching rule has higher precedence *)
  Theorem select_sound rules l i kr r : select rules l i 0 None = Some (kr, r) ->
    nth_error rules kr = Some r /\ rule_matches r l i = true /\
    (forall j r', nth_error rules j = Some r' -> rule_matches r' l i = true -> better kr r j r').
  Proof.
    intros H. pose proof (select_spec rules l i 0 None (kr, r) ltac:(intros kb b E; discriminate) H) as S. cbv beta iota in S.
    destruct S as [Hm [Hw [_ Hall]]]. destruct Hw as [Hw|[_ Hn]]; [discriminate|]. rewrite Nat.sub_0_r in Hn. repeat split; [exact Hn | exact Hm | exact Hall].
  Qed.

  Lemma select_none_gen : forall rules l i k best, select rules l i k best = None -> best = None /\ forall r, In r rules -> rule_matches r l i = false.
  Proof.
    induction rules as [|r0 rest IH]; intros l i k best H; cbn [RuleModel.select] in H; [split; [exact H | intros r []]|].
    destruct (IH _ _ _ _ H) as [Hb Hall]. destruct (rule_matches r0 l i) eqn:M0.
    - destruct best as [[kb b]|]; [destruct (Nat.ltb (r_sort b) (r_sort r0)); discriminate | discriminate].
    - split; [exact Hb|]. intros r [<-|Hin]; [exact M0 | exact (Hall r Hin)].
  Qed.
  Theorem select_none rules l i : select rules l i 0 None = None <-> forall r, In r rules -> rule_matches r l i = false.
  Proof.
    split; [intros H; exact (proj2 (select_none_gen _ _ _ _ _ H))|].
    intros Hall. destruct (select rules l i 0 None) as [[kr r]|] eqn:E; [|reflexivity].
    destruct (select_sound _ _ _ _ _ E) as [Hn [Hm _]]. rewrite (Hall r (nth_error_In _ _ Hn)) in Hm. discriminate.
  Qed.

  (* where no rule applies the glyphs pass through unchanged *)
  Theorem pass_through positioning rules : forall fuel l i, (forall j r, In r rules -> rule_matches r l j = false) -> run_pass positioning fuel rules l i = l.
  Proof.
    induction fuel as [|f IH]; intros l i Hn; cbn [RuleModel.run_pass]; [reflexivity|].
    destruct (Nat.leb (length l) i); [reflexivity|].
    rewrite (proj2 (select_none rules l i) (Hn i)). apply IH. exact Hn.
  Qed.

  (* termination: each step shortens the part of the stream that lies after the cursor *)
  Lemma matches_from_length : forall pat l, matches_from pat l = true -> (length pat <= length l)%nat.
  Proof.
    induction pat as [|c pr IH]; intros l H; [cbn; lia|]. destruct l as [|s lr]; cbn [matches_from] in H; [discriminate|].
    apply andb_prop in H. destruct H as [_ H]. specialize (IH lr H). cbn [length]. lia.
  Qed.

  Lemma insert_at_length : forall l k x, length (insert_at l k x) = S (length l).
  Proof. induction l as [|y l IH]; intros [|k] x; cbn [insert_at length]; try reflexivity. rewrite IH. reflexivity. Qed.
  Lemma remove_at_length : forall l k, (k < length l)%nat -> S (length (remove_at l k)) = length l.
  Proof. induction l as [|y l IH]; intros [|k] H; cbn [length] in H; try lia; cbn [remove_at length]; [reflexivity|]. rewrite (IH k ltac:(lia)). reflexivity. Qed.
  Lemma upd_length0 : forall l k f, length (upd l k f) = length l.
  Proof. induction l as [|x l IH]; intros [|k] f; cbn [upd length]; try reflexivity; rewrite IH; reflexivity. Qed.

  Definition bud_le (b1 b : option alloc) (used : nat) : Prop :=
    match b, b1 with Some a, Some a1 => (a_bud a1 + used <= a_bud a)%nat | None, None => True | _, _ => False end.
  Lemma newslot_bud a len a' : newslot a len = Some a' -> a_bud a' = a_bud a.
  Proof. unfold newslot. destruct (a_free a); [destruct (Nat.ltb (a_cap a) len); [discriminate|]|]; intros E; injection E as <-; reflexivity. Qed.
  Lemma do_inserts_measure : forall acts l pos hw hp b l1 pos1 hw1 hp1 b1 dead, do_inserts adv acts l pos hw hp b = (l1, pos1, hw1, hp1, b1, dead) ->
    (length l1 - pos1 = length l - pos)%nat /\ (pos <= length l -> pos1 <= length l1)%nat /\ (length l <= length l1)%nat /\ (length l1 - length l = pos1 - pos)%nat /\ (pos <= pos1)%nat
    /\ bud_le b1 b (length l1 - length l) /\ (b = None -> dead = false /\ b1 = None).
  Proof.
    induction acts as [|a rest IH]; intros l pos hw hp b l1 pos1 hw1 hp1 b1 dead H; cbn [RuleModel.do_inserts] in H.
    - injection H as <- <- <- <- <- <-. do 5 (split; [lia|]). split; [destruct b; cbn; [lia|exact I] | intros ->; split; reflexivity].
    - destruct a; try exact (IH _ _ _ _ _ _ _ _ _ _ _ H).
      destruct b as [al|].
      + destruct (Nat.leb_spec (a_bud al) 1) as [Hn|Hn].
        * injection H as <- <- <- <- <- <-. do 5 (split; [lia|]). split; [cbn; lia | discriminate].
        * destruct (newslot (set_bud al (a_bud al - 1)) (length l)) as [a'|] eqn:En.
          -- apply newslot_bud in En. cbn [set_bud a_bud] in En.
             specialize (IH _ _ _ _ _ _ _ _ _ _ _ H). rewrite insert_at_length in IH. destruct IH as [I1 [I2 [I3 [I4 [I5 [I6 I7]]]]]].
             do 5 (split; [lia|]). split; [unfold bud_le in *; destruct b1 as [a1|]; [lia|exact I6] | discriminate].
          -- injection H as <- <- <- <- <- <-. do 5 (split; [lia|]). split; [cbn; lia | discriminate].
      + specialize (IH _ _ _ _ _ _ _ _ _ _ _ H). rewrite insert_at_length in IH. destruct IH as [I1 [I2 [I3 [I4 [I5 [I6 I7]]]]]].
        do 5 (split; [lia|]). split; [exact I6 | exact I7].
  Qed.

  Lemma do_item_measure r orig dn j acts l pos hw hp b l1 pos1 hw1 hp1 dn1 b1 :
    do_item adv r orig dn j acts l pos hw hp b = (l1, pos1, hw1, hp1, dn1, b1, false) -> (pos < length l)%nat ->
    (S (length l1 - pos1) = length l - pos)%nat /\ (pos1 <= length l1)%nat.
  Proof.
    unfold RuleModel.do_item. destruct (do_inserts adv acts l pos hw hp b) as [[[[[la pa] ha] hpa] ba] da] eqn:Ei.
    destruct (do_inserts_measure _ _ _ _ _ _ _ _ _ _ _ _ Ei) as [M1 [M2 [M3 [M4 [M5 _]]]]].
    destruct da; [intros H; discriminate H|].
    match goal with |- context [match ?t with Some _ => _ | None => _ end] => destruct t as [bb|] end; [|intros H; discriminate H].
    destruct (has_delete acts); intros H Hp; injection H as <- <- <- <- <- <-.
    - match goal with |- context [remove_at ?u pa] => pose proof (remove_at_length u pa) as R end. rewrite upd_length0 in R. specialize (R ltac:(lia)). lia.
    - rewrite upd_length0. lia.
  Qed.
  Lemma do_item_alive r orig dn j acts l pos hw hp l1 pos1 hw1 hp1 dn1 b1 dead :
    do_item adv r orig dn j acts l pos hw hp None = (l1, pos1, hw1, hp1, dn1, b1, dead) -> dead = false /\ b1 = None.
  Proof.
    unfold RuleModel.do_item. destruct (do_inserts adv acts l pos hw hp None) as [[[[[la pa] ha] hpa] ba] da] eqn:Ei.
    destruct (do_inserts_measure _ _ _ _ _ _ _ _ _ _ _ _ Ei) as [_ [_ [_ [_ [_ [_ M7]]]]]]. destruct (M7 eq_refl) as [-> ->].
    destruct (tempc r j); destruct (has_delete acts); intros H; injection H as <- <- <- <- <- <- <-; split; reflexivity.
  Qed.

  Lemma do_items_measure r orig : forall n dn j acts l pos hw hp l1 pos1 hw1 hp1 b1 dead,
    do_items adv r orig dn j n acts l pos hw hp None = (l1, pos1, hw1, hp1, b1, dead) -> (pos + n <= length l)%nat ->
    (length l1 - pos1 + n = length l - pos)%nat /\ (pos1 <= length l1)%nat.
  Proof.
    induction n as [|n IH]; intros dn j acts l pos hw hp l1 pos1 hw1 hp1 b1 dead H Hp; cbn [RuleModel.do_items] in H.
    - injection H as <- <- <- <- <- <-. lia.
    - destruct (do_item adv r orig dn j (match acts with a :: _ => a | [] => [] end) l pos hw hp None) as [[[[[[la pa] ha] hpa] da] ba] dd] eqn:Ed.
      destruct (do_item_alive _ _ _ _ _ _ _ _ _ _ _ _ _ _ _ _ Ed) as [-> ->].
      destruct (do_item_measure _ _ _ _ _ _ _ _ _ _ _ _ _ _ _ _ Ed ltac:(lia)) as [D1 D2].
      specialize (IH _ _ _ _ _ _ _ _ _ _ _ _ _ H ltac:(lia)). lia.
  Qed.

  Lemma fire_progress r l i l' i' : rule_matches r l i = true -> fire r l i = (l', i') ->
    (i' <= length l')%nat /\ (length l' - i' < length l - i)%nat.
  Proof.
    unfold rule_matches, RuleModel.fire. intros Hm E. apply andb_prop in Hm. destruct Hm as [Hm _]. apply andb_prop in Hm. destruct Hm as [Hm H3]. apply andb_prop in Hm. destruct Hm as [H1 H2].
    apply Nat.leb_le in H1. apply Nat.ltb_lt in H2. apply matches_from_length in H3. rewrite skipn_length in H3. unfold r_sort in *.
    destruct (do_items adv r _ _ _ _ _ l i None false None) as [[[[[la pa] ha] hpa] ba] da] eqn:Ed. injection E as <- <-.
    destruct (do_items_measure _ _ _ _ _ _ _ _ _ _ _ _ _ _ _ _ Ed ltac:(lia)) as [D1 D2]. lia.
  Qed.

  (* positioning passes keep the length of the stream *)
  Lemma upd_length : forall l k f, length (upd l k f) = length l.
  Proof. induction l as [|x l IH]; intros [|k] f; cbn [upd length]; try reflexivity; rewrite IH; reflexivity. Qed.
  Lemma attach_length l c t : length (attach l c t) = length l.
  Proof.
    unfold attach. destruct (nth_error l c) as [sc|]; [|reflexivity]. destruct (nth_error l t) as [st_|]; [|reflexivity].
    destruct (Nat.eqb c t || _); [reflexivity|].
    set (l1 := match s_par sc with Some p => _ | None => l end).
    assert (H1 : length l1 = length l) by (unfold l1; destruct (s_par sc); [rewrite !upd_length|]; reflexivity).
    destruct (Nat.ltb _ 100 && _); [rewrite !upd_length|]; exact H1.
  Qed.
  Lemma apply_acts_pos_length r orig st j : forall acts l, length (apply_acts_pos adv r orig st j acts l) = length l.
  Proof.
    induction acts as [|a rest IH]; intros l; cbn [apply_acts_pos]; [reflexivity|]. rewrite IH.
    destruct a; try (rewrite upd_length; reflexivity); try reflexivity.
    - destruct (read_src r orig _ j ref); [rewrite upd_length|]; reflexivity.
    - destruct (Z.of_nat (st + j) + ref <? 0)%Z; [reflexivity | apply attach_length].
    - destruct (read_src r orig _ j ref); [destruct (ref =? 0)%Z; [|rewrite upd_length]|]; reflexivity.
  Qed.
  Lemma apply_items_pos_length r orig st : forall n j acts l, length (apply_items_pos adv r orig st j n acts l) = length l.
  Proof. induction n as [|n IH]; intros j acts l; cbn [apply_items_pos]; [reflexivity|]. rewrite IH, apply_acts_pos_length. reflexivity. Qed.

  Lemma fire_pos_progress r l i l' i' : rule_matches r l i = true -> fire_pos r l i = (l', i') ->
    (i' <= length l')%nat /\ (length l' - i' < length l - i)%nat.
  Proof.
    unfold rule_matches, RuleModel.fire_pos. intros Hm E. apply andb_prop in Hm. destruct Hm as [Hm _]. apply andb_prop in Hm. destruct Hm as [Hm H3]. apply andb_prop in Hm. destruct Hm as [H1 H2].
    apply Nat.leb_le in H1. apply Nat.ltb_lt in H2. apply matches_from_length in H3. rewrite skipn_length in H3. unfold r_sort in *.
    injection E as <- <-. rewrite apply_items_pos_length. lia.
  Qed.

  Theorem run_pass_fuel_enough positioning rules : forall extra fuel l i, (length l - i < fuel)%nat -> run_pass positioning (fuel + extra) rules l i = run_pass positioning fuel rules l i.
  Proof.
    intros extra. induction fuel as [|f IH]; intros l i Hf; [lia|]. cbn [Nat.add RuleModel.run_pass].
    destruct (Nat.leb_spec (length l) i) as [Hle|Hgt]; [reflexivity|].
    destruct (select rules l i 0 None) as [[kr r]|] eqn:E.
    - destruct (select_sound _ _ _ _ _ E) as [_ [Hm _]]. destruct positioning.
      + destruct (fire_pos r l i) as [l' i'] eqn:Ef. destruct (fire_pos_progress _ _ _ _ _ Hm Ef) as [_ Hp]. apply IH. lia.
      + destruct (fire r l i) as [l' i'] eqn:Ef. destruct (fire_progress _ _ _ _ _ Hm Ef) as [_ Hp]. apply IH. lia.
    - apply IH. lia.
  Qed.

  (* a positioning pass never changes the number of slots *)
  Theorem positioning_keeps_length rules : forall fuel l i, length (run_pass true fuel rules l i) = length l.
  Proof.
    induction fuel as [|f IH]; intros l i; cbn [RuleModel.run_pass]; [reflexivity|].
    destruct (Nat.leb (length l) i); [reflexivity|].
    destruct (select rules l i 0 None) as [[kr r]|]; [|apply IH].
    unfold RuleModel.fire_pos. rewrite IH. apply apply_items_pos_length.
  Qed.

  (* passes run in font order over the previous pass's output *)
  Theorem run_passes_app : forall p1 p2 k ns l,
    run_passes_from adv k ns (p1 ++ p2) l = run_passes_from adv (k + length p1) ns p2 (run_passes_from adv k ns p1 l).
  Proof.
    induction p1 as [|p r IH]; intros p2 k ns l; cbn [app RuleModel.run_passes_from length].
    - rewrite Nat.add_0_r. reflexivity.
    - rewrite IH. replace (S k + length r)%nat with (k + S (length r))%nat by lia. reflexivity.
  Qed.
End RuleProofs.
