(* Proofs/TagProofs.v — lemmas about the tag model (C20) *)
From GR Require Import Base.Bytes Base.Bits Model.TagModel.
From Coq Require Import ZifyN ZifyBool ZifyNat.
Local Open Scope N_scope.
Ltac Zify.zify_post_hook ::= Z.to_euclidean_division_equations.

Definition nonzero_bytes (s : bytes) : Prop := Forall (fun b => 0 < b < 256) s.

Lemma strlen_from_app s rest acc : nonzero_bytes s ->
  strlen_from (s ++ 0 :: rest) acc = Some (acc + length s)%nat.
Proof.
  revert acc. induction s as [|b s IH]; intros acc Hs; cbn [app strlen_from length].
  - rewrite N.eqb_refl. f_equal. lia.
  - inversion Hs as [|? ? Hb Hs']; subst.
    assert (E : (b =? 0) = false) by (apply N.eqb_neq; lia). rewrite E.
    rewrite IH by exact Hs'. f_equal. lia.
Qed.

Lemma strlen_app s rest : nonzero_bytes s -> strlen (s ++ 0 :: rest) = Some (length s).
Proof. intros H. unfold strlen. rewrite strlen_from_app by exact H. reflexivity. Qed.

Lemma lor_chain b3 b2 b1 b0 : b3 < 256 -> b2 < 256 -> b1 < 256 -> b0 < 256 ->
  N.lor (N.lor (N.lor b3 (N.shiftl b2 8)) (N.shiftl b1 16)) (N.shiftl b0 24) = be32 b0 b1 b2 b3.
Proof.
  intros H3 H2 H1 H0. unfold be32.
  rewrite (lor_shiftl_add b3 b2 8) by (change (2 ^ 8) with 256; lia).
  rewrite (lor_shiftl_add _ b1 16) by (change (2 ^ 8) with 256; change (2 ^ 16) with 65536; lia).
  rewrite (lor_shiftl_add _ b0 24)
    by (change (2 ^ 8) with 256; change (2 ^ 16) with 65536; change (2 ^ 24) with 16777216; lia).
  change (2 ^ 8) with 256; change (2 ^ 16) with 65536; change (2 ^ 24) with 16777216. lia.
Qed.

(* the tag of a C string: big-endian value of its first min(4,len) characters, zero padded *)
Definition tag_spec (s : bytes) : N := be32_of (pad_to4 0 (firstn 4 s)).

Lemma nonzero_is_byte s : nonzero_bytes s -> all_bytes s.
Proof. intros H. eapply Forall_impl; [|exact H]. cbv beta. unfold is_byte. intros a Ha. lia. Qed.

Lemma str_to_tag_correct s rest : nonzero_bytes s ->
  str_to_tag (s ++ 0 :: rest) = Some (tag_spec s).
Proof.
  intros Hs. unfold str_to_tag. rewrite strlen_app by exact Hs. cbn [bind].
  destruct s as [|c0 [|c1 [|c2 [|c3 s']]]].
  - cbn. reflexivity.
  - inversion Hs as [|? ? H0 _]; subst. cbn -[N.lor N.shiftl be32].
    rewrite lor_chain by lia. reflexivity.
  - inversion Hs as [|? ? H0 Hs1]; subst. inversion Hs1 as [|? ? H1 _]; subst.
    cbn -[N.lor N.shiftl be32]. rewrite lor_chain by lia. reflexivity.
  - inversion Hs as [|? ? H0 Hs1]; subst. inversion Hs1 as [|? ? H1 Hs2]; subst.
    inversion Hs2 as [|? ? H2 _]; subst.
    cbn -[N.lor N.shiftl be32]. rewrite lor_chain by lia. reflexivity.
  - inversion Hs as [|? ? H0 Hs1]; subst. inversion Hs1 as [|? ? H1 Hs2]; subst.
    inversion Hs2 as [|? ? H2 Hs3]; subst. inversion Hs3 as [|? ? H3 _]; subst.
    assert (Hk : Nat.min (length (c0 :: c1 :: c2 :: c3 :: s')) 4 = 4%nat) by (cbn [length]; lia).
    rewrite Hk. cbn -[N.lor N.shiftl be32].
    rewrite lor_chain by lia. reflexivity.
Qed.

(* reading exactly the string and its terminator: the model traps on any read beyond the NUL,
   so a [Some] result on the region [s ++ [0]] is the statement "no byte beyond the NUL is read" *)
Lemma str_to_tag_exact_region s : nonzero_bytes s -> str_to_tag (s ++ [0]) = Some (tag_spec s).
Proof. apply str_to_tag_correct. Qed.

Lemma tag_to_str_bytes t :
  tag_to_str t = [ (0%nat, byte3 t); (1%nat, byte2 t); (2%nat, byte1 t); (3%nat, byte0 t) ].
Proof.
  unfold tag_to_str, byte3, byte2, byte1, byte0.
  change 255 with (N.ones 8). rewrite !land_ones_mod, !shiftr_div. reflexivity.
Qed.

Lemma tag_to_str_offsets t : map fst (tag_to_str t) = [0; 1; 2; 3]%nat.
Proof. reflexivity. Qed.

Lemma tag_to_str_leaves_rest t a b c d rest :
  apply_writes (a :: b :: c :: d :: rest) (tag_to_str t) = Some (byte3 t :: byte2 t :: byte1 t :: byte0 t :: rest).
Proof. rewrite tag_to_str_bytes. reflexivity. Qed.

Lemma be32_bytes a b c d : a < 256 -> b < 256 -> c < 256 -> d < 256 ->
  byte3 (be32 a b c d) = a /\ byte2 (be32 a b c d) = b /\ byte1 (be32 a b c d) = c /\ byte0 (be32 a b c d) = d.
Proof. intros. unfold byte3, byte2, byte1, byte0, be32. repeat split; lia. Qed.

Lemma bytes_be32 t : t < 2 ^ 32 -> be32 (byte3 t) (byte2 t) (byte1 t) (byte0 t) = t.
Proof. change (2 ^ 32) with 4294967296. intros. unfold byte3, byte2, byte1, byte0, be32. lia. Qed.

Lemma tag_to_str_be32 a b c d x0 x1 x2 x3 rest : a < 256 -> b < 256 -> c < 256 -> d < 256 ->
  apply_writes (x0 :: x1 :: x2 :: x3 :: rest) (tag_to_str (be32 a b c d)) = Some (a :: b :: c :: d :: rest).
Proof.
  intros Ha Hb Hc Hd. rewrite tag_to_str_leaves_rest.
  destruct (be32_bytes a b c d Ha Hb Hc Hd) as (E3 & E2 & E1 & E0).
  rewrite E3, E2, E1, E0. reflexivity.
Qed.

Lemma inverse_4 c0 c1 c2 c3 buf4 : nonzero_bytes [c0; c1; c2; c3] -> length buf4 = 4%nat ->
  exists t, str_to_tag ([c0; c1; c2; c3] ++ [0]) = Some t /\
            apply_writes buf4 (tag_to_str t) = Some [c0; c1; c2; c3].
Proof.
  intros Hs Hl. exists (tag_spec [c0; c1; c2; c3]). split.
  - apply str_to_tag_exact_region. exact Hs.
  - destruct buf4 as [|x0 [|x1 [|x2 [|x3 [|? ?]]]]]; try discriminate Hl.
    inversion Hs as [|? ? H0 Hs1]; subst. inversion Hs1 as [|? ? H1 Hs2]; subst.
    inversion Hs2 as [|? ? H2 Hs3]; subst. inversion Hs3 as [|? ? H3 _]; subst.
    unfold tag_spec, be32_of, pad_to4, nth0. cbn [firstn length Nat.sub repeat app nth].
    apply tag_to_str_be32; lia.
Qed.

(* the other direction: a tag whose zero bytes (if any) are all trailing *)
Lemma inverse_tag s : nonzero_bytes s -> (length s <= 4)%nat ->
  let t := be32_of (pad_to4 0 s) in
  exists out, apply_writes [0; 0; 0; 0] (tag_to_str t) = Some out /\ str_to_tag (out ++ [0]) = Some t.
Proof.
  intros Hs Hl t.
  assert (Hb := nonzero_is_byte s Hs).
  exists (pad_to4 0 s). split.
  - subst t.
    destruct s as [|c0 [|c1 [|c2 [|c3 [|? ?]]]]]; cbn [length] in Hl; try lia;
      unfold all_bytes in *; repeat match goal with H : Forall _ (_ :: _) |- _ => inversion H; subst; clear H end;
      unfold is_byte in *; unfold be32_of, pad_to4, nth0; cbn [length Nat.sub repeat app nth];
      apply tag_to_str_be32; lia.
  - subst t.
    assert (E : pad_to4 0 s ++ [0] = s ++ 0 :: repeat 0 (4 - length s)).
    { unfold pad_to4. rewrite <- app_assoc. f_equal.
      replace (0 :: repeat 0 (4 - length s)) with (repeat 0 (S (4 - length s))) by reflexivity.
      rewrite <- (repeat_cons). reflexivity. }
    rewrite E. rewrite str_to_tag_correct by exact Hs.
    unfold tag_spec. rewrite firstn_all2 by lia. reflexivity.
Qed.

(* zeropad: characterisation on the four tag bytes *)
Definition zeropad_spec (a b c d : N) : N :=
  if (a =? 32) && (b =? 32) && (c =? 32) && (d =? 32) then 0
  else if (b =? 32) && (c =? 32) && (d =? 32) then be32 a 0 0 0
  else if (c =? 32) && (d =? 32) then be32 a b 0 0
  else if (d =? 32) then be32 a b c 0
  else be32 a b c d.

Lemma zeropad_bytes a b c d : a < 256 -> b < 256 -> c < 256 -> d < 256 ->
  zeropad (be32 a b c d) = zeropad_spec a b c d.
Proof.
  intros Ha Hb Hc Hd. unfold zeropad, zeropad_spec.
  set (x := be32 a b c d).
  assert (Hx : x < 2 ^ 32) by (subst x; unfold be32; change (2 ^ 32) with 4294967296; lia).
  change 0x00FFFFFF with (N.ones 24). change 0x0000FFFF with (N.ones 16). change 0x000000FF with (N.ones 8).
  change 0xFF000000 with (N.shiftl (N.ones (32 - 24)) 24).
  change 0xFFFF0000 with (N.shiftl (N.ones (32 - 16)) 16).
  change 0xFFFFFF00 with (N.shiftl (N.ones (32 - 8)) 8).
  rewrite !land_ones_mod, !land_himask by (try exact Hx; lia).
  change (2 ^ 24) with 16777216. change (2 ^ 16) with 65536. change (2 ^ 8) with 256.
  subst x. unfold be32 in *.
  destruct (a =? 32) eqn:Ea; destruct (b =? 32) eqn:Eb; destruct (c =? 32) eqn:Ec; destruct (d =? 32) eqn:Ed;
    cbn [andb];
    repeat match goal with |- context [if ?t then _ else _] => let E := fresh "E" in destruct t eqn:E end;
    lia.
Qed.

Lemma padding_agree s : all_bytes s -> (length s <= 4)%nat -> last s 0 <> 32 -> Forall (fun b => b <> 0) s ->
  zeropad (be32_of (pad_to4 32 s)) = zeropad (be32_of (pad_to4 0 s)).
Proof.
  intros Hb Hl Hlast Hnz.
  destruct s as [|c0 [|c1 [|c2 [|c3 [|? ?]]]]]; cbn [length] in Hl; try lia;
    unfold all_bytes in *; repeat match goal with H : Forall _ (_ :: _) |- _ => inversion H; subst; clear H end;
    unfold is_byte in *; unfold be32_of, pad_to4, nth0; cbn [length Nat.sub repeat app nth];
    cbn [last] in Hlast;
    rewrite !zeropad_bytes by lia; unfold zeropad_spec;
    repeat match goal with |- context [?x =? 32] => let E := fresh "E" in destruct (x =? 32) eqn:E end;
    cbn [andb]; try reflexivity; try lia.
Qed.
