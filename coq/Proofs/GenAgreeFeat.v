(* tie A obligations for the feature model *)
From GR Require Import Base.Bytes Model.FeatModel Gen.GenFeat.
Local Open Scope N_scope.
(* the model's index is not truncated: sound only while storage_limit / chunk_bits < 2 ^ index_bits *)
Lemma gen_feat_consts_agree : GenFeat.storage_limit = FeatModel.MAX_BITS /\ GenFeat.chunk_bits = FeatModel.CHUNK /\
  (GenFeat.storage_limit + 64) / GenFeat.chunk_bits < 2 ^ GenFeat.index_bits.
Proof. repeat split; reflexivity. Qed.
