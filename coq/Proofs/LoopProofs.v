(* Proofs/LoopProofs.v — the rule loop terminates within maxloop * (mu0 + 1) iterations; the slot count stays under the growth cap. *)
From GR Require Import Base.Bytes Model.LoopModel.
From Coq Require Import NArith ZArith Lia ZifyN ZifyBool ZifyNat.
Local Open Scope N_scope.

(* potential: maxloop * mu + lc *)
Definition phi (maxloop : N) (st : lst) : N := maxloop * l_mu st + l_lc st.
Definition lc_ok (maxloop : N) (st : lst) : Prop := 1 <= l_lc st <= maxloop.

Lemma lstep_live_decreases maxloop st o st' :
  lc_ok maxloop st -> lstep maxloop st o = Some st' -> o_live o = true ->
  lc_ok maxloop st' /\ phi maxloop st' + 1 <= phi maxloop st.
Proof.
  unfold lstep, lc_ok, phi. intros [Hl Hu] H Hlive. rewrite Hlive in H.
  destruct (o_mu o <=? l_mu st) eqn:Hmu; cbn [negb] in H; [|discriminate].
  destruct (o_reset o).
  - destruct ((o_mu o <? l_mu st) && (o_lc o =? maxloop)) eqn:Hc; [|discriminate].
    injection H as <-. cbn [l_mu l_lc]. split; [lia|].
    assert (o_mu o + 1 <= l_mu st) by lia. nia.
  - destruct ((o_lc o + 1 =? l_lc st) && (1 <=? o_lc o)) eqn:Hc; [|discriminate].
    injection H as <-. cbn [l_mu l_lc]. split; [lia|].
    assert (o_mu o <= l_mu st) by lia. nia.
Qed.

Theorem loop_bounded maxloop : forall os st, lc_ok maxloop st -> laccept maxloop st os = true ->
  N.of_nat (length os) <= phi maxloop st.
Proof.
  induction os as [|o r IH]; intros st Hok Hacc.
  - cbn [length]. unfold phi, lc_ok in *. lia.
  - cbn [laccept] in Hacc. destruct (lstep maxloop st o) as [st'|] eqn:Hs; [|discriminate].
    destruct (o_live o) eqn:Hlive.
    + destruct (lstep_live_decreases maxloop st o st' Hok Hs Hlive) as [Hok' Hdec].
      specialize (IH st' Hok' Hacc). cbn [length]. lia.
    + destruct r; [|discriminate]. cbn [length]. unfold phi, lc_ok in *. lia.
Qed.

(* from the loop's initial state (lc = maxloop) *)
Corollary loop_bounded_init maxloop mu0 os : 1 <= maxloop -> laccept maxloop (mklst mu0 maxloop) os = true ->
  N.of_nat (length os) <= maxloop * (mu0 + 1).
Proof.
  intros Hm Hacc. pose proof (loop_bounded maxloop os (mklst mu0 maxloop)) as H.
  unfold phi, lc_ok in H. cbn [l_mu l_lc] in H. specialize (H ltac:(lia) Hacc). lia.
Qed.

(* ---- growth *)
Definition ginv (n0 : N) (st : gst) : Prop := (0 <= g_b st)%Z /\ (Z.of_N (g_n st) + g_b st <= Z.of_N n0 + Z.of_N (n0 * growth_factor))%Z.

Lemma gstep_inv maxsize n0 st o st' : ginv n0 st -> gstep maxsize st o = Some st' -> ginv n0 st'.
Proof.
  unfold ginv, gstep. intros [Hb Hs] H. destruct o.
  - destruct (g_b st - 1 <=? 0)%Z eqn:E; [discriminate|]. injection H as <-. cbn [g_n g_b]. lia.
  - destruct (g_n st =? 0) eqn:E; [discriminate|]. injection H as <-. cbn [g_n g_b]. lia.
  - destruct (maxsize <? g_n st); [discriminate|]. injection H as <-. lia.
Qed.

Lemma grun_inv maxsize n0 : forall os st st', ginv n0 st -> grun maxsize st os = Some st' -> ginv n0 st'.
Proof.
  induction os as [|o r IH]; intros st st' Hi H; cbn [grun] in H.
  - injection H as <-. exact Hi.
  - destruct (gstep maxsize st o) as [s1|] eqn:E; [|discriminate]. eapply IH; [eapply gstep_inv; eassumption | exact H].
Qed.

(* at every moment of a run — also in the middle of a pass — the stream holds fewer than 65 slots per initial slot *)
Theorem growth_always_bounded n0 os st' : grun (n0 * growth_factor) (ginit n0) os = Some st' ->
  g_n st' <= n0 + n0 * growth_factor.
Proof.
  intros H. assert (Hi : ginv n0 (ginit n0)) by (unfold ginv, ginit; cbn [g_n g_b]; lia).
  destruct (grun_inv _ n0 os _ _ Hi H) as [Hb Hs]. lia.
Qed.

Lemma grun_app maxsize : forall a b st, grun maxsize st (a ++ b) = match grun maxsize st a with None => None | Some s => grun maxsize s b end.
Proof. induction a as [|o a IH]; intros b st; cbn [grun app]; [reflexivity|]. destruct (gstep maxsize st o); [apply IH | reflexivity]. Qed.

(* a run that ends with an accepted end-of-pass test leaves at most 64 slots per initial slot *)
Theorem growth_cap_at_pass_end n0 os st' : grun (n0 * growth_factor) (ginit n0) (os ++ [GPassEnd]) = Some st' ->
  g_n st' <= growth_factor * n0.
Proof.
  rewrite grun_app. destruct (grun (n0 * growth_factor) (ginit n0) os) as [s|]; [|discriminate].
  cbn [grun gstep]. destruct (n0 * growth_factor <? g_n s) eqn:E; [discriminate|]. intros H. injection H as <-. lia.
Qed.

(* the budget is what makes the mid-pass bound hold: without the end-of-pass test, inserts alone stop below n0 * 64 *)
Theorem inserts_bounded n0 os st' : grun (n0 * growth_factor) (ginit n0) os = Some st' ->
  N.of_nat (length (filter is_insert os)) + Z.to_N (g_b st') = n0 * growth_factor.
Proof.
  unfold ginit. set (maxsize := n0 * growth_factor).
  assert (G : forall os st st', (0 <= g_b st)%Z -> grun maxsize st os = Some st' ->
              N.of_nat (length (filter is_insert os)) + Z.to_N (g_b st') = Z.to_N (g_b st) /\ (0 <= g_b st')%Z).
  { clearbody maxsize. clear. induction os as [|o r IH]; intros st st' Hb H; cbn [grun] in H.
    - injection H as <-. cbn [filter length]. lia.
    - destruct (gstep maxsize st o) as [s1|] eqn:E; [|discriminate].
      destruct o; cbn [gstep] in E; cbn [filter is_insert].
      + destruct (g_b st - 1 <=? 0)%Z eqn:E2; [discriminate|]. injection E as <-.
        assert (Hb' : (0 <= g_b (mkgst (g_n st + 1) (g_b st - 1)))%Z) by (cbn [g_b]; lia).
        destruct (IH _ _ Hb' H) as [I1 I2]. cbn [g_b] in I1. cbn [length]. lia.
      + destruct (g_n st =? 0); [discriminate|]. injection E as <-. apply (IH (mkgst (g_n st - 1) (g_b st)) st' Hb H).
      + destruct (maxsize <? g_n st); [discriminate|]. injection E as <-. apply (IH _ _ Hb H). }
  intros H. assert (Hb0 : (0 <= g_b (mkgst n0 (Z.of_N maxsize)))%Z) by (cbn [g_b]; lia). clearbody maxsize.
  destruct (G os _ _ Hb0 H) as [I _]. cbn [g_b] in I. lia.
Qed.
