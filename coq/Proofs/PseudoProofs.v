(* Proofs/PseudoProofs.v — the pseudo-glyph map is consulted exactly when the cmap leaves a character unmapped, and answers with the entry
   of that code point, whatever its plane. *)
From GR Require Import Base.Bytes Model.PseudoModel Gen.GenPseudo.
From Coq Require Import NArith List Bool Lia.
Local Open Scope N_scope.

Lemma initial_glyph_mapped g pm u : g <> 0 -> initial_glyph g pm u = g.
Proof. intros H. unfold initial_glyph. destruct (N.eqb_spec g 0); [contradiction|reflexivity]. Qed.
Lemma initial_glyph_unmapped pm u : initial_glyph 0 pm u = find_pseudo pm u.
Proof. reflexivity. Qed.

Lemma find_pseudo_absent pm u : ~ In u (map fst pm) -> find_pseudo pm u = 0.
Proof.
  induction pm as [|[c g] r IH]; intros H; [reflexivity|]. cbn [find_pseudo map fst In] in *.
  destruct (N.eqb_spec c u) as [->|Hne]; [exfalso; apply H; left; reflexivity|]. apply IH. intros Hin. apply H. right. exact Hin.
Qed.

Lemma find_pseudo_found pm u g : NoDup (map fst pm) -> In (u, g) pm -> find_pseudo pm u = g.
Proof.
  induction pm as [|[c g'] r IH]; intros Hnd Hin; [destruct Hin|]. cbn [find_pseudo map fst] in *. inversion Hnd as [|? ? Hnotin Hnd']; subst.
  destruct Hin as [Heq|Hin].
  - injection Heq as -> ->. rewrite N.eqb_refl. reflexivity.
  - destruct (N.eqb_spec c u) as [->|Hne]; [|apply IH; assumption].
    exfalso. apply Hnotin. apply (in_map fst) in Hin. exact Hin.
Qed.

(* supported = mapped by the cmap or listed in the pseudo map with a non-zero glyph *)
Lemma char_supported_iff g pm u : char_supported g pm u = true <-> (g <> 0 \/ find_pseudo pm u <> 0).
Proof.
  unfold char_supported, initial_glyph. destruct (N.eqb_spec g 0) as [->|Hne].
  - destruct (N.eqb_spec (find_pseudo pm u) 0) as [E|E]; cbn [negb]; split; intros H; try discriminate; try reflexivity.
    + destruct H as [H|H]; contradiction.
    + right. exact E.
  - destruct (N.eqb_spec g 0); [contradiction|]. cbn [negb]. split; [intros _; left; exact Hne|reflexivity].
Qed.

(* the slots of a text: as many as there are characters before the first NUL, the i-th with the initial glyph of the i-th character *)
Lemma upto_nul_nonzero us : Forall (fun u => u <> 0) (upto_nul us).
Proof.
  induction us as [|u r IH]; cbn [upto_nul]; [constructor|]. destruct (N.eqb_spec u 0); [constructor|]. constructor; assumption.
Qed.
Lemma upto_nul_prefix us : exists rest, us = upto_nul us ++ rest /\ (rest = [] \/ hd 1 rest = 0).
Proof.
  induction us as [|u r (rest & E & H)]; cbn [upto_nul]; [exists []; split; [reflexivity|left; reflexivity]|].
  destruct (N.eqb_spec u 0) as [->|Hne].
  - exists (0 :: r). split; [reflexivity|right; reflexivity].
  - exists rest. split; [cbn [app]; f_equal; exact E|exact H].
Qed.
Lemma text_glyphs_spec cmapf pm us : length (text_glyphs cmapf pm us) = length (upto_nul us) /\
  forall i u, nth_error (upto_nul us) i = Some u -> nth_error (text_glyphs cmapf pm us) i = Some (initial_glyph (cmapf u) pm u).
Proof.
  unfold text_glyphs. split; [apply map_length|]. intros i u H. rewrite nth_error_map, H. reflexivity.
Qed.

(* tie A: the key of an entry is as wide as a code point needs (no Unicode scalar value is truncated by the comparison) *)
Lemma gen_pseudo_key_holds_every_scalar : forall u, u < 0x110000 -> u mod 2 ^ GenPseudo.pseudo_uid_bits = u.
Proof. intros u H. unfold GenPseudo.pseudo_uid_bits. apply N.mod_small. lia. Qed.
