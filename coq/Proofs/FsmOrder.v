(* Proofs/FsmOrder.v — the rule list Pass::runFSM hands to findNDoRule is in precedence order (longer sort key first, then the earlier
   rule), without repetitions, and holds only rules of the success states the machine went through: so the first rule of the list whose
   constraint holds is the highest-precedence applicable rule among those the machine found. *)
From GR Require Import Base.Bytes Base.Mem Model.FsmModel Proofs.FsmProofs.
From Coq Require Import NArith List Lia ZifyN ZifyBool ZifyNat Bool Sorted.
Import ListNotations.
Local Open Scope N_scope.

Section Order.
  Variable srt : list N.
  Notation lt := (rule_lt srt).
  Definition key (a : N) : N := nth (N.to_nat a) srt 0.

  Lemma lt_spec a b : lt a b = true <-> (key b < key a \/ (key a = key b /\ a < b)).
  Proof. unfold rule_lt, key. lia. Qed.
  Lemma lt_irrefl a : lt a a = false.
  Proof. destruct (lt a a) eqn:E; [|reflexivity]. apply lt_spec in E. lia. Qed.
  Lemma lt_trans a b c : lt a b = true -> lt b c = true -> lt a c = true.
  Proof. rewrite !lt_spec. lia. Qed.
  Lemma lt_total a b : lt a b = false -> lt b a = false -> a = b.
  Proof.
    intros H1 H2. destruct (N.eq_dec a b) as [E|E]; [exact E|exfalso].
    assert (~ (key b < key a \/ (key a = key b /\ a < b))) as N1 by (rewrite <- lt_spec; congruence).
    assert (~ (key a < key b \/ (key b = key a /\ b < a))) as N2 by (rewrite <- lt_spec; congruence).
    lia.
  Qed.

  (* insertion sort *)
  Lemma insert_in a : forall l x, In x (insert_rule srt a l) <-> x = a \/ In x l.
  Proof.
    induction l as [|b r IH]; intros x; cbn [insert_rule]; [cbn; intuition congruence|].
    destruct (lt b a); cbn [In]; [rewrite IH|]; intuition congruence.
  Qed.
  (* equal entries (the same rule twice in a state's range of the rule map) stay next to each other: sorted up to repetition *)
  Definition leP (a b : N) : Prop := lt b a = false.
  Definition wsorted (l : list N) : Prop := StronglySorted leP l.
  Lemma le_of_lt a b : lt a b = true -> leP a b.
  Proof. unfold leP. intros H. destruct (lt b a) eqn:E; [|reflexivity]. pose proof (lt_trans _ _ _ H E) as C. rewrite lt_irrefl in C. discriminate. Qed.
  Lemma le_trans a b c : leP a b -> leP b c -> leP a c.
  Proof.
    unfold leP. intros H1 H2. destruct (lt c a) eqn:E; [|reflexivity]. exfalso.
    destruct (lt a b) eqn:E1.
    - pose proof (lt_trans _ _ _ E E1) as C. congruence.
    - pose proof (lt_total _ _ E1 H1). subst b. congruence.
  Qed.
  Lemma insert_wsorted a : forall l, wsorted l -> wsorted (insert_rule srt a l).
  Proof.
    induction l as [|b r IH]; intros S; cbn [insert_rule]; [constructor; constructor|].
    inversion S as [|? ? Sr Fb]; subst. destruct (lt b a) eqn:E.
    - constructor; [apply IH; exact Sr|]. rewrite Forall_forall. intros x Hx. apply insert_in in Hx. destruct Hx as [->|Hx].
      + apply le_of_lt. exact E.
      + rewrite Forall_forall in Fb. apply Fb. exact Hx.
    - constructor; [exact S|]. constructor; [exact E|]. rewrite Forall_forall in *. intros x Hx. eapply le_trans; [exact E | apply Fb; exact Hx].
  Qed.
  Lemma sort_wsorted l : wsorted (sort_rules srt l).
  Proof. unfold sort_rules. induction l as [|a r IH]; cbn [fold_right]; [constructor | apply insert_wsorted; exact IH]. Qed.
  Lemma sort_in l x : In x (sort_rules srt l) <-> In x l.
  Proof. unfold sort_rules. induction l as [|a r IH]; cbn [fold_right In]; [tauto|]. rewrite insert_in, IH. split; intros [H|H]; auto. Qed.

  (* merging *)
  Lemma merge_nil_l r : merge_rules srt [] r = r.
  Proof. destruct r; reflexivity. Qed.
  Lemma merge_nil_r l : merge_rules srt l [] = l.
  Proof. destruct l; reflexivity. Qed.
  Lemma merge_cons a l b r : merge_rules srt (a :: l) (b :: r) =
    if lt a b then a :: merge_rules srt l (b :: r) else if lt b a then b :: merge_rules srt (a :: l) r else a :: merge_rules srt l r.
  Proof. reflexivity. Qed.

  Lemma merge_in : forall l r x, In x (merge_rules srt l r) <-> In x l \/ In x r.
  Proof.
    induction l as [|a l IHl]; intros r x.
    - rewrite merge_nil_l. cbn [In]. tauto.
    - induction r as [|b r IHr]; [rewrite merge_nil_r; cbn [In]; tauto|].
      rewrite merge_cons. destruct (lt a b) eqn:E1.
      + cbn [In]. rewrite IHl. cbn [In]. tauto.
      + destruct (lt b a) eqn:E2.
        * cbn [In]. rewrite IHr. cbn [In]. tauto.
        * pose proof (lt_total _ _ E1 E2). subst b. cbn [In]. rewrite IHl. tauto.
  Qed.

  Lemma forall_le_trans a b l : leP a b -> Forall (leP b) l -> Forall (leP a) l.
  Proof. intros H F. rewrite Forall_forall in *. intros x Hx. eapply le_trans; [exact H | apply F; exact Hx]. Qed.

  Lemma merge_wsorted : forall l r, wsorted l -> wsorted r -> wsorted (merge_rules srt l r).
  Proof.
    induction l as [|a l IHl]; intros r Sl Sr.
    - rewrite merge_nil_l. exact Sr.
    - induction r as [|b r IHr]; [rewrite merge_nil_r; exact Sl|].
      inversion Sl as [|? ? Sl' Fa]; subst. inversion Sr as [|? ? Sr' Fb]; subst.
      rewrite merge_cons. destruct (lt a b) eqn:E1.
      + constructor; [apply IHl; assumption|]. rewrite Forall_forall. intros x Hx. apply merge_in in Hx. destruct Hx as [Hx|Hx].
        * rewrite Forall_forall in Fa. apply Fa. exact Hx.
        * destruct Hx as [<-|Hx]; [apply le_of_lt; exact E1|]. rewrite Forall_forall in Fb. eapply le_trans; [apply le_of_lt; exact E1 | apply Fb; exact Hx].
      + destruct (lt b a) eqn:E2.
        * constructor; [apply IHr; assumption|]. rewrite Forall_forall. intros x Hx. apply merge_in in Hx. destruct Hx as [Hx|Hx].
          -- destruct Hx as [<-|Hx]; [apply le_of_lt; exact E2|]. rewrite Forall_forall in Fa. eapply le_trans; [apply le_of_lt; exact E2 | apply Fa; exact Hx].
          -- rewrite Forall_forall in Fb. apply Fb. exact Hx.
        * pose proof (lt_total _ _ E1 E2). subst b.
          constructor; [apply IHl; assumption|]. rewrite Forall_forall. intros x Hx. apply merge_in in Hx. rewrite Forall_forall in Fa, Fb. destruct Hx as [Hx|Hx]; auto.
  Qed.

  Lemma in_firstn {A} n : forall (l : list A) x, In x (firstn n l) -> In x l.
  Proof. induction n as [|n IH]; intros [|a l] x H; cbn [firstn In] in *; try tauto. destruct H as [H|H]; [left; exact H | right; apply IH; exact H]. Qed.
  Lemma firstn_wsorted n : forall l, wsorted l -> wsorted (firstn n l).
  Proof.
    induction n as [|n IH]; intros [|a l] S; cbn [firstn]; try constructor.
    - inversion S; subst. apply IH. assumption.
    - inversion S as [|? ? _ F]; subst. rewrite Forall_forall in *. intros x Hx. apply F. eapply in_firstn. exact Hx.
  Qed.
  Lemma take_wsorted l : wsorted l -> wsorted (take_rules l).
  Proof. unfold take_rules. apply firstn_wsorted. Qed.
  Lemma take_in l x : In x (take_rules l) -> In x l.
  Proof. unfold take_rules. intros H. eapply in_firstn. exact H. Qed.

  Lemma accumulate_wsorted cur st : wsorted cur -> wsorted st -> wsorted (accumulate srt cur st).
  Proof. intros Sc Ss. unfold accumulate. destruct st as [|b st]; [exact Sc|]. apply take_wsorted. apply merge_wsorted; assumption. Qed.
  Lemma accumulate_in cur st x : In x (accumulate srt cur st) -> In x cur \/ In x st.
  Proof. unfold accumulate. destruct st as [|b st]; [tauto|]. intros H. apply take_in in H. apply merge_in in H. exact H. Qed.
End Order.

(* the rules of every state, as readStates leaves them, are in precedence order *)
Lemma state_rules_wsorted srt omap rmap nentries nstates nsucc : forall k s rs,
  state_rules srt omap rmap nentries nstates nsucc k s = Some rs -> Forall (wsorted srt) rs.
Proof.
  induction k as [|k IH]; intros s rs H; cbn [state_rules] in H.
  - injection H as <-. constructor.
  - destruct (s <? nstates - nsucc).
    + destruct (state_rules srt omap rmap nentries nstates nsucc k (s + 1)) as [r|] eqn:E; [|discriminate]. injection H as <-.
      constructor; [constructor | eapply IH; exact E].
    + match type of H with (if ?c then _ else _) = _ => destruct c; [discriminate|] end.
      destruct (state_rules srt omap rmap nentries nstates nsucc k (s + 1)) as [r|] eqn:E; [|discriminate]. injection H as <-.
      constructor; [apply take_wsorted; apply sort_wsorted | eapply IH; exact E].
Qed.

Definition states_sorted (f : fsm) : Prop := Forall (wsorted (f_sort f)) (f_rules f).

Lemma read_fsm_sorted t f : read_fsm t = FOk f -> states_sorted f.
Proof.
  unfold read_fsm, states_sorted.
  destruct (r16 t 4) as [nrules|]; [|discriminate]. destruct (r16 t 24) as [nstates|]; [|discriminate].
  destruct (r16 t 26) as [ntrans|]; [|discriminate]. destruct (r16 t 28) as [nsucc|]; [|discriminate].
  destruct (r16 t 30) as [ncols|]; [|discriminate]. destruct (r16 t 32) as [nranges|]; [|discriminate].
  destruct (nrules =? 0).
  { intros H. injection H as <-. cbn [f_rules f_sort]. apply forall_repeat. constructor. }
  destruct (r16 t _) as [lastg|]; [|discriminate]. cbv zeta.
  destruct (read16s t _ (S (N.to_nat nsucc))) as [omap|]; [|discriminate].
  destruct (read16s t _ (N.to_nat (nth (N.to_nat nsucc) omap 0))) as [rmap|]; [|discriminate].
  destruct (rdb t _) as [minpre|]; [|discriminate]. destruct (rdb t _) as [maxpre|]; [|discriminate].
  destruct (read16s t _ (N.to_nat nrules)) as [srt|]; [|discriminate].
  destruct (read16s t _ (N.to_nat (maxpre - minpre + 1))) as [starts|]; [|discriminate].
  destruct (read16s t _ (N.to_nat (ntrans * ncols))) as [trans|]; [|discriminate].
  destruct (read_ranges t 40 _ _ ncols _) as [[cols|]|]; [|discriminate|discriminate].
  destruct (existsb _ rmap); [discriminate|]. destruct (existsb _ starts); [discriminate|]. destruct (existsb _ trans); [discriminate|].
  destruct (state_rules srt omap rmap _ nstates nsucc (N.to_nat nstates) 0) as [rules|] eqn:Sr; [|discriminate].
  intros H. injection H as <-. cbn [f_rules f_sort]. eapply state_rules_wsorted. exact Sr.
Qed.

(* the machine: whatever it accumulates is in precedence order and comes from states of the machine *)
Lemma fsm_loop_sorted f : states_sorted f -> forall fuel state gids free pushed rules ok n rs,
  wsorted (f_sort f) rules -> fsm_loop f fuel state gids free pushed rules = Some (ok, n, rs) ->
  wsorted (f_sort f) rs /\ (forall x, In x rs -> In x rules \/ exists sr, In sr (f_rules f) /\ In x sr).
Proof.
  intros SS. induction fuel as [|fuel IH]; intros state gids free pushed rules ok n rs Sr H; cbn [fsm_loop] in H; [discriminate|].
  assert (Base : wsorted (f_sort f) rules /\ (forall x, In x rules -> In x rules \/ exists sr, In sr (f_rules f) /\ In x sr)) by (split; [exact Sr | intros; left; assumption]).
  destruct gids as [|g rest]; [injection H as <- <- <-; exact Base|].
  destruct (f_nglyphs f <=? g); [injection H as <- <- <-; exact Base|].
  destruct (nth_error (f_cols f) (N.to_nat g)) as [col|]; [|discriminate].
  destruct (col =? NOCOL); [injection H as <- <- <-; exact Base|].
  destruct (Nat.eqb (free - 1) 0); [injection H as <- <- <-; exact Base|].
  destruct (f_ntrans f <=? state); [injection H as <- <- <-; exact Base|].
  destruct (nth_error (f_trans f) _) as [state'|]; [|discriminate].
  match type of H with match ?e with Some _ => _ | None => _ end = _ => destruct e as [rules'|] eqn:Ea; [|discriminate] end.
  assert (A : wsorted (f_sort f) rules' /\ (forall x, In x rules' -> In x rules \/ exists sr, In sr (f_rules f) /\ In x sr)).
  { destruct (f_nstates f - f_nsucc f <=? state').
    - destruct (nth_error (f_rules f) (N.to_nat state')) as [sr|] eqn:En; [|discriminate]. injection Ea as <-.
      pose proof (nth_error_In _ _ En) as Hin. unfold states_sorted in SS. rewrite Forall_forall in SS.
      split; [apply accumulate_wsorted; [exact Sr | apply SS; exact Hin]|].
      intros x Hx. apply accumulate_in in Hx. destruct Hx as [Hx|Hx]; [left; exact Hx | right; exists sr; split; assumption].
    - injection Ea as <-. exact Base. }
  destruct A as [A1 A2].
  destruct rest as [|g2 rest']; [injection H as <- <- <-; split; assumption|].
  destruct (state' =? 0); [injection H as <- <- <-; split; assumption|].
  destruct (IH _ _ _ _ _ _ _ _ A1 H) as [R1 R2]. split; [exact R1|].
  intros x Hx. destruct (R2 x Hx) as [Hy|Hy]; [apply A2; exact Hy | right; exact Hy].
Qed.

Theorem run_fsm_rules_in_precedence_order f ctx gids ok n rs : states_sorted f -> run_fsm f ctx gids = Some (ok, n, rs) ->
  wsorted (f_sort f) rs /\ (forall x, In x rs -> exists sr, In sr (f_rules f) /\ In x sr).
Proof.
  intros SS. unfold run_fsm. destruct (ctx <? f_minpre f).
  { intros H. injection H as <- <- <-. split; [constructor | intros x []]. }
  destruct (nth_error (f_starts f) _) as [state|]; [|discriminate]. intros H.
  destruct (fsm_loop_sorted f SS _ _ _ _ _ _ _ _ _ (SSorted_nil _) H) as [R1 R2]. split; [exact R1|].
  intros x Hx. destruct (R2 x Hx) as [[]|Hy]. exact Hy.
Qed.
