(* Proofs/GenAgreeSlotAdv.v — tie A for C15: the slot advance accessors (bodies regenerated from src/gr_slot.cpp, Gen/GenSlotAdv.v) *)
From GR Require Import Base.Bytes Gen.GenSlotAdv.
From Coq Require Import ZArith.

(* the slot advance the API reports with an unhinted font is the design-unit advance times the font's scale, with or without a face *)
Lemma gen_slot_advance_scales : forall res scale face_given, GenSlotAdv.slot_advance_unhinted res scale face_given = (scale * GenSlotAdv.slot_advance_nofont res)%Z.
Proof. intros res scale [|]; unfold GenSlotAdv.slot_advance_unhinted, GenSlotAdv.slot_advance_nofont; apply Z.mul_comm. Qed.
