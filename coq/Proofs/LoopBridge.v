(* Proofs/LoopBridge.v — the rule loop of the reference semantics (Model/RuleModel.v: loop_step / loop_run, the executable definitions
   that the C06 correspondence runs against the engine) satisfies the hypothesis of the C02 loop bound (Model/LoopModel.v: laccept):
   the measure  mu = (slots from the high-water mark to the end) + (remaining insert budget)  never increases over an iteration and
   decreases at every reset of the loop counter.  Hence every pass of the reference semantics terminates within
   maxloop * (mu0 + 1) iterations and run_pass_b never runs out of fuel. *)
From GR Require Import Base.Bytes Model.PosModel Model.RuleModel Model.LoopModel Proofs.LoopProofs Proofs.RuleProofs.
From Coq Require Import List NArith ZArith Lia Bool Arith.
Import ListNotations.

Section LoopBridge.
  Variable adv : N -> Z.
  Local Notation do_inserts := (RuleModel.do_inserts adv).
  Local Notation do_item := (RuleModel.do_item adv).
  Local Notation do_items := (RuleModel.do_items adv).
  Local Notation do_items_pos := (RuleModel.do_items_pos adv).
  Local Notation loop_step := (RuleModel.loop_step adv).
  Local Notation loop_run := (RuleModel.loop_run adv).
  Local Notation loop_obs := (RuleModel.loop_obs adv).
  Local Notation step_obs := RuleModel.step_obs.

  (* index of the high-water slot (the length when it is null), slots from it to the end *)
  Definition okhw (l : list slot) (hw : option nat) : Prop := match hw with Some h => (h < length l)%nat | None => True end.
  (* highpassed means the cursor is strictly after a non-null high-water slot *)
  Definition J (hw : option nat) (hp : bool) (pos : nat) : Prop := hp = true -> exists h, hw = Some h /\ (h < pos)%nat.
  Definition Jo (hw : option nat) (hp : bool) (s : option nat) : Prop := hp = true -> exists h, hw = Some h /\ forall k, s = Some k -> (h < k)%nat.

  Lemma oeq_true a k : oeq a k = true -> a = Some k.
  Proof. destruct a as [x|]; cbn; [|discriminate]. intros H. apply Nat.eqb_eq in H. subst. reflexivity. Qed.
  Lemma oeq_false a k : oeq a k = false -> a <> Some k.
  Proof. destruct a as [x|]; cbn; [|discriminate]. intros H E. injection E as ->. rewrite Nat.eqb_refl in H. discriminate. Qed.

  (* INSERTs: the budget pays for every slot that appears after the high-water mark *)
  Lemma do_inserts_inv : forall acts l pos hw hp a l1 pos1 hw1 hp1 b1 dead,
    do_inserts acts l pos hw hp (Some a) = (l1, pos1, hw1, hp1, b1, dead) ->
    (pos <= length l)%nat -> okhw l hw -> J hw hp pos ->
    exists a1, b1 = Some a1 /\ okhw l1 hw1 /\ J hw1 hp1 pos1 /\ (sfh l1 hw1 + a_bud a1 <= sfh l hw + a_bud a)%nat.
  Proof.
    induction acts as [|x rest IH]; intros l pos hw hp a l1 pos1 hw1 hp1 b1 dead H Hp Hh Hj; cbn [RuleModel.do_inserts] in H.
    - injection H as <- <- <- <- <- <-. exists a. repeat split; try assumption. lia.
    - destruct x; try exact (IH _ _ _ _ _ _ _ _ _ _ _ H Hp Hh Hj).
      destruct (Nat.leb_spec (a_bud a) 1) as [Hn|Hn].
      + injection H as <- <- <- <- <- <-. eexists. repeat split; try assumption. cbn [set_bud a_bud]. lia.
      + destruct (newslot (set_bud a (a_bud a - 1)) (length l)) as [a'|] eqn:En.
        * apply newslot_bud in En. cbn [set_bud a_bud] in En. apply IH in H.
          -- destruct H as (a1 & -> & K1 & K2 & K3). exists a1. repeat split; try assumption.
             revert K3. unfold sfh, hwp. rewrite insert_at_length. destruct hw as [h|]; [destruct (Nat.leb_spec pos h)|]; cbn in Hh; lia.
          -- rewrite insert_at_length. lia.
          -- unfold okhw in *. rewrite insert_at_length. destruct hw as [h|]; [destruct (Nat.leb pos h)|]; lia.
          -- intros E. destruct (oeq hw pos) eqn:Eo; [discriminate|]. destruct (Hj E) as (h & -> & Hlt).
             exists h. destruct (Nat.leb_spec pos h); [lia|]. split; [reflexivity|lia].
        * injection H as <- <- <- <- <- <-. eexists. repeat split; try assumption. cbn [set_bud a_bud]. lia.
  Qed.

  Lemma remove_at_length' : forall (l : list slot) k, (k < length l)%nat -> length (remove_at l k) = (length l - 1)%nat.
  Proof. intros l k H. pose proof (remove_at_length l k H). lia. Qed.

  (* one item: inserts, own actions, optional DELETE, NEXT *)
  Lemma do_item_inv r orig dn j acts l pos hw hp a l1 pos1 hw1 hp1 dn1 b1 dead :
    do_item r orig dn j acts l pos hw hp (Some a) = (l1, pos1, hw1, hp1, dn1, b1, dead) ->
    (pos < length l)%nat -> okhw l hw -> J hw hp pos ->
    exists a1, b1 = Some a1 /\ okhw l1 hw1 /\ J hw1 hp1 pos1 /\ (sfh l1 hw1 + a_bud a1 <= sfh l hw + a_bud a)%nat.
  Proof.
    unfold RuleModel.do_item. destruct (do_inserts acts l pos hw hp (Some a)) as [[[[[la pa] ha] hpa] ba] da] eqn:Ei.
    intros H Hp Hh Hj.
    destruct (do_inserts_measure adv _ _ _ _ _ _ _ _ _ _ _ _ Ei) as [M1 [M2 [M3 [M4 [M5 _]]]]].
    destruct (do_inserts_inv _ _ _ _ _ _ _ _ _ _ _ _ Ei ltac:(lia) Hh Hj) as (na & -> & Ka & Ja & Sa).
    destruct da.
    { injection H as <- <- <- <- <- <- <-. exists na. repeat split; assumption. }
    assert (Hpa : (pa < length la)%nat) by lia.
    (* the temp copy draws on the pool, not on the budget *)
    assert (Ht : exists nb, (a_bud nb = a_bud na) /\
              match (if tempc r j then match newslot na (length la) with Some a' => Some (Some a') | None => None end else Some (Some na)) with
              | None => (l1, pos1, hw1, hp1, dn1, b1, dead) = (la, pa, ha, hpa, dn, Some na, true)
              | Some bx => bx = Some nb
              end).
    { destruct (tempc r j); [destruct (newslot na (length la)) as [a'|] eqn:En|].
      - exists a'. split; [exact (newslot_bud _ _ _ En)|reflexivity].
      - exists na. split; [reflexivity|]. symmetry. exact H.
      - exists na. split; reflexivity. }
    destruct Ht as (nb & Enb & Ht).
    destruct (if tempc r j then match newslot na (length la) with Some a' => Some (Some a') | None => None end else Some (Some na)) as [bx|].
    2:{ injection Ht as -> -> -> -> -> -> ->. exists na. repeat split; assumption. }
    subst bx.
    destruct (has_delete acts).
    - injection H as <- <- <- <- <- <- <-. exists nb. split; [reflexivity|].
      set (l2 := upd la pa _). assert (L2 : length l2 = length la) by apply upd_length0.
      assert (L3 : length (remove_at l2 pa) = (length la - 1)%nat) by (rewrite remove_at_length'; lia).
      set (hw2 := if oeq ha pa then (if Nat.ltb (S pa) (length l2) then Some (S pa) else None) else ha).
      assert (K2 : match hw2 with Some h => (h < length la)%nat /\ h <> pa | None => True end).
      { unfold hw2. destruct (oeq ha pa) eqn:Eo.
        - destruct (Nat.ltb_spec (S pa) (length l2)); [split; lia | exact I].
        - apply oeq_false in Eo. destruct ha as [h|]; [|exact I]. cbn in Ka. split; [exact Ka|]. intros ->. apply Eo. reflexivity. }
      assert (S2 : (match hw2 with Some h => (if Nat.ltb pa h then length la - h else length la - 1 - h) | None => O end <= sfh la ha)%nat).
      { unfold hw2, sfh, hwp. destruct (oeq ha pa) eqn:Eo.
        - apply oeq_true in Eo. subst ha. destruct (Nat.ltb_spec (S pa) (length l2)); [|lia].
          destruct (Nat.ltb_spec pa (S pa)); lia.
        - destruct ha as [h|]; [|lia]. destruct (Nat.ltb_spec pa h); lia. }
      split; [|split].
      * unfold okhw. rewrite L3. destruct hw2 as [h|]; [|exact I]. destruct K2 as [K2 K2']. destruct (Nat.ltb_spec pa h); lia.
      * intros E. destruct pa as [|p]; cbn [prv] in E.
        -- destruct (Ja E) as (h & _ & Hlt). lia.
        -- match type of E with (if ?c then _ else _) = _ => destruct c eqn:Ec end.
           ++ apply oeq_true in Ec. exists p. split; [exact Ec|lia].
           ++ destruct (Ja E) as (h & Eh & Hlt). assert (E2 : hw2 = Some h).
              { unfold hw2. rewrite Eh. cbn [oeq]. destruct (Nat.eqb_spec h (S p)); [lia|reflexivity]. }
              rewrite E2. destruct (Nat.ltb_spec (S p) h); [lia|]. exists h. split; [reflexivity|exact Hlt].
      * unfold sfh at 1, hwp. rewrite L3. destruct hw2 as [h|]; [|lia]. destruct K2 as [K2 K2'].
        destruct (Nat.ltb_spec pa h); lia.
    - injection H as <- <- <- <- <- <- <-. exists nb. split; [reflexivity|].
      split; [|split].
      * unfold okhw. rewrite upd_length0. exact Ka.
      * intros E. destruct (oeq ha pa) eqn:Eo.
        -- apply oeq_true in Eo. exists pa. split; [exact Eo|lia].
        -- destruct (Ja E) as (h & Eh & Hlt). exists h. split; [exact Eh|lia].
      * unfold sfh, hwp. rewrite upd_length0. unfold sfh, hwp in Sa. lia.
  Qed.

  Lemma do_items_inv r orig : forall cnt dn j acts l pos hw hp n l1 pos1 hw1 hp1 b1 dead,
    do_items r orig dn j cnt acts l pos hw hp (Some n) = (l1, pos1, hw1, hp1, b1, dead) ->
    (pos + cnt <= length l)%nat -> okhw l hw -> J hw hp pos ->
    exists n1, b1 = Some n1 /\ okhw l1 hw1 /\ J hw1 hp1 pos1 /\ (sfh l1 hw1 + a_bud n1 <= sfh l hw + a_bud n)%nat /\ (dead = false -> pos1 <= length l1)%nat.
  Proof.
    induction cnt as [|cnt IH]; intros dn j acts l pos hw hp n l1 pos1 hw1 hp1 b1 dead H Hp Hh Hj; cbn [RuleModel.do_items] in H.
    - injection H as <- <- <- <- <- <-. exists n. repeat split; try assumption; lia.
    - destruct (do_item r orig dn j (match acts with a :: _ => a | [] => [] end) l pos hw hp (Some n)) as [[[[[[la pa] ha] hpa] da] ba] dd] eqn:Ed.
      destruct (do_item_inv _ _ _ _ _ _ _ _ _ _ _ _ _ _ _ _ _ Ed ltac:(lia) Hh Hj) as (na & -> & Ka & Ja & Sa).
      destruct dd.
      + injection H as <- <- <- <- <- <-. exists na. repeat split; try assumption. discriminate.
      + destruct (do_item_measure adv _ _ _ _ _ _ _ _ _ _ _ _ _ _ _ _ Ed ltac:(lia)) as [D1 D2].
        destruct (IH _ _ _ _ _ _ _ _ _ _ _ _ _ _ H ltac:(lia) Ka Ja) as (n1 & -> & K1 & J1 & S1 & P1).
        exists n1. repeat split; try assumption. lia.
  Qed.

  (* a positioning rule: the stream keeps its length, the high-water mark stays, highpassed is raised when an item is the high-water slot *)
  Lemma do_items_pos_inv r orig st : forall cnt j acts l hw hp l1 hw1 hp1,
    do_items_pos r orig st j cnt acts l hw hp = (l1, hw1, hp1) -> J hw hp (st + j) ->
    length l1 = length l /\ hw1 = hw /\ J hw hp1 (st + j + cnt).
  Proof.
    induction cnt as [|cnt IH]; intros j acts l hw hp l1 hw1 hp1 H Hj; cbn [RuleModel.do_items_pos] in H.
    - injection H as <- <- <-. rewrite Nat.add_0_r. repeat split; assumption.
    - apply IH in H.
      + destruct H as (H1 & H2 & H3). rewrite apply_acts_pos_length in H1. repeat split; try assumption.
        replace (st + j + S cnt)%nat with (st + S j + cnt)%nat by lia. exact H3.
      + intros E. destruct (oeq hw (st + j)) eqn:Eo.
        * apply oeq_true in Eo. exists (st + j)%nat. split; [exact Eo|lia].
        * destruct (Hj E) as (h & Eh & Hlt). exists h. split; [exact Eh|lia].
  Qed.

  (* Pass::adjustSlot keeps "highpassed => the cursor is strictly after the high-water slot" *)
  Definition inb (l : list slot) (s : option nat) : Prop := forall k, s = Some k -> (k < length l)%nat.
  Lemma nxt_some l k k' : nxt l k = Some k' -> k' = S k /\ (S k < length l)%nat.
  Proof. unfold nxt. destruct (Nat.ltb_spec (S k) (length l)); [|discriminate]. intros E. injection E as <-. split; [reflexivity|assumption]. Qed.

  Lemma back_inv l hw : forall n s hp s' hp', back n s hw hp = (s', hp') -> Jo hw hp s -> inb l s -> Jo hw hp' s' /\ inb l s'.
  Proof.
    induction n as [|n IH]; intros s hp s' hp' H Hj Hb; cbn [back] in H.
    - injection H as <- <-. split; assumption.
    - destruct s as [k|]; [|injection H as <- <-; split; assumption].
      apply IH in H; [exact H| |].
      + intros E. destruct hp; [|destruct (prv k); discriminate E].
        destruct (Hj eq_refl) as (h & -> & Hlt). specialize (Hlt k eq_refl). exists h. split; [reflexivity|].
        intros k' Ek. destruct k as [|q]; cbn [prv] in *; [discriminate|]. injection Ek as <-.
        cbn in E. destruct (Nat.eqb_spec q h); [discriminate|]. lia.
      + intros k' Ek. destruct k as [|q]; cbn [prv] in Ek; [discriminate|]. injection Ek as <-. specialize (Hb (S q) eq_refl). lia.
  Qed.
  Lemma fwd_inv l hw : forall n s hp s' hp', fwd n l s hw hp = (s', hp') -> Jo hw hp s -> inb l s -> Jo hw hp' s' /\ inb l s'.
  Proof.
    induction n as [|n IH]; intros s hp s' hp' H Hj Hb; cbn [fwd] in H.
    - injection H as <- <-. split; assumption.
    - destruct s as [k|]; [|injection H as <- <-; split; assumption].
      apply IH in H; [exact H| |].
      + intros E. destruct (oeq hw k) eqn:Eo.
        * apply oeq_true in Eo. exists k. split; [exact Eo|]. intros k' Ek. apply nxt_some in Ek. lia.
        * destruct (Hj E) as (h & Eh & Hlt). specialize (Hlt k eq_refl). exists h. split; [exact Eh|]. intros k' Ek. apply nxt_some in Ek. lia.
      + intros k' Ek. apply nxt_some in Ek. lia.
  Qed.
  Lemma adjust_inv l delta s hw hp s' hp' : adjust l delta s hw hp = (s', hp') -> okhw l hw -> Jo hw hp s -> inb l s -> Jo hw hp' s' /\ inb l s'.
  Proof.
    unfold adjust. intros H Hh Hj Hb.
    set (t := match s with Some _ => (s, delta, hp) | None => _ end) in H.
    assert (Ht : Jo hw (snd t) (fst (fst t)) /\ inb l (fst (fst t))).
    { unfold t. destruct s as [k|]; [split; assumption|].
      destruct (hp || match hw with None => true | Some _ => false end) eqn:Ec; cbn [fst snd].
      - split.
        + intros E. destruct hw as [h|]; [|discriminate E].
          match type of E with (if ?c then _ else _) = _ => destruct c eqn:Eo; [discriminate|] end.
          destruct (Hj E) as (h0 & Eh & _). injection Eh as <-. exists h. split; [reflexivity|].
          intros k Ek. destruct (length l) as [|m] eqn:El; [discriminate|]. injection Ek as <-. cbn in Eo. cbn in Hh.
          destruct (Nat.eqb_spec m h); [discriminate|]. lia.
        + intros k Ek. destruct (length l) as [|m]; [discriminate|]. injection Ek as <-. lia.
      - apply orb_false_iff in Ec. destruct Ec as [-> _]. split; [intros E; discriminate E|].
        intros k Ek. destruct l; [discriminate|]. injection Ek as <-. cbn. lia. }
    destruct t as [[s1 d1] hp1]. cbn [fst snd] in Ht. destruct Ht as [Hj1 Hb1].
    destruct (d1 <? 0)%Z; [exact (back_inv l hw _ _ _ _ _ H Hj1 Hb1)|].
    destruct (0 <? d1)%Z; [exact (fwd_inv l hw _ _ _ _ _ H Hj1 Hb1)|].
    injection H as <- <-. split; assumption.
  Qed.

  (* ---- one iteration of the loop *)
  Definition Inv (maxloop : nat) (st : lstate) : Prop :=
    (exists n, ls_b st = Some n) /\ okhw (ls_l st) (ls_hw st) /\ inb (ls_l st) (ls_s st) /\ (1 <= ls_lc st <= maxloop)%nat /\ (ls_s st <> None -> ls_hp st = false).

  Lemma rule_matches_bounds r l i : rule_matches r l i = true -> (r_pre r <= i)%nat /\ (r_pre r < r_sort r)%nat /\ (i - r_pre r + r_sort r <= length l)%nat.
  Proof.
    unfold rule_matches. intros Hm. apply andb_prop in Hm. destruct Hm as [Hm _]. apply andb_prop in Hm. destruct Hm as [Hm H3]. apply andb_prop in Hm. destruct Hm as [H1 H2].
    apply Nat.leb_le in H1. apply Nat.ltb_lt in H2. apply matches_from_length in H3. rewrite skipn_length in H3. unfold r_sort in *. lia.
  Qed.

  Definition step_core (positioning : bool) (rules : list rule) (st : lstate) (i : nat) :=
    let l := ls_l st in
    match select rules l i 0 None with
    | None => (l, nxt l i, ls_hw st, ls_hp st, ls_b st, false)
    | Some (_, r) =>
        let stw := (i - r_pre r)%nat in
        let window := firstn (r_sort r) (skipn stw l) in
        let n := (r_sort r - r_pre r)%nat in
        if positioning then
          let '(l', hw', hp') := do_items_pos r window stw (r_pre r) n (r_acts r) l (ls_hw st) false in
          let out := if Nat.ltb (stw + r_sort r) (length l') then Some (stw + r_sort r)%nat else None in
          let '(s', hp'') := adjust l' (r_ret r) out hw' hp' in (l', s', hw', hp'', ls_b st, false)
        else
          let '(l', pos', hw', hp', b', dead) := do_items r window (firstn (r_pre r) window) (r_pre r) n (r_acts r) l i (ls_hw st) false (ls_b st) in
          if dead then (l', None, hw', hp', b', true) else
          let out := if Nat.ltb pos' (length l') then Some pos' else None in
          let '(s', hp'') := adjust l' (r_ret r) out hw' hp' in (l', s', hw', hp'', give_back r b', false)
    end.

  Lemma step_core_inv positioning maxloop rules st i n l1 s1 hw1 hp1 b1 dead :
    Inv maxloop st -> ls_s st = Some i -> ls_b st = Some n ->
    step_core positioning rules st i = (l1, s1, hw1, hp1, b1, dead) ->
    exists n1, b1 = Some n1 /\ okhw l1 hw1 /\ inb l1 s1 /\ Jo hw1 hp1 s1 /\ (sfh l1 hw1 + a_bud n1 <= sfh (ls_l st) (ls_hw st) + a_bud n)%nat.
  Proof.
    intros (_ & Hh & Hb & _ & Hp) Es En. unfold step_core. specialize (Hb i Es). specialize (Hp ltac:(rewrite Es; discriminate)).
    destruct (select rules (ls_l st) i 0 None) as [[kr r]|] eqn:E.
    - destruct (select_sound _ _ _ _ _ E) as [_ [Hm _]]. apply rule_matches_bounds in Hm. destruct Hm as (B1 & B2 & B3).
      destruct positioning.
      + destruct (do_items_pos r _ (i - r_pre r) (r_pre r) (r_sort r - r_pre r) (r_acts r) (ls_l st) (ls_hw st) false) as [[l' hw'] hp'] eqn:Ed.
        destruct (do_items_pos_inv _ _ _ _ _ _ _ _ _ _ _ _ Ed ltac:(intros X; discriminate X)) as (L1 & -> & J1).
        replace (i - r_pre r + r_pre r + (r_sort r - r_pre r))%nat with (i - r_pre r + r_sort r)%nat in J1 by lia.
        set (out := if Nat.ltb (i - r_pre r + r_sort r) (length l') then Some (i - r_pre r + r_sort r)%nat else None).
        destruct (adjust l' (r_ret r) out (ls_hw st) hp') as [s' hp''] eqn:Ea. intros H. injection H as <- <- <- <- <- <-.
        assert (Hh' : okhw l' (ls_hw st)) by (unfold okhw in *; rewrite L1; exact Hh).
        assert (Jout : Jo (ls_hw st) hp' out).
        { intros X. destruct (J1 X) as (h & Eh & Hlt). exists h. split; [exact Eh|]. intros k Ek. unfold out in Ek.
          destruct (Nat.ltb _ _); [|discriminate]. injection Ek as <-. exact Hlt. }
        assert (Bout : inb l' out).
        { intros k Ek. unfold out in Ek. destruct (Nat.ltb_spec (i - r_pre r + r_sort r) (length l')); [|discriminate]. injection Ek as <-. assumption. }
        destruct (adjust_inv _ _ _ _ _ _ _ Ea Hh' Jout Bout) as [Ja Ba].
        exists n. rewrite En. repeat split; try assumption. unfold sfh, hwp. rewrite L1. lia.
      + rewrite En.
        destruct (do_items r _ _ (r_pre r) (r_sort r - r_pre r) (r_acts r) (ls_l st) i (ls_hw st) false (Some n)) as [[[[[l' pos'] hw'] hp'] b'] dd] eqn:Ed.
        destruct (do_items_inv _ _ _ _ _ _ _ _ _ _ _ _ _ _ _ _ _ Ed ltac:(lia) Hh ltac:(intros X; discriminate X)) as (n1 & -> & K1 & J1 & S1 & P1).
        destruct dd.
        * intros H. injection H as <- <- <- <- <- <-. exists n1. repeat split; try assumption.
          -- intros k Ek. discriminate Ek.
          -- intros X. destruct (J1 X) as (h & Eh & _). exists h. split; [exact Eh|]. intros k Ek. discriminate Ek.
        * set (out := if Nat.ltb pos' (length l') then Some pos' else None).
          destruct (adjust l' (r_ret r) out hw' hp') as [s' hp''] eqn:Ea. intros H. injection H as <- <- <- <- <- <-.
          assert (Jout : Jo hw' hp' out).
          { intros X. destruct (J1 X) as (h & Eh & Hlt). exists h. split; [exact Eh|]. intros k Ek. unfold out in Ek.
            destruct (Nat.ltb _ _); [|discriminate]. injection Ek as <-. exact Hlt. }
          assert (Bout : inb l' out).
          { intros k Ek. unfold out in Ek. destruct (Nat.ltb_spec pos' (length l')); [|discriminate]. injection Ek as <-. assumption. }
          destruct (adjust_inv _ _ _ _ _ _ _ Ea K1 Jout Bout) as [Ja Ba].
          eexists. split; [cbn [give_back]; reflexivity|]. cbn [set_free a_bud]. repeat split; assumption.
    - intros H. injection H as <- <- <- <- <- <-. exists n. rewrite En. repeat split; try assumption.
      + intros k Ek. apply nxt_some in Ek. lia.
      + intros X. rewrite Hp in X. discriminate X.
      + lia.
  Qed.

  Definition step_tail (maxloop : nat) (st : lstate) (t : list slot * option nat * option nat * bool * option alloc * bool) : lstate :=
    let '(l1, s1, hw1, hp1, b1, dead) := t in
    if dead then mkls0 l1 None hw1 hp1 (ls_lc st) b1 true else
    match s1 with
    | None => mkls0 l1 None hw1 hp1 (ls_lc st) b1 false
    | Some k =>
        if oeq hw1 k || hp1 then mkls0 l1 s1 (nxt l1 k) false maxloop b1 false
        else if Nat.eqb (ls_lc st - 1) 0 then
          match hw1 with
          | Some h => mkls0 l1 hw1 (nxt l1 h) false maxloop b1 false
          | None => mkls0 l1 None hw1 hp1 maxloop b1 false
          end
        else mkls0 l1 s1 hw1 hp1 (ls_lc st - 1) b1 false
    end.
  Lemma loop_step_eq positioning maxloop rules st i : ls_s st = Some i ->
    loop_step positioning maxloop rules st = step_tail maxloop st (step_core positioning rules st i).
  Proof. intros E. unfold RuleModel.loop_step, step_core, step_tail. rewrite E. reflexivity. Qed.

  Lemma sfh_nxt l k : (k < length l)%nat -> (S (sfh l (nxt l k)) = sfh l (Some k))%nat.
  Proof. intros H. unfold sfh, hwp, nxt. destruct (Nat.ltb_spec (S k) (length l)); lia. Qed.

  (* the iteration is admitted by the acceptor of Model/LoopModel.v, and the invariant is re-established while the cursor is live *)
  Lemma loop_step_ok positioning maxloop rules st i : (1 <= maxloop)%nat -> Inv maxloop st -> ls_s st = Some i ->
    let st' := loop_step positioning maxloop rules st in
    exists lc', lstep (N.of_nat maxloop) (mklst (mu st) (N.of_nat (ls_lc st))) (step_obs st st') = Some (mklst (mu st') lc')
                /\ (live st' = true -> lc' = N.of_nat (ls_lc st') /\ Inv maxloop st').
  Proof.
    intros Hml HI Es. pose proof HI as ((n & En) & Hh & Hb & Hlc & Hp). cbv zeta. rewrite (loop_step_eq _ _ _ _ _ Es).
    destruct (step_core positioning rules st i) as [[[[[l1 s1] hw1] hp1] b1] dead] eqn:Ec.
    destruct (step_core_inv _ _ _ _ _ _ _ _ _ _ _ _ HI Es En Ec) as (n1 & -> & K1 & B1 & J1 & S1).
    unfold step_tail.
    assert (Hmu : forall hwx lcx sx hpx dx, (sfh l1 hwx <= sfh l1 hw1)%nat ->
              (mu (mkls0 l1 sx hwx hpx lcx (Some n1) dx) <= mu st)%N).
    { intros. unfold mu. cbn [ls_l ls_hw ls_b bud]. rewrite En. cbn [bud]. lia. }
    destruct dead.
    { (* the machine died: the loop ends *)
      eexists. split; [|intros X; discriminate X]. unfold lstep, step_obs. cbn [o_mu o_live o_reset o_lc l_mu l_lc live ls_s].
      specialize (Hmu hw1 (ls_lc st) None hp1 true ltac:(lia)). apply N.leb_le in Hmu. rewrite Hmu. cbn [negb]. reflexivity. }
    destruct s1 as [k|].
    2:{ eexists. split; [|intros X; discriminate X]. unfold lstep, step_obs. cbn [o_mu o_live o_reset o_lc l_mu l_lc live ls_s].
        specialize (Hmu hw1 (ls_lc st) None hp1 false ltac:(lia)). apply N.leb_le in Hmu. rewrite Hmu. cbn [negb]. reflexivity. }
    specialize (B1 k eq_refl).
    assert (Hreset : forall sx kx hx, (hx <= kx)%nat -> (kx < length l1)%nat ->
              (sfh l1 hw1 >= sfh l1 (Some hx))%nat -> 
              let st' := mkls0 l1 (Some sx) (nxt l1 kx) false maxloop (Some n1) false in
              lstep (N.of_nat maxloop) (mklst (mu st) (N.of_nat (ls_lc st))) (step_obs st st') = Some (mklst (mu st') (N.of_nat maxloop))).
    { intros sx kx hx Hle Hkx Hs. cbv zeta. unfold lstep, step_obs. cbn [o_mu o_live o_reset o_lc l_mu l_lc live ls_s ls_lc].
      assert (Hlt : (mu (mkls0 l1 (Some sx) (nxt l1 kx) false maxloop (Some n1) false) < mu st)%N).
      { unfold mu. cbn [ls_l ls_hw ls_b bud]. rewrite En. cbn [bud]. pose proof (sfh_nxt l1 kx Hkx). unfold sfh, hwp in *. lia. }
      assert (Hle' : (mu (mkls0 l1 (Some sx) (nxt l1 kx) false maxloop (Some n1) false) <=? mu st)%N = true) by (apply N.leb_le; lia).
      rewrite Hle'. cbn [negb live ls_s].
      assert (Er : Nat.eqb (S maxloop) (ls_lc st) = false) by (apply Nat.eqb_neq; lia). rewrite Er. cbn [negb].
      apply N.ltb_lt in Hlt. rewrite Hlt, N.eqb_refl. reflexivity. }
    destruct (oeq hw1 k || hp1) eqn:Er.
    - (* s == highwater or highpassed: reset *)
      assert (Hx : exists hx, (hx <= k)%nat /\ (sfh l1 hw1 >= sfh l1 (Some hx))%nat).
      { apply orb_true_iff in Er. destruct Er as [Er|Er].
        - apply oeq_true in Er. exists k. subst hw1. split; lia.
        - destruct (J1 Er) as (h & -> & Hlt). specialize (Hlt k eq_refl). exists h. split; lia. }
      destruct Hx as (hx & Hle & Hs).
      eexists. split; [apply (Hreset k k hx Hle B1 Hs)|].
      + intros _. split; [reflexivity|]. unfold Inv. cbn [ls_b ls_l ls_hw ls_s ls_lc ls_hp]. repeat split; try lia.
        * exists n1. reflexivity.
        * unfold okhw. destruct (nxt l1 k) as [q|] eqn:Eq; [apply nxt_some in Eq; lia|exact I].
        * intros q Eq. injection Eq as <-. exact B1.
    - apply orb_false_iff in Er. destruct Er as [Er1 Er2].
      destruct (Nat.eqb_spec (ls_lc st - 1) 0) as [Ez|Ez].
      + (* the counter ran out: the cursor goes to the high-water slot *)
        destruct hw1 as [h|].
        * cbn in K1. eexists. split; [apply (Hreset h h h (le_n _) K1 ltac:(lia))|].
          intros _. split; [reflexivity|]. unfold Inv. cbn [ls_b ls_l ls_hw ls_s ls_lc ls_hp]. repeat split; try lia.
          -- exists n1. reflexivity.
          -- unfold okhw. destruct (nxt l1 h) as [q|] eqn:Eq; [apply nxt_some in Eq; lia|exact I].
          -- intros q Eq. injection Eq as <-. exact K1.
        * eexists. split; [|intros X; discriminate X]. unfold lstep, step_obs. cbn [o_mu o_live o_reset o_lc l_mu l_lc live ls_s].
          specialize (Hmu None maxloop None hp1 false ltac:(lia)). apply N.leb_le in Hmu. rewrite Hmu. cbn [negb]. reflexivity.
      + (* --lc, carry on *)
        eexists. split.
        * unfold lstep, step_obs. cbn [o_mu o_live o_reset o_lc l_mu l_lc live ls_s ls_lc].
          specialize (Hmu hw1 (ls_lc st - 1)%nat (Some k) hp1 false ltac:(lia)). apply N.leb_le in Hmu. rewrite Hmu. cbn [negb].
          replace (S (ls_lc st - 1)) with (ls_lc st) by lia. rewrite Nat.eqb_refl. cbn [negb].
          assert (E1 : (N.of_nat (ls_lc st - 1) + 1 =? N.of_nat (ls_lc st))%N = true) by (apply N.eqb_eq; lia).
          assert (E2 : (1 <=? N.of_nat (ls_lc st - 1))%N = true) by (apply N.leb_le; lia).
          rewrite E1, E2. reflexivity.
        * intros _. split; [reflexivity|]. unfold Inv. cbn [ls_b ls_l ls_hw ls_s ls_lc ls_hp]. repeat split; try lia; try assumption.
          -- exists n1. reflexivity.
          -- intros q Eq. injection Eq as <-. exact B1.
  Qed.

  (* ---- the whole loop: its observation sequence *)

  Theorem loop_obs_accepted positioning maxloop rules : (1 <= maxloop)%nat -> forall fuel st, Inv maxloop st ->
    laccept (N.of_nat maxloop) (mklst (mu st) (N.of_nat (ls_lc st))) (loop_obs positioning maxloop rules fuel st) = true.
  Proof.
    intros Hml. induction fuel as [|f IH]; intros st HI; cbn [RuleModel.loop_obs]; [reflexivity|].
    destruct (ls_s st) as [i|] eqn:Es; [|reflexivity]. cbv zeta. cbn [laccept].
    destruct (loop_step_ok positioning maxloop rules st i Hml HI Es) as (lc' & El & Hlive). cbv zeta in El, Hlive. rewrite El.
    unfold step_obs at 1. cbn [o_live]. destruct (live (loop_step positioning maxloop rules st)) eqn:Ev.
    - destruct (Hlive eq_refl) as [-> HI']. apply IH. exact HI'.
    - unfold live in Ev. destruct f as [|f']; cbn [RuleModel.loop_obs]; [reflexivity|].
      destruct (ls_s (loop_step positioning maxloop rules st)); [discriminate Ev|reflexivity].
  Qed.

  Lemma loop_obs_short positioning maxloop rules : forall fuel st,
    (length (loop_obs positioning maxloop rules fuel st) < fuel)%nat -> ls_s (loop_run positioning maxloop rules fuel st) = None.
  Proof.
    induction fuel as [|f IH]; intros st H; cbn [RuleModel.loop_obs RuleModel.loop_run] in *; [lia|].
    destruct (ls_s st) as [i|] eqn:Es; [|exact Es]. cbv zeta in H. cbn [length] in H. apply IH. lia.
  Qed.

  Lemma st_init_inv maxloop l n : (1 <= maxloop)%nat -> l <> [] -> Inv maxloop (st_init maxloop l (Some n)).
  Proof.
    intros Hml Hl. unfold Inv, st_init. cbn [ls_b ls_l ls_hw ls_s ls_lc ls_hp]. repeat split; try lia.
    - exists n. reflexivity.
    - unfold okhw. destruct (nxt l 0) as [q|] eqn:Eq; [apply nxt_some in Eq; lia|exact I].
    - intros k Ek. injection Ek as <-. destruct l; [contradiction|cbn; lia].
  Qed.

  (* the number of iterations of a pass of the reference semantics *)
  Theorem loop_iterations_bounded positioning maxloop rules l n fuel : (1 <= maxloop)%nat -> l <> [] ->
    (length (loop_obs positioning maxloop rules fuel (st_init maxloop l (Some n))) <= maxloop * (length l + a_bud n + 1))%nat.
  Proof.
    intros Hml Hl. pose proof (loop_obs_accepted positioning maxloop rules Hml fuel _ (st_init_inv maxloop l n Hml Hl)) as Ha.
    cbn [st_init ls_lc] in Ha. apply loop_bounded_init in Ha; [|lia].
    assert (Hm : (mu (st_init maxloop l (Some n)) + 1 <= N.of_nat (length l + a_bud n + 1))%N).
    { unfold mu, st_init, sfh, hwp. cbn [ls_l ls_hw ls_b bud]. destruct (nxt l 0); lia. }
    assert (Hb : (N.of_nat (length (loop_obs positioning maxloop rules fuel (st_init maxloop l (Some n)))) <= N.of_nat (maxloop * (length l + a_bud n + 1)))%N).
    { rewrite Nat2N.inj_mul. eapply N.le_trans; [exact Ha|]. apply N.mul_le_mono_l. exact Hm. }
    lia.
  Qed.

  (* a pass never runs out of fuel: the final state of run_pass_b is one the loop really stops in *)
  Theorem pass_terminates positioning maxloop rules l n : (1 <= maxloop)%nat -> l <> [] ->
    ls_s (loop_run positioning maxloop rules (pass_fuel_b maxloop l (Some n)) (st_init maxloop l (Some n))) = None.
  Proof.
    intros Hml Hl. apply loop_obs_short. pose proof (loop_iterations_bounded positioning maxloop rules l n (pass_fuel_b maxloop l (Some n)) Hml Hl).
    unfold pass_fuel_b in *. lia.
  Qed.

  (* ---- growth: a positioning pass keeps the number of slots, a substitution pass is checked against the cap *)
  Lemma step_tail_l maxloop st t : ls_l (step_tail maxloop st t) = fst (fst (fst (fst (fst t)))).
  Proof.
    destruct t as [[[[[l1 s1] hw1] hp1] b1] dead]. unfold step_tail. cbn [fst].
    destruct dead; [reflexivity|]. destruct s1 as [k|]; [|reflexivity].
    destruct (oeq hw1 k || hp1); [reflexivity|]. destruct (Nat.eqb (ls_lc st - 1) 0); [destruct hw1|]; reflexivity.
  Qed.
  Lemma loop_step_pos_length maxloop rules st : length (ls_l (loop_step true maxloop rules st)) = length (ls_l st).
  Proof.
    destruct (ls_s st) as [i|] eqn:Es; [|unfold RuleModel.loop_step; rewrite Es; reflexivity].
    rewrite (loop_step_eq _ _ _ _ _ Es), step_tail_l. unfold step_core.
    destruct (select rules (ls_l st) i 0 None) as [[kr r]|]; [|reflexivity].
    destruct (do_items_pos r _ (i - r_pre r) (r_pre r) (r_sort r - r_pre r) (r_acts r) (ls_l st) (ls_hw st) false) as [[l' hw'] hp'] eqn:Ed.
    apply do_items_pos_inv in Ed; [|intros X; discriminate X]. destruct Ed as (L1 & _ & _).
    destruct (adjust l' (r_ret r) _ hw' hp') as [s' hp'']. cbn [fst]. exact L1.
  Qed.
  Lemma loop_run_pos_length maxloop rules : forall fuel st, length (ls_l (loop_run true maxloop rules fuel st)) = length (ls_l st).
  Proof.
    induction fuel as [|f IH]; intros st; cbn [RuleModel.loop_run]; [reflexivity|].
    destruct (ls_s st); [|reflexivity]. rewrite IH. apply loop_step_pos_length.
  Qed.

  Lemma run_passes_b_cap : forall passes k nsubst maxsize l b out, (length l <= maxsize)%nat ->
    run_passes_b adv k nsubst maxsize passes l b = Some out -> (length out <= maxsize)%nat.
  Proof.
    induction passes as [|[ml p] rest IH]; intros k nsubst maxsize l b out Hl H; cbn [RuleModel.run_passes_b] in H.
    - injection H as <-. exact Hl.
    - cbv zeta in H. set (b0 := if Nat.eqb k nsubst then _ else b) in H. clearbody b0.
      destruct (run_pass_b adv (Nat.leb nsubst k) (Nat.max 1 ml) p l b0) as [[l' b']|] eqn:Ep; [|discriminate].
      destruct (Nat.ltb_spec k nsubst) as [Hk|Hk]; cbn [andb] in H.
      + destruct (Nat.ltb_spec maxsize (length l')); [discriminate|]. refine (IH _ _ _ _ _ _ _ H). lia.
      + refine (IH _ _ _ _ _ _ _ H).
        assert (Eb : Nat.leb nsubst k = true) by (apply Nat.leb_le; lia). rewrite Eb in Ep.
        unfold RuleModel.run_pass_b in Ep. destruct l as [|x l0]; [injection Ep as <- <-; exact Hl|].
        match type of Ep with context [ls_dead ?s] => destruct (ls_dead s) end; [discriminate|].
        injection Ep as <- <-. rewrite loop_run_pos_length. cbn [ls_l]. exact Hl.
  Qed.
  (* whatever the rules insert, shaping with the reference semantics either fails or returns at most 64 slots per input slot *)
  Theorem reference_growth_cap nsubst passes l out : run_passes_adj adv nsubst passes l = Some out -> (length out <= 64 * length l)%nat.
  Proof. unfold RuleModel.run_passes_adj. apply run_passes_b_cap. lia. Qed.
End LoopBridge.
