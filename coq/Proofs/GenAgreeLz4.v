(* tie A obligations for this component: definitions regenerated from /repo on this run equal the hand model *)
From GR Require Import Base.Bytes.
Local Open Scope N_scope.
(* ---- LZ4 constants and align (C14) *)
From GR Require Import Model.Lz4Model Gen.GenLz4 Base.Bits.
From Coq Require Import Lia ZifyN ZifyNat ZifyBool.
Lemma gen_lz4_consts_agree :
  GenLz4.MINMATCH = N.of_nat Lz4Model.MINMATCH /\ GenLz4.LASTLITERALS = N.of_nat Lz4Model.LASTLITERALS /\
  GenLz4.MINCODA = N.of_nat Lz4Model.MINCODA /\ GenLz4.MINSRCSIZE = N.of_nat Lz4Model.MINSRCSIZE.
Proof. repeat split; reflexivity. Qed.

Lemma gen_lz4_align_agrees p : (p < 2 ^ 60)%N -> GenLz4.align p = N.of_nat (Lz4Model.align (N.to_nat p)).
Proof.
  intros Hp. unfold GenLz4.align, Lz4Model.align, Lz4Model.WS.
  change (18446744073709551615 - (8 + 18446744073709551616 - 1) mod 18446744073709551616)%N
    with (N.shiftl (N.ones (64 - 3)) 3).
  assert (Hp' : (p < 1152921504606846976)%N) by exact Hp.
  assert (E : (((p + 8) mod 18446744073709551616 + 18446744073709551616 - 1) mod 18446744073709551616 = p + 7)%N).
  { rewrite (N.mod_small (p + 8)) by lia.
    replace (p + 8 + 18446744073709551616 - 1)%N with (p + 7 + 1 * 18446744073709551616)%N by lia.
    rewrite N.mod_add by lia. apply N.mod_small. lia. }
  rewrite E. rewrite land_himask_w; [|lia|change (2 ^ 64)%N with 18446744073709551616%N; lia].
  change (2 ^ 3)%N with 8%N. cbn [Nat.sub].
  Ltac Zify.zify_post_hook ::= Z.to_euclidean_division_equations.
  lia.
Qed.

(* the model's length extension saturates, as the current source does *)
Lemma gen_ext_saturates : GenLz4.ext_saturates = 1%N.
Proof. reflexivity. Qed.
