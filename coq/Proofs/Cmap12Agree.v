(* Proofs/Cmap12Agree.v — the interface of Proofs/CmapCache.v instantiated for format 12: on a subtable that CheckCmapSubtable12
   accepts and whose groups are well formed in the OpenType sense (start <= end <= 0x10FFFF, sorted, disjoint), the cache filled
   through CmapSubtable12NextCodepoint + keyed CmapSubtable12Lookup holds, for EVERY code point, what the direct (keyless) lookup
   returns. *)
From GR Require Import Base.Bytes Base.Mem Base.MemFacts Model.CmapModel Proofs.CmapCache Proofs.CmapSafe.
From Coq Require Import FMapPositive Lia ZifyN ZifyBool ZifyNat.
Local Open Scope N_scope.

Section Fmt12.
  Variable t : mem.
  Variable o n : N.
  Hypothesis W : mem_wf t.
  Hypothesis Hn : r32 t (o + 12) = Some n.
  Hypothesis Hb : o + 16 + 12 * n <= tlen t.

  Definition gval (i k : N) : N := match grp t o i k with Some v => v | None => 0 end.
  Lemma grp_val i k : i < n -> k < 3 -> grp t o i k = Some (gval i k).
  Proof. intros Hi Hk. unfold gval. destruct (grp_some t o n i k W Hb Hi Hk) as [v ->]. reflexivity. Qed.

  (* well-formedness of the groups *)
  Hypothesis n_pos : 1 <= n.
  Hypothesis wf_se : forall i, i < n -> gval i 0 <= gval i 1 /\ gval i 1 <= 0x10FFFF.
  Hypothesis wf_sorted : forall i j, i < j -> j < n -> gval i 1 < gval j 0.

  Definition dl12 (c : N) : N := match lookup12 t o c 0 with Some g => g | None => 0 end.
  Definition G12 (c key : N) : Prop := (key < n \/ c = 0x10FFFF) /\ forall i, i < key -> i < n -> gval i 1 < c.

  (* ---- the lookup loop *)
  Lemma loop_skip c fuel i : i < n -> gval i 1 < c -> lookup12_loop t o c (S fuel) i n = lookup12_loop t o c fuel (i + 1) n.
  Proof.
    intros Hi He. cbn [lookup12_loop]. assert (E : (n <=? i) = false) by lia. rewrite E.
    rewrite (grp_val i 0), (grp_val i 1) by lia. cbn [bind].
    assert (E2 : ((gval i 0 <=? c) && (c <=? gval i 1)) = false) by lia. rewrite E2. reflexivity.
  Qed.
  Lemma loop_fuel c : forall f1 f2 i, (N.to_nat (n - i) < f1)%nat -> (N.to_nat (n - i) < f2)%nat ->
    lookup12_loop t o c f1 i n = lookup12_loop t o c f2 i n.
  Proof.
    induction f1 as [|f1 IH]; intros f2 i H1 H2; [lia|]. destruct f2 as [|f2]; [lia|]. cbn [lookup12_loop].
    destruct (n <=? i) eqn:E; [reflexivity|].
    destruct (grp t o i 0) as [s|]; [|reflexivity]. destruct (grp t o i 1) as [e|]; [|reflexivity]. cbn [bind].
    destruct ((s <=? c) && (c <=? e)); [reflexivity|]. apply IH; lia.
  Qed.
  Lemma loop_from_key c : forall k fuel, k <= n -> (forall i, i < k -> i < n -> gval i 1 < c) -> (N.to_nat n < fuel)%nat ->
    lookup12_loop t o c fuel 0 n = lookup12_loop t o c (fuel - N.to_nat k) k n.
  Proof.
    intros k. induction k as [|k IH] using N.peano_ind; intros fuel Hk Hs Hf.
    - cbn. rewrite Nat.sub_0_r. reflexivity.
    - rewrite (IH fuel) by (try lia; intros i Hi Hi2; apply Hs; lia).
      replace (fuel - N.to_nat k)%nat with (S (fuel - N.to_nat (N.succ k)))%nat by lia.
      rewrite loop_skip by (try lia; apply Hs; lia). rewrite N.add_1_r. reflexivity.
  Qed.

  Lemma G_look12 c key : c <= 0x10FFFF -> G12 c key -> lookup12 t o c key = Some (dl12 c).
  Proof.
    intros Hc [Hk Hs]. unfold dl12, lookup12. rewrite Hn. cbn [bind].
    destruct (N.le_gt_cases key n) as [Hle|Hgt].
    - rewrite (loop_from_key c key (S (N.to_nat n)) Hle Hs ltac:(lia)).
      rewrite (loop_fuel c (S (N.to_nat n) - N.to_nat key) (S (N.to_nat n)) key) by lia.
      destruct (lookup12_loop t o c (S (N.to_nat n)) key n) eqn:E; [reflexivity|].
      exfalso. exact (lookup12_loop_safe t o c n _ W Hb key E).
    - (* key beyond the groups (only with c = limit): both searches find nothing *)
      rewrite (loop_from_key c n (S (N.to_nat n)) ltac:(lia) ltac:(intros i Hi Hi2; apply Hs; lia) ltac:(lia)).
      replace (S (N.to_nat n) - N.to_nat n)%nat with 1%nat by lia. cbn [lookup12_loop].
      assert (E1 : (n <=? n) = true) by lia. assert (E2 : (n <=? key) = true) by lia. rewrite E1, E2. reflexivity.
  Qed.
  Lemma G_zero12 c : c <= 0x10FFFF -> G12 c 0.
  Proof. intros _. split; [left; lia|intros i Hi; lia]. Qed.

  (* no group holds d: the direct lookup gives 0 *)
  Lemma unmapped d : (forall i, i < n -> d < gval i 0 \/ gval i 1 < d) -> dl12 d = 0.
  Proof.
    intros H. unfold dl12, lookup12. rewrite Hn. cbn [bind].
    assert (L : forall fuel i, lookup12_loop t o d fuel i n = Some 0).
    { induction fuel as [|fuel IH]; intros i; cbn [lookup12_loop]; [reflexivity|].
      destruct (n <=? i) eqn:E; [reflexivity|]. rewrite (grp_val i 0), (grp_val i 1) by lia. cbn [bind].
      assert (E2 : ((gval i 0 <=? d) && (d <=? gval i 1)) = false) by (specialize (H i ltac:(lia)); lia). rewrite E2. apply IH. }
    rewrite L. reflexivity.
  Qed.

  (* ---- NextCodepoint: the two scans *)
  Definition fdec (c : N) := fun i => s <- grp t o i 0 ;; Some (c <? s).
  Definition finc (c : N) := fun i => e <- grp t o i 1 ;; Some (e <? c).
  Lemma dec_spec c : forall fuel i, i < n -> (N.to_nat i < fuel)%nat ->
    exists r, dec_while fuel (fdec c) i = Some r /\ r <= i /\ (r = 0 \/ gval r 0 <= c).
  Proof.
    induction fuel as [|fuel IH]; intros i Hi Hf; [lia|]. cbn [dec_while].
    destruct (i =? 0) eqn:E0; [exists i; repeat split; try lia|].
    unfold fdec at 1. rewrite (grp_val i 0) by lia. cbn [bind].
    destruct (c <? gval i 0) eqn:Ec.
    - destruct (IH (i - 1) ltac:(lia) ltac:(lia)) as (r & Hr & Hle & Hz). exists r. repeat split; try assumption; lia.
    - exists i. repeat split; try lia.
  Qed.
  Lemma inc_spec c : forall fuel i, i <= n - 1 -> (N.to_nat (n - 1 - i) < fuel)%nat ->
    exists r, inc_while fuel (finc c) (n - 1) i = Some r /\ i <= r /\ r <= n - 1 /\ (forall j, i <= j -> j < r -> gval j 1 < c) /\ (r = n - 1 \/ c <= gval r 1).
  Proof.
    induction fuel as [|fuel IH]; intros i Hi Hf; [lia|]. cbn [inc_while].
    destruct (n - 1 <=? i) eqn:E0; [exists i; repeat split; try lia|].
    unfold finc at 1. rewrite (grp_val i 1) by lia. cbn [bind].
    destruct (gval i 1 <? c) eqn:Ec.
    - destruct (IH (i + 1) ltac:(lia) ltac:(lia)) as (r & Hr & H1 & H2 & H3 & H4). exists r. repeat split; try assumption; try lia.
      intros j Hj1 Hj2. destruct (N.eq_dec j i) as [->|Hne]; [lia|apply H3; lia].
    - exists i. repeat split; try lia.
  Qed.

  Definition next12_result (c i2 : N) : N * N :=
    let s := gval i2 0 in let e := gval i2 1 in
    let c' := if c <? s then s - 1 else c in
    if c' <? e then (c' + 1, i2)
    else if n <=? i2 + 1 then (0x10FFFF, i2 + 1)
    else (gval (i2 + 1) 0, i2 + 1).
  Lemma next12_spec c key : 0 < c -> c < 0x10FFFF -> G12 c key ->
    exists i2, i2 < n /\ (forall j, j < i2 -> gval j 1 < c) /\ (i2 = n - 1 \/ c <= gval i2 1) /\ next12 t o c key = Some (next12_result c i2).
  Proof.
    intros Hc0 Hc1 [[Hk|Hk] Hs]; [|lia].
    destruct (dec_spec c (S (N.to_nat key)) key Hk ltac:(lia)) as (i1 & Hd & Hd1 & Hd2).
    destruct (inc_spec c (S (N.to_nat n)) i1 ltac:(lia) ltac:(lia)) as (i2 & Hi & Hi1 & Hi2 & Hi3 & Hi4).
    exists i2. split; [lia|]. split; [|split; [exact Hi4|]].
    - intros j Hj. destruct (N.lt_ge_cases j i1) as [Hlt|Hge]; [|apply Hi3; lia].
      destruct Hd2 as [->|Hd2]; [lia|]. pose proof (wf_sorted j i1 Hlt ltac:(lia)). lia.
    - unfold next12. rewrite Hn. cbn [bind].
      assert (E1 : (c =? 0) = false) by lia. assert (E2 : (0x10FFFF <=? c) = false) by lia. rewrite E1, E2.
      fold (fdec c). fold (finc c). rewrite Hd. cbn [bind]. rewrite Hi. cbn [bind].
      rewrite (grp_val i2 0), (grp_val i2 1) by lia. cbn [bind]. unfold next12_result.
      destruct (wf_se i2 ltac:(lia)) as [Ws We].
      assert (Ec : (if c <? gval i2 0 then (gval i2 0 + 0x100000000 - 1) mod 0x100000000 else c) = (if c <? gval i2 0 then gval i2 0 - 1 else c)).
      { destruct (c <? gval i2 0) eqn:E; [|reflexivity]. lia. }
      rewrite Ec. cbv zeta.
      destruct ((if c <? gval i2 0 then gval i2 0 - 1 else c) <? gval i2 1); [reflexivity|].
      destruct (n <=? i2 + 1) eqn:E3; [reflexivity|]. rewrite (grp_val (i2 + 1) 0) by lia. reflexivity.
  Qed.

  Lemma sorted_le i j : i <= j -> j < n -> gval i 1 <= gval j 1.
  Proof.
    intros Hij Hj. destruct (N.eq_dec i j) as [->|Hne]; [lia|].
    pose proof (wf_sorted i j ltac:(lia) Hj). destruct (wf_se j Hj). lia.
  Qed.

  Lemma next_good12 c key nx k : 0 < c -> c < 0x10FFFF -> G12 c key -> next12 t o c key = Some (nx, k) -> c < nx -> nx <= 0x10FFFF -> G12 nx k.
  Proof.
    intros Hc0 Hc1 Hg E Hlt Hle. destruct (next12_spec c key Hc0 Hc1 Hg) as (i2 & Hi & Hs & He & En). rewrite En in E. injection E as E.
    unfold next12_result in E. cbv zeta in E. destruct (wf_se i2 Hi) as [Ws We].
    destruct ((if c <? gval i2 0 then gval i2 0 - 1 else c) <? gval i2 1) eqn:E1.
    - injection E as <- <-. split; [left; exact Hi|]. intros j Hj _. specialize (Hs j Hj). destruct (c <? gval i2 0) eqn:E2; lia.
    - destruct (n <=? i2 + 1) eqn:E3; injection E as <- <-.
      + split; [right; reflexivity|]. intros j Hj Hjn. pose proof (sorted_le j i2 ltac:(lia) Hi). destruct (c <? gval i2 0) eqn:E2; lia.
      + split; [left; lia|]. intros j Hj Hjn. pose proof (wf_sorted j (i2 + 1) ltac:(lia) ltac:(lia)). lia.
  Qed.

  Lemma next_skips12 c key nx k : 0 < c -> c < 0x10FFFF -> G12 c key -> next12 t o c key = Some (nx, k) ->
    forall d, c < d -> d < nx -> d <= 0x10FFFF -> dl12 d = 0.
  Proof.
    intros Hc0 Hc1 Hg E d Hd1 Hd2 Hd3. destruct (next12_spec c key Hc0 Hc1 Hg) as (i2 & Hi & Hs & He & En). rewrite En in E. injection E as E.
    unfold next12_result in E. cbv zeta in E. destruct (wf_se i2 Hi) as [Ws We].
    apply unmapped. intros i Hin.
    destruct (N.lt_trichotomy i i2) as [Hlt|[->|Hgt]].
    - right. specialize (Hs i Hlt). lia.
    - destruct ((if c <? gval i2 0 then gval i2 0 - 1 else c) <? gval i2 1) eqn:E1.
      + injection E as <- <-. destruct (c <? gval i2 0) eqn:E2; lia.
      + destruct (c <? gval i2 0) eqn:E2; lia.
    - pose proof (wf_sorted i2 i Hgt Hin) as Hso.
      destruct ((if c <? gval i2 0 then gval i2 0 - 1 else c) <? gval i2 1) eqn:E1.
      + injection E as <- <-. destruct (c <? gval i2 0) eqn:E2; lia.
      + destruct (n <=? i2 + 1) eqn:E3; injection E as <- <-; [lia|].
        left. destruct (N.eq_dec i (i2 + 1)) as [->|Hne]; [lia|].
        pose proof (wf_sorted (i2 + 1) i ltac:(lia) Hin). destruct (wf_se (i2 + 1) ltac:(lia)). lia.
  Qed.

  Lemma next_total12 c key : 0 < c -> c < 0x10FFFF -> G12 c key -> next12 t o c key <> None.
  Proof. intros Hc0 Hc1 Hg. destruct (next12_spec c key Hc0 Hc1 Hg) as (i2 & _ & _ & _ & En). rewrite En. discriminate. Qed.

  Lemma first12 : next12 t o 0 0 = Some (gval 0 0, 0).
  Proof. unfold next12. rewrite Hn. cbn [bind]. assert (E : (0 =? 0) = true) by reflexivity. rewrite E. rewrite (grp_val 0 0) by lia. reflexivity. Qed.
  Lemma first_good12 c0 k0 : next12 t o 0 0 = Some (c0, k0) -> (c0 <= 0x10FFFF -> G12 c0 k0) /\ (forall d, d < c0 -> d <= 0x10FFFF -> dl12 d = 0).
  Proof.
    rewrite first12. intros E. injection E as <- <-. split; [intros H; apply G_zero12; exact H|].
    intros d Hd _. apply unmapped. intros i Hi. left. destruct (N.eq_dec i 0) as [->|Hne]; [exact Hd|].
    pose proof (wf_sorted 0 i ltac:(lia) Hi). destruct (wf_se 0 ltac:(lia)). lia.
  Qed.

  (* the cache filled from this subtable agrees with the direct lookup on every code point, and is filled without a trap *)
  Theorem cached12_eq_direct : exists m, cache_subtable (next12 t o) (lookup12 t o) 0x10FFFF (PositiveMap.empty N) = Some (Some m) /\
    forall d, d <= 0x10FFFF -> cget m d = dl12 d.
  Proof.
    assert (Hm0 : forall d, d <= 0x10FFFF -> dl12 d = 0 -> cget (PositiveMap.empty N) d = 0).
    { intros d _ _. unfold cget. rewrite PositiveMap.gempty. reflexivity. }
    pose proof (cache_subtable_no_trap_G (next12 t o) (lookup12 t o) 0x10FFFF dl12 G12 G_look12 G_zero12 next_good12 next_skips12 next_total12
                 (PositiveMap.empty N) Hm0 first_good12 ltac:(rewrite first12; discriminate)) as Hnt.
    pose proof (cache_subtable_terminates (next12 t o) (lookup12 t o) 0x10FFFF (PositiveMap.empty N) ltac:(lia)) as Hterm.
    destruct (cache_subtable (next12 t o) (lookup12 t o) 0x10FFFF (PositiveMap.empty N)) as [[m|]|] eqn:E; try contradiction.
    exists m. split; [reflexivity|].
    apply (cache_subtable_agrees_G (next12 t o) (lookup12 t o) 0x10FFFF dl12 G12 G_look12 G_zero12 next_good12 next_skips12 next_total12
             (PositiveMap.empty N) Hm0 first_good12 m ltac:(lia) E).
  Qed.
End Fmt12.

(* a format-12 subtable whose groups are well formed in the OpenType sense *)
Definition wf12 (t : mem) (o : N) : Prop :=
  exists n, r32 t (o + 12) = Some n /\ 1 <= n /\
    (forall i, i < n -> gval t o i 0 <= gval t o i 1 /\ gval t o i 1 <= 0x10FFFF) /\
    (forall i j, i < j -> j < n -> gval t o i 1 < gval t o j 0).

Theorem cached12_eq_direct_checked t o : mem_wf t -> tlen t < S64 -> check12 t (Some o) = Some true -> wf12 t o ->
  exists m, cache_subtable (next12 t o) (lookup12 t o) 0x10FFFF (PositiveMap.empty N) = Some (Some m) /\
            forall d, d <= 0x10FFFF -> lookup12 t o d 0 = Some (cget m d).
Proof.
  intros W Hsz Hc (n & Hn & Hpos & Hse & Hso).
  destruct (check12_ok t o W Hsz Hc) as (ng & Hng & Hb). rewrite Hn in Hng. injection Hng as <-.
  destruct (cached12_eq_direct t o n W Hn Hb Hpos Hse Hso) as (m & E & Hm).
  exists m. split; [exact E|]. intros d Hd. rewrite (Hm d Hd). unfold dl12.
  destruct (lookup12 t o d 0) as [g|] eqn:El; [reflexivity|]. exfalso. exact (lookup12_safe t o W Hsz Hc d 0 El).
Qed.
