(* Proofs/SparseProofs.v — sparse::operator[] reads inside the array for every key, whatever pairs the store was built from. *)
From GR Require Import Base.Bytes Model.SparseModel.
From Coq Require Import NArith Bool Lia ZifyN ZifyBool ZifyNat.
Local Open Scope N_scope.

Lemma count_firstn_le : forall l j, count_true (firstn j l) <= count_true l.
Proof. induction l as [|b l IH]; intros [|j]; cbn [firstn count_true]; try lia. specialize (IH j). lia. Qed.
Lemma count_firstn_lt : forall l j, nth j l false = true -> count_true (firstn j l) + 1 <= count_true l.
Proof.
  induction l as [|b l IH]; intros [|j] H; cbn [nth] in H; try discriminate; cbn [firstn count_true].
  - subst b. lia.
  - specialize (IH j H). lia.
Qed.
Lemma set_bit_length : forall l j, length (set_bit l j) = length l.
Proof. induction l as [|b l IH]; intros [|j]; cbn [set_bit length]; try reflexivity. rewrite IH. reflexivity. Qed.
Lemma count_set_bit : forall l j, (j < length l)%nat -> count_true (set_bit l j) <= count_true l + 1 /\ count_true l <= count_true (set_bit l j).
Proof.
  induction l as [|b l IH]; intros [|j] H; cbn [length] in H; try lia; cbn [set_bit count_true].
  - destruct b; lia.
  - specialize (IH j ltac:(lia)). lia.
Qed.
Lemma count_set_bit_fresh : forall l j, (j < length l)%nat -> nth j l false = false -> count_true (set_bit l j) = count_true l + 1.
Proof.
  induction l as [|b l IH]; intros [|j] H Hb; cbn [length] in H; try lia; cbn [nth] in Hb; cbn [set_bit count_true].
  - subst b. lia.
  - rewrite (IH j ltac:(lia) Hb). lia.
Qed.
Lemma upd_chunk_length : forall l i f, length (upd_chunk l i f) = length l.
Proof. induction l as [|c l IH]; intros [|i] f; cbn [upd_chunk length]; try reflexivity. rewrite IH. reflexivity. Qed.
Lemma nth_upd_chunk : forall l i j f d, (i < length l)%nat -> nth j (upd_chunk l i f) d = if Nat.eqb j i then f (nth i l d) else nth j l d.
Proof.
  induction l as [|c l IH]; intros i j f d H; cbn [length] in H; [lia|].
  destruct i as [|i]; destruct j as [|j]; cbn [upd_chunk nth Nat.eqb]; try reflexivity. apply IH. lia.
Qed.
Lemma count_zero_mask : count_true zero_mask = 0. Proof. reflexivity. Qed.

Definition dflt := mkchunk zero_mask 0.
Definition cnt (chunks : list chunk) (c : nat) : N := count_true (c_mask (nth c chunks dflt)).
Definition off (chunks : list chunk) (c : nat) : N := c_off (nth c chunks dflt).

(* the state of the second loop of the constructor *)
Record FInv (h : N) (nch : nat) (chunks : list chunk) (ci : N) (vi : N) (vals : list N) : Prop := {
  fi_len : length chunks = nch;
  fi_masks : forall c, (c < nch)%nat -> length (c_mask (nth c chunks dflt)) = 48%nat;
  fi_vi : vi = h + N.of_nat (length vals);
  fi_ci : (N.to_nat ci < nch)%nat;
  fi_closed : forall c, (c < nch)%nat -> cnt chunks c = 0 \/ (h <= off chunks c /\ off chunks c + cnt chunks c <= vi);
  fi_open : h <= off chunks (N.to_nat ci) /\ off chunks (N.to_nat ci) + cnt chunks (N.to_nat ci) <= vi;
  fi_above : forall c, (N.to_nat ci < c)%nat -> (c < nch)%nat -> cnt chunks c = 0 }.

(* keys arrive in strictly increasing order (the first loop checked it) and inside the table *)
Fixpoint keys_ok (ps : list (N * N)) (last : option N) (nch : N) : Prop :=
  match ps with
  | [] => True
  | (k, v) :: r => if v =? 0 then keys_ok r last nch
                   else (match last with Some l => l < k | None => True end) /\ k / CHUNK < nch /\ keys_ok r (Some k) nch
  end.

Lemma scan_keys_ok : forall ps last nch nvals nch' nv', scan ps last nch nvals = Some (nch', nv') ->
  nch <= nch' /\ forall bound, nch' <= bound -> keys_ok ps last bound.
Proof.
  induction ps as [|[k v] r IH]; intros last nch nvals nch' nv' H; cbn [scan] in H.
  - injection H as <- <-. split; [lia | intros; exact I].
  - cbn [keys_ok]. destruct (v =? 0); [exact (IH _ _ _ _ _ H)|].
    destruct (match last with Some l => k <=? l | None => false end) eqn:E; [discriminate|].
    destruct (IH _ _ _ _ _ H) as [Hle Hk]. split; [lia|]. intros bound Hb. split; [destruct last as [l|]; [lia | exact I]|].
    split; [lia | exact (Hk bound Hb)].
Qed.

Lemma fill_inv h nch : forall ps chunks ci vi vals last,
  FInv h nch chunks ci vi vals -> keys_ok ps last (N.of_nat nch) ->
  match last with Some l => ci = l / CHUNK | None => ci = 0 end ->
  let '(chunks', vals') := fill ps chunks ci vi vals in
  exists ci', FInv h nch chunks' ci' (h + N.of_nat (length vals')) vals'.
Proof.
  induction ps as [|[k v] r IH]; intros chunks ci vi vals last Hi Hk Hl; cbn [fill].
  - exists ci. destruct Hi. rewrite <- fi_vi0. constructor; assumption.
  - cbn [keys_ok] in Hk. destruct (N.eqb_spec v 0) as [|Hv]; [exact (IH _ _ _ _ _ Hi Hk Hl)|].
    destruct Hk as [Hlast [Hc Hrest]].
    set (c := k / CHUNK) in *. set (j := N.to_nat (k mod CHUNK)).
    assert (Hj : (j < 48)%nat) by (unfold j, CHUNK; pose proof (N.mod_lt k 48); lia).
    assert (Hcn : (N.to_nat c < nch)%nat) by lia.
    assert (Hge : ci <= c).
    { destruct last as [l|]; [subst ci; unfold c, CHUNK; apply N.div_le_mono; lia | lia]. }
    destruct Hi as [Hlen Hmask Hvi Hci Hclosed Hopen Habove].
    apply (IH _ c (vi + 1) (vals ++ [v]) (Some k)); [|exact Hrest | reflexivity].
    set (chunks1 := if c =? ci then chunks else upd_chunk chunks (N.to_nat c) (fun ch => mkchunk (c_mask ch) vi)).
    assert (Hlen1 : length chunks1 = nch) by (unfold chunks1; destruct (c =? ci); [|rewrite upd_chunk_length]; exact Hlen).
    assert (Hc1 : (N.to_nat c < length chunks1)%nat) by lia.
    assert (Hcc : (N.to_nat c < length chunks)%nat) by lia.
    (* chunk c after the first update: its mask is the old one, its offset is such that offset + count <= vi, offset >= h *)
    assert (Hm1 : c_mask (nth (N.to_nat c) chunks1 dflt) = c_mask (nth (N.to_nat c) chunks dflt)).
    { unfold chunks1. destruct (c =? ci); [reflexivity|]. rewrite (nth_upd_chunk _ _ _ _ _ Hcc), Nat.eqb_refl. reflexivity. }
    assert (Ho1 : h <= c_off (nth (N.to_nat c) chunks1 dflt) /\ c_off (nth (N.to_nat c) chunks1 dflt) + cnt chunks (N.to_nat c) <= vi).
    { unfold chunks1. destruct (N.eqb_spec c ci) as [->|Hne].
      - exact Hopen.
      - rewrite (nth_upd_chunk _ _ _ _ _ Hcc), Nat.eqb_refl. cbn [c_off].
        rewrite (Habove (N.to_nat c) ltac:(lia) Hcn). lia. }
    assert (Hother : forall d, d <> N.to_nat c -> nth d chunks1 dflt = nth d chunks dflt).
    { intros d Hd. unfold chunks1. destruct (c =? ci); [reflexivity|]. rewrite (nth_upd_chunk _ _ _ _ _ Hcc).
      destruct (Nat.eqb_spec d (N.to_nat c)); [contradiction | reflexivity]. }
    constructor.
    + rewrite upd_chunk_length. exact Hlen1.
    + intros d Hd. rewrite (nth_upd_chunk _ _ _ _ _ Hc1). destruct (Nat.eqb_spec d (N.to_nat c)) as [->|Hne].
      * cbn [c_mask]. rewrite set_bit_length, Hm1. apply Hmask. exact Hcn.
      * rewrite (Hother d Hne). apply Hmask. exact Hd.
    + rewrite app_length. cbn [length]. lia.
    + exact Hcn.
    + intros d Hd. unfold cnt, off. rewrite (nth_upd_chunk _ _ _ _ _ Hc1). destruct (Nat.eqb_spec d (N.to_nat c)) as [->|Hne].
      * right. cbn [c_mask c_off]. rewrite Hm1.
        pose proof (count_set_bit (c_mask (nth (N.to_nat c) chunks dflt)) j ltac:(rewrite (Hmask _ Hcn); exact Hj)) as [Hcs _].
        unfold cnt in Ho1. lia.
      * rewrite (Hother d Hne). specialize (Hclosed d Hd). unfold cnt, off in Hclosed. lia.
    + unfold cnt, off. rewrite (nth_upd_chunk _ _ _ _ _ Hc1), Nat.eqb_refl. cbn [c_mask c_off]. rewrite Hm1.
      pose proof (count_set_bit (c_mask (nth (N.to_nat c) chunks dflt)) j ltac:(rewrite (Hmask _ Hcn); exact Hj)) as [Hcs _].
      unfold cnt in Ho1. lia.
    + intros d Hd Hdn. unfold cnt. rewrite (nth_upd_chunk _ _ _ _ _ Hc1).
      destruct (Nat.eqb_spec d (N.to_nat c)); [lia|]. rewrite (Hother d ltac:(lia)). apply (Habove d); lia.
Qed.

(* ---- the theorem: whatever pairs the store was built from, no key makes operator[] read outside the array *)
Theorem lookup_in_bounds ps s k : build ps = Some s -> lookup s k <> None.
Proof.
  unfold build. destruct (scan ps None 0 0) as [[nch nv]|] eqn:Es; [|discriminate].
  destruct (scan_keys_ok _ _ _ _ _ _ Es) as [_ Hk]. specialize (Hk nch (N.le_refl _)).
  destruct (N.eqb_spec nch 0) as [->|Hn].
  - intros H. injection H as <-. unfold lookup, lookup_index, word, header. cbn [sp_n sp_chunks sp_vals].
    destruct (k / CHUNK <? 0) eqn:E; [apply N.ltb_lt in E; destruct (N.nlt_0_r _ E)|].
    match goal with |- context [if ?b then 0 else 0] => destruct b end; rewrite !N.mul_0_l; cbn; discriminate.
  - set (h := nch * WORDS_PER_CHUNK).
    set (chunks0 := upd_chunk (repeat (mkchunk zero_mask 0) (N.to_nat nch)) 0 (fun ch => mkchunk (c_mask ch) h)).
    assert (Hrep : forall d, nth d (repeat (mkchunk zero_mask 0) (N.to_nat nch)) dflt = dflt).
    { intros d. destruct (Nat.lt_ge_cases d (N.to_nat nch)); [apply nth_repeat | apply nth_overflow; rewrite repeat_length; lia]. }
    assert (Hlen0 : (0 < length (repeat (mkchunk zero_mask 0) (N.to_nat nch)))%nat) by (rewrite repeat_length; lia).
    assert (Hi0 : FInv h (N.to_nat nch) chunks0 0 h []).
    { constructor.
      - unfold chunks0. rewrite upd_chunk_length, repeat_length. reflexivity.
      - intros d Hd. unfold chunks0. rewrite (nth_upd_chunk _ _ _ _ _ Hlen0). destruct (Nat.eqb d 0); rewrite Hrep; reflexivity.
      - cbn [length]. lia.
      - cbn. lia.
      - intros d Hd. left. unfold cnt, chunks0. rewrite (nth_upd_chunk _ _ _ _ _ Hlen0). destruct (Nat.eqb d 0); rewrite Hrep; reflexivity.
      - unfold cnt, off, chunks0. cbn [N.to_nat]. rewrite (nth_upd_chunk _ _ _ _ _ Hlen0). cbn [Nat.eqb c_off c_mask]. rewrite Hrep. cbn [dflt c_mask]. rewrite count_zero_mask. lia.
      - intros d Hd Hdn. unfold cnt, chunks0. rewrite (nth_upd_chunk _ _ _ _ _ Hlen0). destruct (Nat.eqb_spec d 0); [cbn in Hd; lia|]. rewrite Hrep. reflexivity. }
    pose proof (fill_inv h (N.to_nat nch) ps chunks0 0 h [] None Hi0 ltac:(rewrite N2Nat.id; exact Hk) eq_refl) as Hf.
    destruct (fill ps chunks0 0 h []) as [chunks vals]. destruct Hf as [ci' Hi]. intros H. injection H as <-.
    destruct Hi as [Hlen Hmask Hvi Hci Hclosed Hopen Habove].
    unfold lookup, lookup_index, word, header. cbn [sp_n sp_chunks sp_vals].
    replace (N.max 1 nch) with nch by lia. fold h.
    destruct (N.ltb_spec (k / CHUNK) nch) as [Hlt|Hge].
    + rewrite N.mul_1_l.
      set (c := N.to_nat (k / CHUNK)). set (j := N.to_nat (k mod CHUNK)).
      destruct (nth j (c_mask (nth c chunks (mkchunk zero_mask 0))) false) eqn:Eb.
      * rewrite N.mul_1_l. specialize (Hclosed c ltac:(unfold c; lia)). unfold cnt, off, dflt in Hclosed.
        pose proof (count_firstn_lt _ _ Eb) as Hlt2.
        destruct Hclosed as [Hz|[Hh Hle]]; [lia|].
        destruct (N.ltb_spec (c_off (nth c chunks (mkchunk zero_mask 0)) + count_true (firstn j (c_mask (nth c chunks (mkchunk zero_mask 0))))) h) as [|Hhh]; [simpl; discriminate|].
        destruct (nth_error vals _) eqn:En; [simpl; discriminate|]. apply nth_error_None in En. lia.
      * rewrite N.mul_0_l. destruct (N.ltb_spec 0 h) as [|Hh0]; [simpl; discriminate | unfold h, WORDS_PER_CHUNK in Hh0; lia].
    + rewrite !N.mul_0_l. match goal with |- context [if ?b then 0 else 0] => destruct b end; rewrite ?N.mul_0_l; (destruct (N.ltb_spec 0 h) as [|Hh0]; [simpl; discriminate | unfold h, WORDS_PER_CHUNK in Hh0; lia]).
Qed.
