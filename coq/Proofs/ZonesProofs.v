(* Proofs/ZonesProofs.v — invariants of the free-interval set: sorted, disjoint, inside its bounds; inserting never changes
   what is covered, removing never adds and really removes. *)
From GR Require Import Base.Bytes Model.ZonesModel.
From Coq Require Import ZArith Bool Lia.
Local Open Scope Z_scope.

Fixpoint wf (lo : Z) (l : list excl) : Prop :=
  match l with [] => True | i :: r => lo <= ex i /\ ex i <= exm i /\ wf (exm i) r end.
Definition below (hi : Z) (l : list excl) : Prop := Forall (fun i => exm i <= hi) l.
Definition covered (l : list excl) (p : Z) : Prop := exists i, In i l /\ ex i <= p <= exm i.

Ltac brk :=
  repeat match goal with
  | |- context [?a <? ?b] => destruct (Z.ltb_spec a b)
  | |- context [?a <=? ?b] => destruct (Z.leb_spec a b)
  | |- context [?a =? ?b] => destruct (Z.eqb_spec a b)
  | H : context [?a <? ?b] |- _ => destruct (Z.ltb_spec a b)
  | H : context [?a <=? ?b] |- _ => destruct (Z.leb_spec a b)
  | H : context [?a =? ?b] |- _ => destruct (Z.eqb_spec a b)
  end.

(* goals of the shape  (I1 \/ I2 \/ ... \/ P) <-> (J1 \/ ... \/ P)  or one direction of it, with interval facts and one opaque P *)
Ltac pick :=
  first [ assumption | lia | left; lia | right; assumption | right; left; lia | right; right; assumption | right; right; left; lia
        | right; right; right; assumption | right; right; right; left; lia | right; right; right; right; assumption ].
Ltac cases_or := repeat match goal with H : _ \/ _ |- _ => destruct H as [H|H] end.
Ltac solve_cov := first [ tauto | lia | (split; intros HH; cases_or; pick) | (intros HH; cases_or; pick) ].

Lemma wf_weaken lo lo' l : lo' <= lo -> wf lo l -> wf lo' l.
Proof. destruct l as [|i r]; cbn [wf]; [tauto|]. intros H [A [B C]]. repeat split; try assumption; lia. Qed.

Lemma wf_lower lo l p : wf lo l -> covered l p -> lo <= p.
Proof.
  revert lo. induction l as [|i r IH]; intros lo W [j [Hin Hp]]; [destruct Hin|].
  cbn [wf] in W. destruct W as [A [B C]]. destruct Hin as [<-|Hin]; [lia|].
  assert (exm i <= p) by (apply (IH (exm i) C); exists j; split; assumption). lia.
Qed.

Lemma covered_cons i r p : covered (i :: r) p <-> (ex i <= p <= exm i) \/ covered r p.
Proof.
  unfold covered. split.
  - intros [j [[<-|Hin] Hp]]; [left; exact Hp | right; exists j; split; assumption].
  - intros [Hp | [j [Hin Hp]]]; [exists i; split; [left; reflexivity | exact Hp] | exists j; split; [right; exact Hin | exact Hp]].
Qed.
Lemma covered_nil p : ~ covered [] p. Proof. intros [j [[] _]]. Qed.

(* ---------------------------------------------------------------- insert *)
Lemma ins_wf : forall l e lo, wf lo l -> wf lo (ins e l).
Proof.
  induction l as [|i r IH]; intros e lo W; cbn [ins]; [exact I|].
  cbn [wf] in W. destruct W as [A [B C]].
  unfold oc, oc_and_nonzero, oc_xor, separated, set_x, set_xm, add_w; cbn [fst snd ex exm].
  destruct (ex e <? exm e) eqn:Elt; cbn [negb]; [|cbn [wf]; repeat split; assumption].
  brk; cbn [andb orb xorb negb wf ex exm]; repeat split; try lia; try assumption;
    try (apply IH; assumption);
    try (eapply wf_weaken; [|apply IH; exact C]; cbn [ex exm]; lia);
    try (eapply wf_weaken; [|exact C]; lia).
Qed.

Lemma ins_below : forall l e lo hi, wf lo l -> below hi l -> below hi (ins e l).
Proof.
  unfold below. induction l as [|i r IH]; intros e lo hi W Hb; cbn [ins]; [constructor|].
  cbn [wf] in W. destruct W as [A [B C]].
  inversion Hb as [|? ? Hi Hr]; subst.
  unfold oc, oc_and_nonzero, oc_xor, separated, set_x, set_xm, add_w; cbn [fst snd ex exm].
  destruct (ex e <? exm e) eqn:Elt; cbn [negb]; [|exact Hb].
  brk; cbn [andb orb xorb negb]; repeat (constructor; cbn [ex exm]; try lia); try assumption; try (apply (IH _ (exm i)); assumption).
Qed.

Lemma ins_cover : forall l e lo p, wf lo l -> (covered (ins e l) p <-> covered l p).
Proof.
  induction l as [|i r IH]; intros e lo p W; cbn [ins]; [reflexivity|].
  cbn [wf] in W. destruct W as [A [B C]].
  unfold oc, oc_and_nonzero, oc_xor, separated, set_x, set_xm, add_w; cbn [fst snd ex exm].
  destruct (ex e <? exm e) eqn:Elt; cbn [negb]; [|reflexivity].
  brk; cbn [andb orb xorb negb]; rewrite ?covered_cons; cbn [ex exm]; rewrite ?(IH _ (exm i) p C);
    generalize (covered r p); intros P; solve_cov.
Qed.

(* strict version: no zero-width interval (true of every zone of non-zero width) *)
Fixpoint wfs (lo : Z) (l : list excl) : Prop :=
  match l with [] => True | i :: r => lo <= ex i /\ ex i < exm i /\ wfs (exm i) r end.
Lemma wfs_wf : forall l lo, wfs lo l -> wf lo l.
Proof. induction l as [|i r IH]; intros lo; cbn [wfs wf]; [tauto|]. intros [A [B C]]. repeat split; [exact A | lia | apply IH; exact C]. Qed.
Lemma wfs_weaken lo lo' l : lo' <= lo -> wfs lo l -> wfs lo' l.
Proof. destruct l as [|i r]; cbn [wfs]; [tauto|]. intros H [A [B C]]. repeat split; try assumption; lia. Qed.

Lemma ins_wfs : forall l e lo, wfs lo l -> wfs lo (ins e l).
Proof.
  induction l as [|i r IH]; intros e lo W; cbn [ins]; [exact I|].
  cbn [wfs] in W. destruct W as [A [B C]].
  unfold oc, oc_and_nonzero, oc_xor, separated, set_x, set_xm, add_w; cbn [fst snd ex exm].
  destruct (ex e <? exm e) eqn:Elt; cbn [negb]; [|cbn [wfs]; repeat split; assumption].
  brk; cbn [andb orb xorb negb wfs ex exm]; repeat split; try lia; try assumption;
    try (apply IH; assumption);
    try (eapply wfs_weaken; [|apply IH; exact C]; cbn [ex exm]; lia);
    try (eapply wfs_weaken; [|exact C]; lia).
Qed.

(* ---------------------------------------------------------------- remove *)
Lemma rem_wfs : forall l x xm lo, x < xm -> wfs lo l -> wfs lo (rem x xm l).
Proof.
  induction l as [|i r IH]; intros x xm lo Hx W; cbn [rem]; [exact I|].
  cbn [wfs] in W. destruct W as [A [B C]].
  unfold oc, oc_and_nonzero, oc_xor, separated, set_x, set_xm; cbn [fst snd ex exm].
  brk; cbn [andb orb xorb negb wfs ex exm]; repeat split; try lia; try assumption;
    try (apply IH; assumption);
    try (eapply wfs_weaken; [|apply IH; [exact Hx | exact C]]; cbn [ex exm]; lia);
    try (eapply wfs_weaken; [|exact C]; lia).
Qed.

Lemma rem_wf : forall l x xm lo, x < xm -> wf lo l -> wf lo (rem x xm l).
Proof.
  induction l as [|i r IH]; intros x xm lo Hx W; cbn [rem]; [exact I|].
  cbn [wf] in W. destruct W as [A [B C]].
  unfold oc, oc_and_nonzero, oc_xor, separated, set_x, set_xm; cbn [fst snd ex exm].
  brk; cbn [andb orb xorb negb wf ex exm]; repeat split; try lia; try assumption;
    try (apply IH; assumption);
    try (eapply wf_weaken; [|apply IH; [exact Hx | exact C]]; cbn [ex exm]; lia);
    try (eapply wf_weaken; [|exact C]; lia).
Qed.

Lemma rem_below : forall l x xm lo hi, x < xm -> wf lo l -> below hi l -> below hi (rem x xm l).
Proof.
  unfold below. induction l as [|i r IH]; intros x xm lo hi Hx W Hb; cbn [rem]; [constructor|].
  cbn [wf] in W. destruct W as [A [B C]].
  inversion Hb as [|? ? Hi Hr]; subst.
  unfold oc, oc_and_nonzero, oc_xor, separated, set_x, set_xm; cbn [fst snd ex exm].
  brk; cbn [andb orb xorb negb]; repeat (constructor; cbn [ex exm]; try lia); try assumption; try (apply (IH _ _ (exm i)); assumption).
Qed.

(* removing never adds coverage, and nothing strictly inside the removed range stays covered *)
Lemma rem_cover : forall l x xm lo p, wf lo l -> x < xm -> covered (rem x xm l) p -> covered l p /\ ~ (x < p < xm).
Proof.
  induction l as [|i r IH]; intros x xm lo p W Hx; cbn [rem]; [intros Hc; exfalso; exact (covered_nil p Hc)|].
  cbn [wf] in W. destruct W as [A [B C]].
  assert (Hr : covered r p -> exm i <= p) by (intros Hc; exact (wf_lower _ _ _ C Hc)).
  unfold oc, oc_and_nonzero, oc_xor, separated, set_x, set_xm; cbn [fst snd ex exm].
  brk; cbn [andb orb xorb negb]; rewrite ?covered_cons; cbn [ex exm]; intros Hc; cases_or;
    try (specialize (IH x xm (exm i) p C Hx Hc); destruct IH as [IH1 IH2]);
    try (specialize (Hr Hc));
    (split; [ first [ left; lia | right; assumption | lia ] | lia ]).
Qed.

(* when the removed range reaches the upper bound of everything, its upper end is removed too *)
Lemma rem_cover_top : forall l x xm lo p, wf lo l -> x < xm -> below xm l -> covered (rem x xm l) p -> ~ (x < p <= xm).
Proof.
  induction l as [|i r IH]; intros x xm lo p W Hx Hb; cbn [rem]; [intros Hc; exfalso; exact (covered_nil p Hc)|].
  cbn [wf] in W. destruct W as [A [B C]]. unfold below in Hb. inversion Hb as [|? ? Hi Hr]; subst.
  assert (Hlow : covered r p -> exm i <= p) by (intros Hc; exact (wf_lower _ _ _ C Hc)).
  unfold oc, oc_and_nonzero, oc_xor, separated, set_x, set_xm; cbn [fst snd ex exm].
  brk; cbn [andb orb xorb negb]; rewrite ?covered_cons; cbn [ex exm]; intros Hc; cases_or;
    try (pose proof (IH x xm (exm i) p C Hx Hr Hc));
    try (specialize (Hlow Hc));
    try lia;
    (* the cases that return early keep r untouched: everything in r lies at or above exm i and at or below xm *)
    try (destruct Hc as [j [Hin Hj]]; rewrite Forall_forall in Hr; specialize (Hr j Hin); lia).
Qed.

(* when the removed range starts at or below the lower bound of everything, its lower end is removed too *)
Lemma rem_cover_bot : forall l x xm lo p, wfs lo l -> x < xm -> x <= lo -> covered (rem x xm l) p -> p <> x.
Proof.
  induction l as [|i r IH]; intros x xm lo p W Hx Hlo; cbn [rem]; [intros Hc; exfalso; exact (covered_nil p Hc)|].
  cbn [wfs] in W. destruct W as [A [B C]].
  assert (Hlow : covered r p -> exm i <= p) by (intros Hc; exact (wf_lower _ _ _ (wfs_wf _ _ C) Hc)).
  unfold oc, oc_and_nonzero, oc_xor, separated, set_x, set_xm; cbn [fst snd ex exm].
  brk; cbn [andb orb xorb negb]; rewrite ?covered_cons; cbn [ex exm]; intros Hc; cases_or;
    try (assert (x <= exm i) as Hlo' by lia; pose proof (IH x xm (exm i) p C Hx Hlo' Hc));
    try (specialize (Hlow Hc));
    lia.
Qed.

(* what lies outside the closed removed range stays covered *)
Lemma rem_keeps : forall l x xm lo p, wf lo l -> x < xm -> covered l p -> (p < x \/ xm < p) -> covered (rem x xm l) p.
Proof.
  induction l as [|i r IH]; intros x xm lo p W Hx Hc Hp; cbn [rem]; [exact Hc|].
  cbn [wf] in W. destruct W as [A [B C]].
  assert (Hr : covered r p -> exm i <= p) by (intros Hc'; exact (wf_lower _ _ _ C Hc')).
  revert Hc. rewrite covered_cons.
  unfold oc, oc_and_nonzero, oc_xor, separated, set_x, set_xm; cbn [fst snd ex exm].
  brk; cbn [andb orb xorb negb]; rewrite ?covered_cons; cbn [ex exm]; intros Hc; cases_or;
    try (pose proof (IH x xm (exm i) p C Hx Hc (or_introl Hp)));
    try (pose proof (IH x xm (exm i) p C Hx Hc (or_intror Hp)));
    try (specialize (Hr Hc));
    first [ left; lia | right; left; lia | right; assumption | right; right; assumption | assumption | lia
          | (apply (IH x xm (exm i) p C Hx); [assumption | lia]) | (right; apply (IH x xm (exm i) p C Hx); [assumption | lia]) ].
Qed.

(* ---------------------------------------------------------------- the zone-level invariant *)
Definition ZInv (z : zones) : Prop :=
  wf (z_pos z) (z_excl z) /\ below (z_posm z) (z_excl z) /\ (z_pos z < z_posm z -> wfs (z_pos z) (z_excl z)).
Definition zcovered (z : zones) (p : Z) : Prop := covered (z_excl z) p.

Lemma insert_inv z e : ZInv z -> ZInv (insert z e).
Proof.
  unfold ZInv, insert. intros [W [Bl S]]. cbn [ex exm]. destruct (_ <=? _); [repeat split; assumption|]. cbn [z_pos z_posm z_excl].
  repeat split; [apply ins_wf; exact W | eapply ins_below; eassumption | intros Hnd; apply ins_wfs, S, Hnd].
Qed.
Lemma insert_cover z e p : ZInv z -> (zcovered (insert z e) p <-> zcovered z p).
Proof.
  unfold ZInv, insert, zcovered. intros [W [Bl S]]. cbn [ex exm]. destruct (_ <=? _); [reflexivity|]. cbn [z_excl].
  eapply ins_cover; exact W.
Qed.
Lemma remove_inv z x xm : ZInv z -> ZInv (remove z x xm).
Proof.
  unfold ZInv, remove. intros [W [Bl S]]. destruct (Z.leb_spec (Z.min xm (z_posm z)) (Z.max x (z_pos z))) as [Hle|Hlt]; [repeat split; assumption|]. cbn [z_pos z_posm z_excl].
  repeat split; [apply rem_wf; assumption | eapply rem_below; eassumption | intros Hnd; apply rem_wfs; [exact Hlt | apply S, Hnd]].
Qed.
Lemma remove_cover z x xm p : ZInv z -> zcovered (remove z x xm) p -> zcovered z p /\ (z_pos z < z_posm z -> ~ (x < p < xm)).
Proof.
  unfold ZInv, remove, zcovered. intros [W [Bl S]]. destruct (Z.leb_spec (Z.min xm (z_posm z)) (Z.max x (z_pos z))) as [Hle|Hlt].
  - intros Hc. split; [exact Hc|]. intros Hnd Hp.
    (* nothing is removed because the clamped range is empty: p is then outside [pos, posm] or the range is empty *)
    assert (z_pos z <= p) by (eapply wf_lower; eassumption).
    destruct Hc as [i [Hin Hi]]. unfold below in Bl. rewrite Forall_forall in Bl. specialize (Bl i Hin). lia.
  - cbn [z_excl]. intros Hc. destruct (rem_cover _ _ _ _ p W Hlt Hc) as [H1 H2]. split; [exact H1|].
    intros Hnd Hp. specialize (S Hnd).
    assert (Hlo : z_pos z <= p) by (eapply wf_lower; eassumption).
    assert (Hhi : p <= z_posm z) by (destruct H1 as [i [Hin Hi]]; unfold below in Bl; rewrite Forall_forall in Bl; specialize (Bl i Hin); lia).
    (* at a clamped end the end point itself is removed as well *)
    assert (Hbot : x <= z_pos z -> p <> z_pos z).
    { intros Hx. rewrite Z.max_r in Hc, Hlt by lia. apply (rem_cover_bot _ _ _ _ p S Hlt (Z.le_refl _) Hc). }
    assert (Htop : z_posm z <= xm -> p <> z_posm z).
    { intros Hx Heq. rewrite Z.min_r in Hc, Hlt by lia. apply (rem_cover_top _ _ _ _ p W Hlt Bl Hc). lia. }
    apply H2. lia.
Qed.

Lemma initialise_inv sd xmin xmax mlen mwt a0 : xmin <= xmax -> ZInv (initialise sd xmin xmax mlen mwt a0).
Proof.
  intros H. unfold ZInv, initialise, below. destruct sd; cbn [z_pos z_posm z_excl wf wfs ex exm weighted_sd weighted_xy];
    (split; [repeat split; lia | split; [constructor; [cbn [exm]; lia | constructor] | intros Hnd; repeat split; lia]]).
Qed.

Lemma zapply_inv z o : ZInv z -> ZInv (zapply z o).
Proof.
  intros H. destruct o; cbn [zapply]; unfold exclude, exclude_with_margins.
  - apply remove_inv; exact H.
  - apply insert_inv, insert_inv, remove_inv; exact H.
  - apply insert_inv; exact H.
Qed.

Lemma zapply_cover z o p : ZInv z -> zcovered (zapply z o) p -> zcovered z p.
Proof.
  intros H. destruct o; cbn [zapply]; unfold exclude, exclude_with_margins.
  - intros Hc. exact (proj1 (remove_cover _ _ _ _ H Hc)).
  - intros Hc.
    pose proof (remove_inv z xmin xmax H) as H1.
    pose proof (insert_inv _ (weighted_axis axis (xmin - z_mlen z) xmin 0 0 (z_mwt z) (xmin - z_mlen z) 0 0 false) H1) as H2.
    apply (proj1 (insert_cover _ _ p H2)) in Hc. apply (proj1 (insert_cover _ _ p H1)) in Hc.
    exact (proj1 (remove_cover _ _ _ _ H Hc)).
  - intros Hc. exact (proj1 (insert_cover _ _ p H) Hc).
Qed.

(* every reachable state *)
Theorem zones_reachable_inv ops : forall z, ZInv z -> ZInv (fold_left zapply ops z).
Proof. induction ops as [|o r IH]; intros z H; cbn [fold_left]; [exact H | apply IH, zapply_inv; exact H]. Qed.

Theorem zones_coverage_never_grows ops : forall z p, ZInv z -> zcovered (fold_left zapply ops z) p -> zcovered z p.
Proof.
  induction ops as [|o r IH]; intros z p H Hc; cbn [fold_left] in Hc; [exact Hc|].
  apply (zapply_cover z o p H). apply IH; [apply zapply_inv; exact H | exact Hc].
Qed.

(* an excluded point never comes back: after an exclude (with or without margins) of (x, xm), whatever follows *)
Theorem zones_excluded_stays_excluded z x xm ops p : ZInv z -> z_pos z < z_posm z -> x < p < xm ->
  ~ zcovered (fold_left zapply ops (exclude z x xm)) p.
Proof.
  intros H Hnd Hp Hc. apply zones_coverage_never_grows in Hc; [|apply remove_inv; exact H].
  exact (proj2 (remove_cover _ _ _ _ H Hc) Hnd Hp).
Qed.

(* the non-degeneracy hypothesis is needed: on a zone of zero width (_pos = _posm) Zones::remove clamps the range to an empty
   one and returns, so the single point stays on offer although it lies strictly inside the excluded range *)
Theorem zones_excluded_degenerate_refuted :
  exists z x xm p, ZInv z /\ x < p < xm /\ zcovered (exclude z x xm) p.
Proof.
  exists (initialise false 5 5 0 0 0), 0, 10, 5. split; [apply initialise_inv; lia|]. split; [lia|].
  unfold zcovered, exclude, remove, initialise. cbn. eexists. split; [left; reflexivity|]. cbn. lia.
Qed.

(* ---------------------------------------------------------------- closest: the candidate of an exclusion lies inside it *)
Lemma test_position_inside zerox e origin : ex e <= exm e -> ex e <= test_position zerox e origin <= exm e.
Proof.
  intros H. unfold test_position.
  destruct (esm e <? 0).
  - destruct ((ex e <? origin) && (origin <? exm e)) eqn:Eb.
    + apply andb_prop in Eb. destruct Eb as [E1 E2]. apply Z.ltb_lt in E1, E2.
      destruct (cost e origin <? cost e (ex e)); match goal with |- context [if ?c then _ else _] => destruct c end; lia.
    + match goal with |- context [if ?c then _ else _] => destruct c end; lia.
  - cbv zeta. destruct (Z.ltb_spec (zerox e origin) (ex e)); [lia|]. destruct (Z.ltb_spec (exm e) (zerox e origin)); lia.
Qed.

(* whatever exclusion closest() settles on, the position it reports is covered by the zone *)
Theorem closest_candidate_covered zerox z e origin : ZInv z -> In e (z_excl z) -> zcovered z (test_position zerox e origin).
Proof.
  intros [W _] Hin. exists e. split; [exact Hin|]. apply test_position_inside.
  clear -W Hin. revert W. generalize (z_pos z). induction (z_excl z) as [|i r IH]; intros lo W; [destruct Hin|].
  cbn [wf] in W. destruct W as [A [B C]]. destruct Hin as [<-|Hin]; [exact B | exact (IH Hin _ C)].
Qed.
