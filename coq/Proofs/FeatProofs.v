(* Proofs/FeatProofs.v — bit-field allocation of features is disjoint; set/get form an isolated, range-checked map *)
From GR Require Import Base.Bytes Model.FeatModel.
From Coq Require Import Lia ZifyN ZifyBool ZifyNat.
Local Open Scope N_scope.
Ltac Zify.zify_post_hook ::= Z.to_euclidean_division_equations.

(* ------------------------------------------------------------ geometry of one field *)
Definition f_need (f : fref) : N := N.size (f_max f).
Definition f_start (f : fref) : N := f_index f * 32 + f_bits f.            (* absolute bit address *)
Definition field_ok (f : fref) : Prop :=
  f_bits f + f_need f <= 32 /\ f_mask f = N.shiftl (N.ones (f_need f)) (f_bits f).

Lemma size_ones n : N.size (N.ones n) = n.
Proof.
  destruct (N.eq_dec n 0) as [->|Hn]; [reflexivity|].
  rewrite N.ones_equiv.
  assert (Hp : 2 ^ n = 2 * 2 ^ (n - 1)).
  { replace n with (N.succ (n - 1)) at 1 by lia. apply N.pow_succ_r'. }
  assert (Hq : 0 < 2 ^ (n - 1)) by (apply N.neq_0_lt_0; apply N.pow_nonzero; lia).
  rewrite N.size_log2 by lia.
  assert (Hl : N.log2 (N.pred (2 ^ n)) = n - 1).
  { apply N.log2_unique; [lia|]. replace (N.succ (n - 1)) with n by lia. lia. }
  rewrite Hl. lia.
Qed.

Lemma size_le_32 v : v < W32 -> N.size v <= 32.
Proof.
  intros H. destruct (N.eq_dec v 0) as [->|Hv]; [cbn; lia|].
  rewrite N.size_log2 by exact Hv.
  assert (N.log2 v < 32); [|lia]. apply N.log2_lt_pow2; [lia|exact H].
Qed.

Lemma lt_pow2_size v : v < 2 ^ N.size v.
Proof. apply N.size_gt. Qed.

Lemma size_mono a b : a <= b -> N.size a <= N.size b.
Proof.
  intros H. destruct (N.eq_dec a 0) as [->|Ha]; [cbn; lia|].
  assert (Hb : b <> 0) by lia. rewrite !N.size_log2 by assumption.
  pose proof (N.log2_le_mono a b H). lia.
Qed.

(* the constructor, for an offset below the loader's limit *)
Lemma ctor_geometry bo maxv id nm fl st f bo' : bo <= MAX_BITS -> maxv < W32 -> ctor bo maxv id nm fl st = (f, bo') ->
  field_ok f /\ f_max f = maxv /\ bo <= f_start f /\ f_start f + f_need f = bo'.
Proof.
  intros Hbo Hmax. unfold ctor, mask_over_val, need_bits, MAX_BITS, CHUNK in *. rewrite size_ones.
  set (n := N.size maxv). assert (Hn : n <= 32) by (apply size_le_32; exact Hmax).
  destruct (bo / 32 <? (bo + n) / 32) eqn:E; intros H; inversion H; subst f bo'; clear H;
    unfold field_ok, f_need, f_start; cbn [f_mask f_max f_bits f_index]; fold n.
  - assert (E1 : ((bo + n) / 32 * 32) mod 65536 = (bo + n) / 32 * 32) by (apply N.mod_small; lia).
    rewrite E1. assert (E2 : ((bo + n) / 32 * 32) mod 32 = 0) by (apply N.mod_mul; lia). rewrite E2.
    rewrite (N.mod_small ((bo + n) / 32 * 32 + n)) by lia.
    assert (E3 : (N.shiftl (N.ones n) 0) mod W32 = N.shiftl (N.ones n) 0).
    { apply N.mod_small. rewrite N.shiftl_0_r, N.ones_equiv. unfold W32.
      assert (2 ^ n <= 2 ^ 32) by (apply N.pow_le_mono_r; lia). change (2 ^ 32) with 4294967296 in *. lia. }
    rewrite E3. repeat split; try reflexivity; lia.
  - rewrite (N.mod_small (bo + n)) by lia.
    assert (Hfit : bo mod 32 + n < 32) by lia.
    assert (E3 : (N.shiftl (N.ones n) (bo mod 32)) mod W32 = N.shiftl (N.ones n) (bo mod 32)).
    { apply N.mod_small. rewrite N.shiftl_mul_pow2, N.ones_equiv. unfold W32.
      assert (Hp : 2 ^ n * 2 ^ (bo mod 32) <= 2 ^ 32).
      { rewrite <- N.pow_add_r. apply N.pow_le_mono_r; lia. }
      change (2 ^ 32) with 4294967296 in *. pose proof (N.pow_nonzero 2 (bo mod 32)). nia. }
    rewrite E3. repeat split; try reflexivity; lia.
Qed.

(* ------------------------------------------------------------ bit facts on one word *)
Lemma testbit_field n b k : N.testbit (N.shiftl (N.ones n) b) k = (b <=? k) && (k <? b + n).
Proof.
  destruct (N.lt_ge_cases k b) as [H|H].
  - rewrite N.shiftl_spec_low by exact H. assert (E : (b <=? k) = false) by lia. rewrite E. reflexivity.
  - rewrite N.shiftl_spec_high' by exact H. assert (E : (b <=? k) = true) by lia. rewrite E. cbn [andb].
    destruct (N.lt_ge_cases (k - b) n) as [H2|H2].
    + rewrite N.ones_spec_low by exact H2. lia.
    + rewrite N.ones_spec_high by exact H2. lia.
Qed.

Lemma testbit_small v n j : v < 2 ^ n -> n <= j -> N.testbit v j = false.
Proof. intros Hv Hj. rewrite <- (N.mod_small v (2 ^ n)) by exact Hv. apply N.mod_pow2_bits_high. exact Hj. Qed.

Definition put (w m v b : N) : N := N.lor (N.ldiff w m) (N.shiftl v b).

Lemma get_put_same w n b v : v < 2 ^ n ->
  N.shiftr (N.land (put w (N.shiftl (N.ones n) b) v b) (N.shiftl (N.ones n) b)) b = v.
Proof.
  intros Hv. apply N.bits_inj. intros k. unfold put.
  rewrite N.shiftr_spec', N.land_spec, N.lor_spec, N.ldiff_spec, testbit_field.
  rewrite N.shiftl_spec_high' by lia. replace (k + b - b) with k by lia.
  assert (E : (b <=? k + b) = true) by lia. rewrite E. cbn [andb].
  destruct (N.lt_ge_cases k n) as [H|H].
  - assert (E2 : (k + b <? b + n) = true) by lia. rewrite E2. cbn [negb andb]. rewrite Bool.andb_false_r, Bool.andb_true_r. reflexivity.
  - assert (E2 : (k + b <? b + n) = false) by lia. rewrite E2. rewrite Bool.andb_false_r.
    symmetry. apply (testbit_small v n k Hv H).
Qed.

Lemma land_put_other w n b v n' b' : v < 2 ^ n -> (b + n <= b' \/ b' + n' <= b) ->
  N.land (put w (N.shiftl (N.ones n) b) v b) (N.shiftl (N.ones n') b') = N.land w (N.shiftl (N.ones n') b').
Proof.
  intros Hv Hd. apply N.bits_inj. intros k. unfold put.
  rewrite !N.land_spec, N.lor_spec, N.ldiff_spec, !testbit_field.
  destruct ((b' <=? k) && (k <? b' + n')) eqn:Em; [|rewrite !Bool.andb_false_r; reflexivity].
  rewrite !Bool.andb_true_r.
  assert (E1 : (b <=? k) && (k <? b + n) = false) by lia. rewrite E1. cbn [negb]. rewrite Bool.andb_true_r.
  assert (E2 : N.testbit (N.shiftl v b) k = false).
  { destruct (N.lt_ge_cases k b) as [H|H]; [apply N.shiftl_spec_low; exact H|].
    rewrite N.shiftl_spec_high' by exact H. apply (testbit_small v n); [exact Hv|lia]. }
  rewrite E2. apply Bool.orb_false_r.
Qed.

Lemma shiftl_fits v n b : v < 2 ^ n -> b + n <= 32 -> (N.shiftl v b) mod W32 = N.shiftl v b.
Proof.
  intros Hv Hb. apply N.mod_small. rewrite N.shiftl_mul_pow2. unfold W32.
  assert (Hp : 2 ^ n * 2 ^ b <= 2 ^ 32) by (rewrite <- N.pow_add_r; apply N.pow_le_mono_r; lia).
  change (2 ^ 32) with 4294967296 in *. pose proof (N.pow_nonzero 2 b). nia.
Qed.

(* ------------------------------------------------------------ vectors *)
Lemma nth_error_upd_same l : forall i f, nth_error (upd l i f) i = option_map f (nth_error l i).
Proof. induction l as [|w r IH]; intros [|i] f; cbn; try reflexivity. apply IH. Qed.
Lemma nth_error_upd_other l : forall i j f, i <> j -> nth_error (upd l i f) j = nth_error l j.
Proof. induction l as [|w r IH]; intros [|i] [|j] f H; cbn; try reflexivity; try congruence. apply IH. congruence. Qed.
Lemma length_upd l : forall i f, length (upd l i f) = length l.
Proof. induction l as [|w r IH]; intros [|i] f; cbn; try reflexivity. rewrite IH. reflexivity. Qed.

Lemma nth_error_resize l n j : nth_error (resize l n) j =
  match nth_error l j with Some w => Some w | None => if (j <? n)%nat then Some 0 else None end.
Proof.
  unfold resize. destruct (nth_error l j) as [w|] eqn:E.
  - rewrite nth_error_app1; [exact E|]. apply nth_error_Some. congruence.
  - apply nth_error_None in E. rewrite nth_error_app2 by exact E.
    destruct (j <? n)%nat eqn:Ej.
    + apply Nat.ltb_lt in Ej. rewrite nth_error_repeat; [reflexivity|lia].
    + apply Nat.ltb_ge in Ej. apply nth_error_None. rewrite repeat_length. lia.
Qed.

Definition word_at (fv : fvec) (i : N) : N := match nth_error fv (N.to_nat i) with Some w => w | None => 0 end.

Lemma get_val_word f fv : get_val f fv = N.shiftr (N.land (word_at fv (f_index f)) (f_mask f)) (f_bits f).
Proof.
  unfold get_val, word_at. destruct (nth_error fv (N.to_nat (f_index f))); [reflexivity|].
  rewrite N.land_0_l, N.shiftr_0_l. reflexivity.
Qed.

(* the word at any index after a successful set *)
Lemma set_val_words f v fv fv' : set_val f v fv = Some fv' ->
  forall i, word_at fv' i = if i =? f_index f then N.lor (N.ldiff (word_at fv i) (f_mask f)) ((N.shiftl v (f_bits f)) mod W32)
                             else word_at fv i.
Proof.
  unfold set_val. destruct (f_max f <? v); [discriminate|]. intros H. inversion H; subst fv'; clear H. intros i.
  set (k := N.to_nat (f_index f)).
  set (fv1 := if (length fv <=? k)%nat then resize fv (S k) else fv).
  assert (Hw : forall j, word_at fv1 j = word_at fv j).
  { intros j. unfold word_at, fv1. destruct (length fv <=? k)%nat eqn:El; [|reflexivity].
    rewrite nth_error_resize. destruct (nth_error fv (N.to_nat j)); [reflexivity|].
    destruct (N.to_nat j <? S k)%nat; reflexivity. }
  assert (Hlen : (k < length fv1)%nat).
  { unfold fv1. destruct (length fv <=? k)%nat eqn:El.
    - unfold resize. rewrite app_length, repeat_length. apply Nat.leb_le in El. lia.
    - apply Nat.leb_gt in El. exact El. }
  unfold word_at at 1. destruct (i =? f_index f) eqn:Ei.
  - apply N.eqb_eq in Ei. subst i. fold k. rewrite nth_error_upd_same.
    destruct (nth_error fv1 k) as [w|] eqn:E; [|apply nth_error_None in E; lia].
    cbn [option_map]. rewrite <- Hw. unfold word_at. fold k. rewrite E. reflexivity.
  - apply N.eqb_neq in Ei. rewrite nth_error_upd_other by (unfold k; lia).
    rewrite <- Hw. reflexivity.
Qed.

(* ------------------------------------------------------------ the map laws *)
Theorem set_succeeds_iff f v fv : (exists fv', set_val f v fv = Some fv') <-> v <= f_max f.
Proof.
  unfold set_val. split.
  - intros [fv' H]. destruct (f_max f <? v) eqn:E; [discriminate|]. lia.
  - intros H. assert (E : (f_max f <? v) = false) by lia. rewrite E. eexists; reflexivity.
Qed.

Theorem get_set_same f v fv fv' : field_ok f -> set_val f v fv = Some fv' -> get_val f fv' = v.
Proof.
  intros [Hfit Hmask] H.
  assert (Hv : v <= f_max f) by (apply (set_succeeds_iff f v fv); eexists; exact H).
  assert (Hv2 : v < 2 ^ f_need f).
  { unfold f_need. eapply N.le_lt_trans; [|apply (lt_pow2_size (f_max f))]. exact Hv. }
  rewrite get_val_word, (set_val_words f v fv fv' H), N.eqb_refl.
  rewrite (shiftl_fits v (f_need f)) by assumption. rewrite Hmask.
  apply (get_put_same _ _ _ _ Hv2).
Qed.

Definition disjoint (f g : fref) : Prop :=
  f_index f <> f_index g \/ f_bits f + f_need f <= f_bits g \/ f_bits g + f_need g <= f_bits f.

Theorem get_set_other f g v fv fv' : field_ok f -> field_ok g -> disjoint f g ->
  set_val f v fv = Some fv' -> get_val g fv' = get_val g fv.
Proof.
  intros [Hfit Hmask] [Hfitg Hmaskg] Hd H.
  assert (Hv : v <= f_max f) by (apply (set_succeeds_iff f v fv); eexists; exact H).
  assert (Hv2 : v < 2 ^ f_need f).
  { unfold f_need. eapply N.le_lt_trans; [|apply (lt_pow2_size (f_max f))]. exact Hv. }
  rewrite !get_val_word, (set_val_words f v fv fv' H).
  destruct (f_index g =? f_index f) eqn:E; [|reflexivity].
  apply N.eqb_eq in E. rewrite (shiftl_fits v (f_need f)) by assumption. rewrite Hmask, Hmaskg.
  f_equal. rewrite E. apply (land_put_other _ _ _ _ _ _ Hv2).
  destruct Hd as [Hd|Hd]; [congruence|lia].
Qed.

Theorem set_fails_unchanged f v fv : f_max f < v -> set_val f v fv = None.
Proof. intros H. unfold set_val. assert (E : (f_max f <? v) = true) by lia. rewrite E. reflexivity. Qed.

(* ------------------------------------------------------------ the same laws with the map identity (several faces) *)
Theorem set_on_succeeds_iff face f v x :
  (exists x', set_val_on face f v x = Some x') <-> (v <= f_max f /\ (fv_map x = None \/ fv_map x = Some face)).
Proof.
  unfold set_val_on. split.
  - intros [x' H]. destruct (set_val f v (fv_words x)) as [w|] eqn:E; [|discriminate].
    split; [apply (set_succeeds_iff f v (fv_words x)); eexists; exact E|].
    destruct (fv_map x) as [m|]; [|left; reflexivity]. destruct (m =? face) eqn:Em; [apply N.eqb_eq in Em; subst m; right; reflexivity|discriminate].
  - intros [Hv Hm]. destruct (proj2 (set_succeeds_iff f v (fv_words x)) Hv) as [w E]. rewrite E.
    destruct Hm as [-> | ->]; [eexists; reflexivity|]. rewrite N.eqb_refl. eexists; reflexivity.
Qed.

(* a successful write binds the object to the writer's face (and only a successful one does: a refusal returns nothing) *)
Theorem set_on_binds face f v x x' : set_val_on face f v x = Some x' ->
  fv_map x' = Some face /\ set_val f v (fv_words x) = Some (fv_words x').
Proof.
  unfold set_val_on. destruct (set_val f v (fv_words x)) as [w|]; [|discriminate]. destruct (fv_map x) as [m|].
  - destruct (m =? face) eqn:Em; [apply N.eqb_eq in Em; subst m|discriminate]. intros H. injection H as <-. split; reflexivity.
  - intros H. injection H as <-. split; reflexivity.
Qed.

Theorem get_set_on_same face f v x x' : field_ok f -> set_val_on face f v x = Some x' -> get_val_on face f x' = v.
Proof.
  intros Hf H. destruct (set_on_binds _ _ _ _ _ H) as [Hm Hw]. unfold get_val_on. rewrite Hm, N.eqb_refl.
  exact (get_set_same f v _ _ Hf Hw).
Qed.

(* every other feature of that face keeps its value when the object already belonged to the face ... *)
Theorem get_set_on_other face f g v x x' : field_ok f -> field_ok g -> disjoint f g -> fv_map x = Some face ->
  set_val_on face f v x = Some x' -> get_val_on face g x' = get_val_on face g x.
Proof.
  intros Hf Hg Hd Hb H. destruct (set_on_binds _ _ _ _ _ H) as [Hm Hw]. unfold get_val_on. rewrite Hm, Hb, N.eqb_refl.
  exact (get_set_other f g v _ _ Hf Hg Hd Hw).
Qed.

(* ... and seen from any other face the object reads 0 before and after *)
Theorem get_set_on_foreign face other f g v x x' : other <> face -> fv_map x = None \/ fv_map x = Some face ->
  set_val_on face f v x = Some x' -> get_val_on other g x' = 0 /\ get_val_on other g x = 0.
Proof.
  intros Hne Hb H. destruct (set_on_binds _ _ _ _ _ H) as [Hm _]. unfold get_val_on. rewrite Hm.
  assert (E : (face =? other) = false) by (apply N.eqb_neq; congruence). rewrite E.
  split; [reflexivity|]. destruct Hb as [-> | ->]; [reflexivity|]. rewrite E. reflexivity.
Qed.

Theorem set_on_fails_unchanged face f v x : f_max f < v \/ (exists m, fv_map x = Some m /\ m <> face) -> set_val_on face f v x = None.
Proof.
  intros [H|[m [Hm Hne]]]; unfold set_val_on.
  - rewrite (set_fails_unchanged f v _ H). reflexivity.
  - destruct (set_val f v (fv_words x)); [|reflexivity]. rewrite Hm. assert (E : (m =? face) = false) by (apply N.eqb_neq; exact Hne).
    rewrite E. reflexivity.
Qed.

(* ------------------------------------------------------------ allocation: all fields handed out are disjoint *)
Fixpoint alloc (maxvals : list N) (bo : N) : option (list fref) :=
  match maxvals with
  | [] => Some []
  | m :: rest =>
      let '(f, bo') := ctor bo m 0 0 0 [] in
      if MAX_BITS <? bo' then None else
      match alloc rest bo' with Some l => Some (f :: l) | None => None end
  end.

Lemma geometry_disjoint f g : field_ok f -> field_ok g -> f_start f + f_need f <= f_start g -> disjoint f g.
Proof.
  intros [Hf _] [Hg _] H. unfold disjoint, f_start in *.
  destruct (N.eq_dec (f_index f) (f_index g)) as [E|E]; [right; left; lia|left; exact E].
Qed.

Lemma disjoint_sym f g : disjoint f g -> disjoint g f.
Proof. unfold disjoint. intros [H|[H|H]]; [left; congruence|right; right; exact H|right; left; exact H]. Qed.

Lemma alloc_spec maxvals : forall bo l, bo <= MAX_BITS -> Forall (fun m => m < W32) maxvals -> alloc maxvals bo = Some l ->
  Forall field_ok l /\ Forall (fun f => bo <= f_start f) l /\ map f_max l = maxvals /\
  ForallOrdPairs disjoint l.
Proof.
  induction maxvals as [|m rest IH]; intros bo l Hbo Hm H; cbn [alloc] in H.
  - inversion H; subst. repeat split; constructor.
  - inversion Hm as [|? ? Hm1 Hm2]; subst.
    destruct (ctor bo m 0 0 0 []) as [f bo'] eqn:Ec.
    destruct (ctor_geometry _ _ _ _ _ _ _ _ Hbo Hm1 Ec) as (Hok & Hfm & Hst & Hend).
    destruct (MAX_BITS <? bo') eqn:El; [discriminate|].
    destruct (alloc rest bo') as [l'|] eqn:Ea; [|discriminate]. inversion H; subst l; clear H.
    destruct (IH bo' l' ltac:(lia) Hm2 Ea) as (A & B & C & D).
    split; [constructor; assumption|]. split.
    { constructor; [exact Hst|]. eapply Forall_impl; [|exact B]. cbv beta. intros g Hg. lia. }
    split; [cbn [map]; rewrite Hfm, C; reflexivity|].
    constructor; [|exact D].
    rewrite Forall_forall in *. intros g Hg. apply geometry_disjoint; [exact Hok|apply A; exact Hg|].
    specialize (B g Hg). lia.
Qed.

(* ------------------------------------------------------------ languages *)
Lemma lang_default fm langs t : (t = 0 \/ Forall (fun lf => fst lf <> t) langs) -> clone_for_lang fm langs t = fm_defaults fm.
Proof.
  unfold clone_for_lang. intros [->|H]; [reflexivity|].
  destruct (t =? 0); [reflexivity|].
  assert (E : find (fun lf => fst lf =? t) langs = None).
  { induction H as [|lf r Hlf _ IH]; [reflexivity|]. cbn [find].
    assert (E : (fst lf =? t) = false) by (apply N.eqb_neq; exact Hlf). rewrite E. exact IH. }
  rewrite E. reflexivity.
Qed.

Lemma lang_known fm langs t fv rest1 rest2 : t <> 0 -> langs = rest1 ++ (t, fv) :: rest2 ->
  Forall (fun lf => fst lf <> t) rest1 -> clone_for_lang fm langs t = fv.
Proof.
  intros Ht -> H. unfold clone_for_lang. assert (E0 : (t =? 0) = false) by (apply N.eqb_neq; exact Ht). rewrite E0.
  induction H as [|lf r Hlf _ IH]; cbn [app find].
  - cbn [fst]. rewrite N.eqb_refl. reflexivity.
  - assert (E : (fst lf =? t) = false) by (apply N.eqb_neq; exact Hlf). rewrite E. exact IH.
Qed.
