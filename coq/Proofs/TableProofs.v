(* Proofs/TableProofs.v — (1) what each Face::Table operation does to the buffers (local contracts); (2) soundness of the
   ledger acceptor: an accepted trace satisfies the borrow discipline of C16 in its declarative form. *)
From GR Require Import Base.Bytes Model.TableModel.
From Coq Require Import NArith Bool Lia ZifyN ZifyBool ZifyNat.
Local Open Scope N_scope.

(* ------------------------------------------------------------------ (1) Face::Table *)
Fixpoint occ (x : N) (l : list N) : nat := match l with [] => 0%nat | y :: r => ((if N.eqb x y then 1 else 0) + occ x r)%nat end.

Lemma remove_first_occ x : forall l r, remove_first x l = Some r -> forall y, occ y l = ((if N.eqb y x then 1 else 0) + occ y r)%nat.
Proof.
  induction l as [|z l IH]; intros r H y; cbn [remove_first] in H; [discriminate|].
  destruct (N.eqb_spec x z) as [->|Hne].
  - injection H as <-. cbn [occ]. reflexivity.
  - destruct (remove_first x l) as [r'|] eqn:E; [|discriminate]. injection H as <-. cbn [occ]. rewrite (IH r' eq_refl y). lia.
Qed.
Lemma remove_first_none x : forall l, remove_first x l = None -> occ x l = 0%nat.
Proof.
  induction l as [|z l IH]; intros H; cbn [remove_first occ] in *; [reflexivity|].
  destruct (N.eqb_spec x z); [discriminate|]. destruct (remove_first x l); [discriminate|]. rewrite IH; reflexivity.
Qed.
Lemma occ_in x l : (0 < occ x l)%nat -> exists r, remove_first x l = Some r.
Proof.
  induction l as [|z l IH]; cbn [occ remove_first]; [lia|]. intros H. destruct (N.eqb_spec x z); [eexists; reflexivity|].
  destruct IH as [r Hr]; [lia|]. rewrite Hr. eexists; reflexivity.
Qed.

(* releasing a variable that holds a lent buffer hands back exactly that buffer, once, and nulls the variable *)
Lemma release_app w h : w_bad w = false -> (0 < occ h (w_lent w))%nat ->
  let '(w', t') := release true w (mktvar (Some (App h)) false) in
  t_p t' = None /\ w_bad w' = false /\ w_heap w' = w_heap w /\ (forall y, occ y (w_lent w) = ((if N.eqb y h then 1 else 0) + occ y (w_lent w'))%nat).
Proof.
  intros Hb Ho. unfold release. cbn [t_comp t_p]. destruct (occ_in _ _ Ho) as [r Hr]. rewrite Hr. cbn [t_p w_bad w_heap w_lent].
  repeat split; try assumption. apply remove_first_occ; exact Hr.
Qed.
Lemma release_heap has_rel w b : w_bad w = false -> (0 < occ b (w_heap w))%nat ->
  let '(w', t') := release has_rel w (mktvar (Some (Heap b)) true) in
  t_p t' = None /\ w_bad w' = false /\ w_lent w' = w_lent w /\ (forall y, occ y (w_heap w) = ((if N.eqb y b then 1 else 0) + occ y (w_heap w'))%nat).
Proof.
  intros Hb Ho. unfold release. cbn [t_comp t_p]. destruct (occ_in _ _ Ho) as [r Hr]. rewrite Hr. cbn [t_p w_bad w_heap w_lent].
  repeat split; try assumption. apply remove_first_occ; exact Hr.
Qed.
(* releasing a null variable — whatever its flag — touches nothing: a moved-from or failed table can be destroyed again and again *)
Lemma release_null has_rel w c : release has_rel w (mktvar None c) = (w, mktvar None c).
Proof. unfold release. cbn [t_comp t_p]. destruct c; reflexivity. Qed.

(* the constructor: whatever the table bytes are, the buffer obtained from the application is either owned by the new variable
   (plain table) or has been handed back before the constructor returns; a decompressed copy is owned or freed; nothing else moves *)
Lemma construct_contract w c : w_bad w = false ->
  let '(w', t) := construct true w c in
  w_bad w' = false /\
  match t_p t with
  | None => w_lent w' = w_lent w /\ w_heap w' = w_heap w
  | Some (App h) => t_comp t = false /\ w_lent w' = h :: w_lent w /\ w_heap w' = w_heap w /\ h = w_next w
  | Some (Heap b) => t_comp t = true /\ w_lent w' = w_lent w /\ w_heap w' = b :: w_heap w /\ b = w_next w + 1
  end.
Proof.
  intros Hb. destruct c as [| | |ok]; unfold construct, release; cbn [t_comp t_p w_lent w_heap w_bad w_next remove_first].
  - split; [exact Hb | split; reflexivity].
  - rewrite N.eqb_refl. cbn [t_p w_bad w_lent w_heap]. split; [exact Hb | split; reflexivity].
  - cbn [t_p t_comp]. repeat split; assumption || reflexivity.
  - rewrite N.eqb_refl. cbn [w_lent w_heap w_bad w_next]. destruct ok; cbn [t_p t_comp w_lent w_heap w_bad remove_first].
    + repeat split; assumption || reflexivity.
    + rewrite N.eqb_refl. cbn [w_bad w_lent w_heap]. repeat split; assumption || reflexivity.
Qed.

(* move assignment: the destination's old buffer is released, the destination takes over the source's, the source is left null *)
Lemma assign_contract has_rel w vars dst src :
  let '(w1, vars1, src') := assign has_rel w vars dst src in
  w1 = fst (release has_rel w (nth dst vars tnull)) /\ t_p src' = None /\ vars1 = set_nth dst (mktvar (t_p src) (t_comp src)) vars.
Proof. unfold assign. destruct (release has_rel w (nth dst vars tnull)) as [w1 t]. cbn [fst]. repeat split. Qed.

(* ------------------------------------------------------------------ (2) the ledger *)
Definition cnt_get (h : N) (tr : list ev) : nat := length (filter (fun e => match e with EGet x => x =? h | _ => false end) tr).
Definition cnt_rel (h : N) (tr : list ev) : nat := length (filter (fun e => match e with ERel x => x =? h | _ => false end) tr).

Lemma cnt_get_cons h e tr : cnt_get h (e :: tr) = ((match e with EGet x => if N.eqb x h then 1 else 0 | _ => 0 end) + cnt_get h tr)%nat.
Proof. unfold cnt_get. cbn [filter]. destruct e; try reflexivity. destruct (h0 =? h); reflexivity. Qed.
Lemma cnt_rel_cons h e tr : cnt_rel h (e :: tr) = ((match e with ERel x => if N.eqb x h then 1 else 0 | _ => 0 end) + cnt_rel h tr)%nat.
Proof. unfold cnt_rel. cbn [filter]. destruct e; try reflexivity. destruct (h0 =? h); reflexivity. Qed.

Lemma mem_occ x l : mem x l = true <-> (0 < occ x l)%nat.
Proof. induction l as [|y l IH]; cbn [mem occ]; [split; [discriminate | lia]|]. destruct (x =? y); cbn [orb]; [split; [lia | reflexivity]|]. rewrite IH. lia. Qed.

(* buffers in flight are accounted for exactly: gets so far + outstanding before = releases so far + outstanding after *)
Lemma lrun_accounting preload : forall tr s s', lrun preload s tr = Some s' ->
  forall h, (cnt_get h tr + occ h (lg_out s) = cnt_rel h tr + occ h (lg_out s'))%nat.
Proof.
  induction tr as [|e tr IH]; intros s s' H h; cbn [lrun] in H.
  - injection H as <-. reflexivity.
  - destruct (lstep preload s e) as [s1|] eqn:E; [|discriminate]. specialize (IH s1 s' H h).
    rewrite cnt_get_cons, cnt_rel_cons. unfold lstep in E. destruct (lg_closed s); [discriminate|].
    destruct e as [x|x| | | |].
    + destruct (mem x (lg_seen s)); [discriminate|]. destruct (preload && lg_made s); [discriminate|]. injection E as <-. cbn [lg_out occ] in IH.
      rewrite (N.eqb_sym h x) in IH. lia.
    + destruct (remove_first x (lg_out s)) as [o|] eqn:R; [|discriminate]. injection E as <-. cbn [lg_out] in IH.
      pose proof (remove_first_occ _ _ _ R h) as Ho. rewrite (N.eqb_sym x h). lia.
    + destruct (lg_made s); [discriminate|]. injection E as <-. cbn [lg_out] in IH. lia.
    + destruct (lg_made s); [discriminate|]. destruct (lg_out s) eqn:Eo; [|discriminate]. injection E as <-. cbn [lg_out occ] in *. lia.
    + destruct (lg_made s); [|discriminate]. destruct (lg_out s) eqn:Eo; [|discriminate]. injection E as <-. cbn [lg_out occ] in *. lia.
    + destruct (preload && lg_made s); [discriminate|]. injection E as <-. lia.
Qed.

(* identifiers are fresh: nothing is handed out twice *)
Lemma lrun_fresh preload : forall tr s s', lrun preload s tr = Some s' ->
  forall h, ((if mem h (lg_seen s) then 1 else 0) + cnt_get h tr = (if mem h (lg_seen s') then 1 else 0))%nat.
Proof.
  induction tr as [|e tr IH]; intros s s' H h; cbn [lrun] in H.
  - injection H as <-. unfold cnt_get. cbn. lia.
  - destruct (lstep preload s e) as [s1|] eqn:E; [|discriminate]. specialize (IH s1 s' H h).
    rewrite cnt_get_cons. unfold lstep in E. destruct (lg_closed s); [discriminate|].
    destruct e as [x|x| | | |].
    + destruct (mem x (lg_seen s)) eqn:M; [discriminate|]. destruct (preload && lg_made s); [discriminate|]. injection E as <-. cbn [lg_seen mem] in IH.
      rewrite (N.eqb_sym h x) in IH. destruct (N.eqb_spec x h) as [->|]; cbn [orb] in IH; [rewrite M; lia | lia].
    + destruct (remove_first x (lg_out s)); [|discriminate]. injection E as <-. cbn [lg_seen] in IH. lia.
    + destruct (lg_made s); [discriminate|]. injection E as <-. cbn [lg_seen] in IH. lia.
    + destruct (lg_made s); [discriminate|]. destruct (lg_out s); [|discriminate]. injection E as <-. cbn [lg_seen] in IH. lia.
    + destruct (lg_made s); [|discriminate]. destruct (lg_out s); [|discriminate]. injection E as <-. cbn [lg_seen] in IH. lia.
    + destruct (preload && lg_made s); [discriminate|]. injection E as <-. lia.
Qed.

Lemma lrun_app preload : forall a b s s', lrun preload s (a ++ b) = Some s' -> exists s1, lrun preload s a = Some s1 /\ lrun preload s1 b = Some s'.
Proof.
  induction a as [|e a IH]; intros b s s' H; cbn [app lrun] in *; [exists s; split; [reflexivity | exact H]|].
  destruct (lstep preload s e) as [s1|]; [|discriminate]. exact (IH b s1 s' H).
Qed.

(* once closed, nothing more is accepted *)
Lemma lrun_closed preload : forall tr s s', lg_closed s = true -> lrun preload s tr = Some s' -> tr = [].
Proof. destruct tr as [|e tr]; intros s s' Hc H; [reflexivity|]. cbn [lrun] in H. unfold lstep in H. rewrite Hc in H. discriminate. Qed.

(* with preloadAll, after the face has been made no table is fetched *)
Lemma lrun_preload_no_get : forall tr s s', lg_made s = true -> lrun true s tr = Some s' -> forall h, cnt_get h tr = 0%nat.
Proof.
  induction tr as [|e tr IH]; intros s s' Hm H h; [reflexivity|]. cbn [lrun] in H.
  destruct (lstep true s e) as [s1|] eqn:E; [|discriminate]. rewrite cnt_get_cons.
  assert (lg_made s1 = true /\ match e with EGet _ => False | _ => True end) as [Hm1 He].
  { unfold lstep in E. destruct (lg_closed s); [discriminate|]. rewrite Hm in E. destruct e as [x|x| | | |]; cbn [andb] in E.
    - destruct (mem x (lg_seen s)); discriminate.
    - destruct (remove_first x (lg_out s)); [|discriminate]. injection E as <-. split; [reflexivity | exact I].
    - discriminate.
    - discriminate.
    - destruct (lg_out s); [|discriminate]. injection E as <-. split; [reflexivity | exact I].
    - discriminate. }
  rewrite (IH s1 s' Hm1 H h). destruct e; try reflexivity. destruct He.
Qed.

Lemma lrun_made_mono preload : forall tr s s', lrun preload s tr = Some s' -> lg_made s = true -> lg_closed s' = false -> lg_made s' = true.
Proof.
  induction tr as [|e tr IH]; intros s s' H Hm Hc; cbn [lrun] in H; [injection H as <-; exact Hm|].
  destruct (lstep preload s e) as [s1|] eqn:E; [|discriminate]. apply (IH s1 s' H); [|exact Hc].
  unfold lstep in E. destruct (lg_closed s); [discriminate|]. rewrite Hm in E. destruct e as [x|x| | | |].
  - destruct (mem x (lg_seen s)); [discriminate|]. destruct (preload && true); [discriminate|]. injection E as <-. reflexivity.
  - destruct (remove_first x (lg_out s)); [|discriminate]. injection E as <-. reflexivity.
  - discriminate.
  - discriminate.
  - destruct (lg_out s); [|discriminate]. injection E as <-. reflexivity.
  - destruct (preload && true); [discriminate|]. injection E as <-. exact Hm.
Qed.

(* a run that ends closed ends with nothing outstanding *)
Lemma lrun_closes_empty preload : forall tr s0 s, lg_closed s0 = false -> lrun preload s0 tr = Some s -> lg_closed s = true -> lg_out s = [].
Proof.
  induction tr as [|e tr IH]; intros s0 s H0 R Hc; cbn [lrun] in R.
  - injection R as <-. rewrite H0 in Hc. discriminate.
  - destruct (lstep preload s0 e) as [s1|] eqn:E; [|discriminate].
    destruct (lg_closed s1) eqn:C1.
    + pose proof (lrun_closed preload tr s1 s C1 R) as ->. cbn [lrun] in R. injection R as <-.
      unfold lstep in E. rewrite H0 in E. destruct e as [x|x| | | |].
      * destruct (mem x (lg_seen s0)); [discriminate|]. destruct (preload && lg_made s0); [discriminate|]. injection E as <-. discriminate.
      * destruct (remove_first x (lg_out s0)); [|discriminate]. injection E as <-. discriminate.
      * destruct (lg_made s0); [discriminate|]. injection E as <-. discriminate.
      * destruct (lg_made s0); [discriminate|]. destruct (lg_out s0); [|discriminate]. injection E as <-. reflexivity.
      * destruct (lg_made s0); [|discriminate]. destruct (lg_out s0); [|discriminate]. injection E as <-. reflexivity.
      * destruct (preload && lg_made s0); [discriminate|]. injection E as <-. rewrite H0 in C1. discriminate.
    + exact (IH s1 s C1 R Hc).
Qed.

(* ---- the declarative discipline an accepted trace satisfies *)
Theorem ledger_sound preload tr : ledger_ok preload tr = true ->
  (* every buffer handed out is released exactly once, and identifiers are never reused *)
  (forall h, cnt_rel h tr = cnt_get h tr /\ (cnt_get h tr <= 1)%nat) /\
  (* no release precedes its get: in every prefix, releases of h do not outnumber gets of h *)
  (forall a b h, tr = a ++ b -> (cnt_rel h a <= cnt_get h a)%nat) /\
  (* the trace ends with the destruction of the face or with a failed creation, and nothing follows it *)
  (exists a, tr = a ++ [EDestroyed] \/ tr = a ++ [EFailed]) /\
  (* preloadAll: no table is fetched after gr_make_face returned *)
  (preload = true -> forall a b h, tr = a ++ EMade :: b -> cnt_get h b = 0%nat).
Proof.
  unfold ledger_ok. destruct (lrun preload lg0 tr) as [s|] eqn:R; [|discriminate]. intros Hc.
  repeat split.
  - pose proof (lrun_accounting preload tr lg0 s R h) as A. cbn [lg_out lg0 occ] in A.
    assert (lg_out s = []) as Ho by (exact (lrun_closes_empty preload tr lg0 s eq_refl R Hc)).
    rewrite Ho in A. cbn [occ] in A. lia.
  - pose proof (lrun_fresh preload tr lg0 s R h) as F. cbn [lg_seen lg0 mem] in F. destruct (mem h (lg_seen s)); lia.
  - intros a b h ->. destruct (lrun_app preload a b lg0 s R) as [s1 [Ra _]].
    pose proof (lrun_accounting preload a lg0 s1 Ra h) as A. cbn [lg_out lg0 occ] in A. lia.
  - (* the last event closes *)
    assert (G : forall tr s0, lg_closed s0 = false -> lrun preload s0 tr = Some s -> exists a, tr = a ++ [EDestroyed] \/ tr = a ++ [EFailed]).
    { clear R. induction tr0 as [|e tr0 IH]; intros s0 Hc0 R; cbn [lrun] in R.
      - injection R as <-. rewrite Hc0 in Hc. discriminate.
      - destruct (lstep preload s0 e) as [s1|] eqn:E; [|discriminate].
        destruct (lg_closed s1) eqn:C1.
        + pose proof (lrun_closed preload tr0 s1 s C1 R) as ->. exists []. cbn [app].
          unfold lstep in E. rewrite Hc0 in E. destruct e as [x|x| | | |].
          * destruct (mem x (lg_seen s0)); [discriminate|]. destruct (preload && lg_made s0); [discriminate|]. injection E as <-. discriminate.
          * destruct (remove_first x (lg_out s0)); [|discriminate]. injection E as <-. discriminate.
          * destruct (lg_made s0); [discriminate|]. injection E as <-. discriminate.
          * right; reflexivity.
          * left; reflexivity.
          * destruct (preload && lg_made s0); [discriminate|]. injection E as <-. rewrite Hc0 in C1. discriminate.
        + destruct (IH s1 C1 R) as [a [Ha|Ha]]; exists (e :: a); [left | right]; rewrite Ha; reflexivity. }
    exact (G tr lg0 eq_refl R).
  - intros -> a b h ->. destruct (lrun_app true a (EMade :: b) lg0 s R) as [s1 [Ra Rb]].
    cbn [lrun] in Rb. destruct (lstep true s1 EMade) as [s2|] eqn:E; [|discriminate].
    assert (lg_made s2 = true) as Hm.
    { unfold lstep in E. destruct (lg_closed s1); [discriminate|]. destruct (lg_made s1); [discriminate|]. injection E as <-. reflexivity. }
    exact (lrun_preload_no_get b s2 s Hm Rb h).
Qed.

(* with preloadAll, after the face has been made get_table is not even called for an absent table *)
Lemma lrun_preload_no_null : forall tr s s', lg_made s = true -> lrun true s tr = Some s' -> ~ In ENull tr.
Proof.
  induction tr as [|e tr IH]; intros s s' Hm H Hin; [destruct Hin|]. cbn [lrun] in H.
  destruct (lstep true s e) as [s1|] eqn:E; [|discriminate].
  assert (lg_made s1 = true /\ e <> ENull) as [Hm1 He].
  { unfold lstep in E. destruct (lg_closed s); [discriminate|]. rewrite Hm in E. destruct e as [x|x| | | |]; cbn [andb] in E.
    - destruct (mem x (lg_seen s)); discriminate.
    - destruct (remove_first x (lg_out s)); [|discriminate]. injection E as <-. split; [reflexivity | discriminate].
    - discriminate.
    - discriminate.
    - destruct (lg_out s); [|discriminate]. injection E as <-. split; [reflexivity | discriminate].
    - discriminate. }
  destruct Hin as [->|Hin]; [apply He; reflexivity | exact (IH s1 s' Hm1 H Hin)].
Qed.

Theorem ledger_preload_no_call tr : ledger_ok true tr = true -> forall a b, tr = a ++ EMade :: b -> ~ In ENull b /\ (forall h, ~ In (EGet h) b).
Proof.
  unfold ledger_ok. destruct (lrun true lg0 tr) as [s|] eqn:R; [|discriminate]. intros _ a b ->.
  destruct (lrun_app true a (EMade :: b) lg0 s R) as [s1 [Ra Rb]].
  cbn [lrun] in Rb. destruct (lstep true s1 EMade) as [s2|] eqn:E; [|discriminate].
  assert (lg_made s2 = true) as Hm.
  { unfold lstep in E. destruct (lg_closed s1); [discriminate|]. destruct (lg_made s1); [discriminate|]. injection E as <-. reflexivity. }
  split; [exact (lrun_preload_no_null b s2 s Hm Rb)|].
  intros h Hin. pose proof (lrun_preload_no_get b s2 s Hm Rb h) as Hz.
  unfold cnt_get in Hz. apply (in_split (EGet h)) in Hin. destruct Hin as [l1 [l2 ->]].
  rewrite filter_app in Hz. cbn [filter] in Hz. rewrite N.eqb_refl in Hz. rewrite app_length in Hz. cbn [length] in Hz. lia.
Qed.
