(* tie A obligations for this component: definitions regenerated from /repo on this run equal the hand model *)
From GR Require Import Base.Bytes.
Local Open Scope N_scope.
(* ---- UTF tables (C11) *)
From GR Require Import Model.UtfModel Gen.GenUtf.
Lemma gen_utf_tables_agree : GenUtf.sz_lut = UtfModel.sz_lut /\ GenUtf.mask_lut = UtfModel.mask_lut /\ GenUtf.limit8 = UtfModel.limit
  /\ GenUtf.limit32 = UtfModel.limit.
Proof. repeat split; reflexivity. Qed.

