(* Proofs/SilfProofs.v — Face::readGraphite / Silf::readGraphite never read outside the Silf table, whatever its bytes; what an
   accepted subtable header guarantees.  The directory loop reads entry i without testing the table length: it is safe because every
   subtable accepted before it is at least 31 bytes long and the offsets increase. *)
From GR Require Import Base.Bytes Base.Mem Base.MemFacts Model.ClassMapModel Model.PassModel Model.SilfModel Proofs.ClassMapProofs Proofs.PassProofs.
From Coq Require Import NArith ZArith List Lia ZifyN ZifyBool ZifyNat Bool.
Import ListNotations.
Local Open Scope N_scope.
Ltac Zify.zify_post_hook ::= Z.to_euclidean_division_equations.

Lemma rdblock_some t : mem_wf t -> forall k p, p + N.of_nat k <= tlen t -> exists l, rdblock t p k = Some l /\ length l = k.
Proof.
  intros W. induction k as [|k IH]; intros p H; cbn [rdblock].
  - exists []. split; reflexivity.
  - destruct (rdb_some t p W ltac:(lia)) as [b ->]. destruct (IH (p + 1) ltac:(lia)) as [r [-> Hl]].
    exists (b :: r). split; [reflexivity | cbn [length]; congruence].
Qed.

Lemma msub_wf t off len : mem_wf t -> off + len <= tlen t -> mem_wf (msub t off len).
Proof.
  intros W H i. unfold msub; cbn [m_rd m_len]. destruct (N.ltb_spec i len) as [Hi|Hi].
  - split; [intros _; exact Hi|]. intros _. apply W. unfold tlen in H. lia.
  - split; [intros C; exfalso; apply C; reflexivity | lia].
Qed.

Lemma read_justs_some t : mem_wf t -> forall k p, p + 8 * N.of_nat k <= tlen t -> exists l, read_justs t p k = Some l.
Proof.
  intros W. induction k as [|k IH]; intros p H; cbn [read_justs]; [eexists; reflexivity|].
  destruct (rdblock_some t W 4 p ltac:(lia)) as [b [-> Hl]].
  destruct b as [|a [|b [|c [|d [|e r]]]]]; try discriminate Hl.
  destruct (IH (p + 8) ltac:(lia)) as [r ->]. eexists; reflexivity.
Qed.
Lemma read_pseudos_some t : mem_wf t -> forall k p, p + 6 * N.of_nat k <= tlen t -> exists l, read_pseudos t p k = Some l.
Proof.
  intros W. induction k as [|k IH]; intros p H; cbn [read_pseudos]; [eexists; reflexivity|].
  destruct (r32_some t p W ltac:(lia)) as [u ->]. destruct (r16_some t (p + 4) W ltac:(lia)) as [g ->].
  destruct (IH (p + 6) ltac:(lia)) as [r ->]. eexists; reflexivity.
Qed.

Definition pass_in (l passes_start : N) (x : N * N * N) : Prop := let '(ps, pe, pt) := x in passes_start <= ps /\ ps <= pe /\ pe <= l /\ pt <= 3.

Lemma pass_type_le i jp pp sp : pass_type i jp pp sp <= 3.
Proof. unfold pass_type. destruct (jp <=? i); [lia|]. destruct (pp <=? i); [lia|]. destruct (sp <=? i); lia. Qed.

(* the pass loop: no read outside the table as long as the offset array lies inside the subtable; the slices recorded are inside it *)
Lemma read_passes_spec t s l o pstart jp pp sp acoll flags boxes : mem_wf t -> s + l <= tlen t ->
  forall k i acc, o + 4 * (i + N.of_nat k) + 4 <= l ->
    match read_passes t s l o pstart k i jp pp sp acoll flags boxes acc with
    | inl r => r <> STrap /\ (forall h, r <> SOk h)
    | inr ps => (Forall (pass_in l pstart) acc -> Forall (pass_in l pstart) ps) /\ length ps = (length acc + k)%nat
    end.
Proof.
  intros W Hin. induction k as [|k IH]; intros i acc Ho; cbn [read_passes].
  - split; [intros F; apply Forall_rev; exact F | rewrite rev_length; lia].
  - destruct (r32_some t (s + o + 4 * i) W ltac:(lia)) as [ps ->]. destruct (r32_some t (s + o + 4 * i + 4) W ltac:(lia)) as [pe ->].
    destruct (pe <? ps) eqn:E1; [split; [discriminate | intros h; discriminate]|].
    destruct (ps <? pstart) eqn:E2; [split; [discriminate | intros h; discriminate]|].
    destruct (l <? pe) eqn:E3; [split; [discriminate | intros h; discriminate]|].
    cbv zeta.
    match goal with |- context [read_pass ?b ?z ?c] => pose proof (read_pass_ok b (msub_wf t (s + ps) (pe - ps) W ltac:(lia)) z c) as Hp; destruct (read_pass b z c) as [| |rs] end.
    + contradiction.
    + split; [discriminate | intros h; discriminate].
    + specialize (IH (i + 1) ((ps, pe, pass_type i jp pp sp) :: acc) ltac:(lia)).
      destruct (read_passes t s l o pstart k (i + 1) jp pp sp acoll flags boxes ((ps, pe, pass_type i jp pp sp) :: acc)) as [r|pss]; [exact IH|].
      destruct IH as [IH1 IH2]. split.
      * intros F. apply IH1. constructor; [|exact F]. unfold pass_in. pose proof (pass_type_le i jp pp sp). lia.
      * rewrite IH2. cbn [length]. lia.
Qed.

Ltac istep := match goal with
  | |- (if ?c then _ else _) <> STrap => destruct c eqn:?; [discriminate|]
  | |- match first_err ?l with Some _ => _ | None => _ end <> STrap => let E := fresh "FE" in destruct (first_err l) eqn:E; [discriminate|]; cbn [first_err] in E
  | H : (if ?c then Some _ else _) = None |- _ => destruct c eqn:?; [discriminate H|]
  end.

Definition hdr_ok (l na : N) (h : shdr) : Prop :=
  h_apseudo h < na /\ h_abreak h < na /\ h_abidi h < na /\ h_amirror h < na /\
  h_spass h <= h_ppass h /\ h_ppass h <= h_jpass h /\ h_jpass h <= h_npass h /\ h_npass h <= 128 /\
  (h_bpass h = 255 \/ (h_jpass h <= h_bpass h /\ h_bpass h <= h_npass h)) /\ h_alig h <= 127 /\ 31 <= l /\
  length (h_passes h) = N.to_nat (h_npass h) /\
  exists pstart, pstart < l /\ Forall (pass_in l pstart) (h_passes h).

(* Silf::readGraphite on the subtable [s, s + l) of the table *)
Theorem read_silf_sub_spec t s l version ng na boxes : mem_wf t -> s + l <= tlen t ->
  match read_silf_sub t s l version ng na boxes with
  | STrap => False
  | SOk h => hdr_ok l na h
  | _ => True
  end.
Proof.
  intros W Hin. unfold read_silf_sub.
  destruct (0x00060000 <=? version); [exact I|].
  set (v3 := 0x00030000 <=? version). clearbody v3.
  destruct (if v3 then l <? 28 else l <? 20) eqn:E0; [exact I|].
  set (p0 := if v3 then 8 else 0).
  assert (Hp0 : p0 + 20 <= l) by (unfold p0; destruct v3; lia).
  destruct (rdblock_some t W 20 (s + p0) ltac:(lia)) as [h [-> _]]. cbv zeta.
  set (npass := b8 h 6). set (spass := b8 h 7). set (ppass := b8 h 8). set (jpass := b8 h 9). set (bpass := b8 h 10).
  set (njust := b8 h 19). set (p1 := p0 + 20).
  destruct (first_err _) eqn:FE; [exact I|]. cbn [first_err] in FE. repeat istep.
  destruct (read_justs_some t W (N.to_nat njust) (s + p1) ltac:(lia)) as [justs ->].
  set (p2 := p1 + 8 * njust).
  destruct (l <=? p2 + 10) eqn:E1; [exact I|].
  destruct (rdblock_some t W 10 (s + p2) ltac:(lia)) as [g [-> _]].
  set (ncrit := b8 g 9). set (p3 := p2 + 10 + 2 * ncrit + 1).
  destruct (l <=? p3) eqn:E2; [exact I|].
  destruct (rdb_some t (s + p3) W ltac:(lia)) as [nscript ->].
  set (p4 := p3 + 1 + 4 * nscript).
  destruct (l <=? p4 + 6) eqn:E3; [exact I|].
  destruct (r16_some t (s + p4) W ltac:(lia)) as [gend ->]. destruct (r32_some t (s + p4 + 2) W ltac:(lia)) as [pstart ->].
  destruct (first_err _) eqn:FE2; [exact I|]. cbn [first_err] in FE2. repeat istep.
  set (p5 := p4 + 6 + 4 * npass).
  destruct (pstart <=? p5 + 2) eqn:E4; [exact I|].
  destruct (r16_some t (s + p5) W ltac:(lia)) as [npseudo ->].
  destruct (pstart <=? p5 + 8 + npseudo * 6) eqn:E5; [exact I|].
  destruct (read_pseudos_some t W (N.to_nat npseudo) (s + (p5 + 8)) ltac:(lia)) as [pseudos ->].
  set (p6 := p5 + 8 + 6 * npseudo).
  pose proof (read_class_map_safe t (s + p6) (pstart - p6) version W ltac:(lia)) as Hcm.
  destruct (read_class_map t (s + p6) (pstart - p6) version) as [| |nclass nlinear offs data]; [contradiction|exact I|].
  destruct (pstart - p6 <? N.of_nat (length data)); [exact I|].
  pose proof (read_passes_spec t s l (p4 + 2) pstart jpass ppass spass (b8 g 5) (b8 h 11) boxes W Hin (N.to_nat npass) 0 [] ltac:(lia)) as Hps.
  destruct (read_passes t s l (p4 + 2) pstart (N.to_nat npass) 0 jpass ppass spass (b8 g 5) (b8 h 11) boxes []) as [r|passes].
  - destruct Hps as [Hr1 Hr2]. destruct r; try exact I; [contradiction | exfalso; eapply Hr2; reflexivity].
  - destruct Hps as [Hf Hl]. unfold hdr_ok. cbn [h_apseudo h_abreak h_abidi h_amirror h_spass h_ppass h_jpass h_npass h_bpass h_alig h_passes].
    fold npass spass ppass jpass bpass.
    repeat match goal with |- _ /\ _ => split end; try lia.
    + rewrite Hl. reflexivity.
    + exists pstart. split; [lia | apply Hf; constructor].
Qed.

Corollary read_silf_sub_safe t s l version ng na boxes : mem_wf t -> s + l <= tlen t -> read_silf_sub t s l version ng na boxes <> STrap.
Proof. intros W H E. pose proof (read_silf_sub_spec t s l version ng na boxes W H) as S. rewrite E in S. exact S. Qed.

(* the directory loop.  Invariant at entry i: the cursor is at most 12 + 4 i, the table is at least max(20, 31 i) bytes long, and
   the offset about to be read (the previous entry's [next]) is at least 31 i. *)
Lemma read_silf_dir_safe t version ng na boxes nsilf : mem_wf t -> 20 <= tlen t ->
  forall k i p acc, N.of_nat k + i = nsilf -> p <= 12 + 4 * i -> 31 * i <= tlen t -> (forall off, r32 t p = Some off -> 31 * i <= off) ->
    forall j, snd (read_silf_dir t version ng na boxes nsilf k i p acc) <> Some (j, STrap).
Proof.
  intros W H20. induction k as [|k IH]; intros i p acc Hk Hp Hlen Hoff j; cbn [read_silf_dir]; [cbn [snd]; discriminate|].
  destruct (r32_some t p W ltac:(lia)) as [offset Eo]. rewrite Eo. specialize (Hoff offset Eo).
  destruct (i =? nsilf - 1) eqn:Elast.
  - (* the last entry: next = the table size *)
    destruct ((tlen t <? tlen t) || (tlen t <=? offset)) eqn:E1; [cbn [snd]; discriminate|].
    pose proof (read_silf_sub_spec t offset (tlen t - offset) version ng na boxes W ltac:(lia)) as S.
    destruct (read_silf_sub t offset (tlen t - offset) version ng na boxes) as [|c| |pi|h]; try (cbn [snd]; discriminate); [contradiction|].
    assert (k = O) by lia. subst k. cbn [read_silf_dir snd]. discriminate.
  - destruct (r32_some t (p + 4) W ltac:(lia)) as [next En]. rewrite En.
    destruct ((tlen t <? next) || (next <=? offset)) eqn:E1; [cbn [snd]; discriminate|].
    pose proof (read_silf_sub_spec t offset (next - offset) version ng na boxes W ltac:(lia)) as S.
    destruct (read_silf_sub t offset (next - offset) version ng na boxes) as [|c| |pi|h]; try (cbn [snd]; discriminate); [contradiction|].
    destruct S as (_ & _ & _ & _ & _ & _ & _ & _ & _ & _ & Hl31 & _).
    apply IH; try lia. intros off Eoff. rewrite En in Eoff. injection Eoff as <-. lia.
Qed.

Theorem read_silf_table_safe t ng na boxes : mem_wf t -> forall j, snd (read_silf_table t ng na boxes) <> Some (j, STrap).
Proof.
  intros W j. unfold read_silf_table.
  destruct (tlen t =? 0); [cbn [snd]; discriminate|].
  destruct (tlen t <? 20) eqn:E20; [cbn [snd]; discriminate|].
  destruct (r32_some t 0 W ltac:(lia)) as [version ->].
  destruct (version <? 0x00020000); [cbn [snd]; discriminate|].
  set (p := if 0x00030000 <=? version then 8 else 4).
  destruct (r16_some t p W ltac:(unfold p; destruct (0x00030000 <=? version); lia)) as [nsilf ->].
  apply read_silf_dir_safe; try assumption; try lia; try (unfold p; destruct (0x00030000 <=? version); lia); intros; lia.
Qed.

(* every accepted subtable: attribute numbers below numAttrs, pass numbers ordered and at most 128, each pass slice inside the subtable *)
Lemma read_silf_dir_ok t version ng na boxes nsilf : mem_wf t ->
  forall k i p acc, Forall (fun h => exists l, l <= tlen t /\ hdr_ok l na h) acc ->
    Forall (fun h => exists l, l <= tlen t /\ hdr_ok l na h) (fst (read_silf_dir t version ng na boxes nsilf k i p acc)).
Proof.
  intros W. induction k as [|k IH]; intros i p acc F; cbn [read_silf_dir]; [cbn [fst]; apply Forall_rev; exact F|].
  destruct (r32 t p) as [offset|]; [|cbn [fst]; apply Forall_rev; exact F].
  destruct (if i =? nsilf - 1 then Some (tlen t) else r32 t (p + 4)) as [next|]; [|cbn [fst]; apply Forall_rev; exact F].
  destruct ((tlen t <? next) || (next <=? offset)) eqn:E1; [cbn [fst]; apply Forall_rev; exact F|].
  pose proof (read_silf_sub_spec t offset (next - offset) version ng na boxes W ltac:(lia)) as S.
  destruct (read_silf_sub t offset (next - offset) version ng na boxes) as [|c| |pi|h]; try (cbn [fst]; apply Forall_rev; exact F).
  apply IH. constructor; [|exact F]. exists (next - offset). split; [lia | exact S].
Qed.

Theorem read_silf_table_ok t ng na boxes : mem_wf t ->
  Forall (fun h => exists l, l <= tlen t /\ hdr_ok l na h) (fst (read_silf_table t ng na boxes)).
Proof.
  intros W. unfold read_silf_table.
  destruct (tlen t =? 0); [constructor|]. destruct (tlen t <? 20); [constructor|].
  destruct (r32 t 0) as [version|]; [|constructor]. destruct (version <? 0x00020000); [constructor|].
  destruct (r16 t _) as [nsilf|]; [|constructor]. apply read_silf_dir_ok; [exact W | constructor].
Qed.
