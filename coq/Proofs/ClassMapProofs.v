(* Proofs/ClassMapProofs.v — Silf::readClassMap never reads outside the data_len bytes it is given, whatever they hold. *)
From GR Require Import Base.Bytes Base.Mem Base.MemFacts Model.ClassMapModel.
From Coq Require Import NArith List Lia ZifyN ZifyBool ZifyNat Bool.
Import ListNotations.
Local Open Scope N_scope.
Ltac Zify.zify_post_hook ::= Z.to_euclidean_division_equations.

Lemma rdT_some (wide : bool) t i : mem_wf t -> i + (if wide then 4 else 2) <= tlen t -> exists v, rdT wide t i = Some v.
Proof. intros W H. unfold rdT. destruct wide; [apply r32_some|apply r16_some]; assumption. Qed.

Lemma read_offs_safe (wide : bool) t cls_off max_off : mem_wf t -> forall k p acc, p + (if wide then 4 else 2) * N.of_nat k <= tlen t ->
  read_offs k wide t p cls_off max_off acc <> None.
Proof.
  intros W. induction k as [|k IH]; intros p acc H; cbn [read_offs]; [discriminate|].
  destruct (rdT_some wide t p W ltac:(destruct wide; lia)) as [raw ->].
  destruct (max_off <? _); [discriminate|]. apply IH. destruct wide; lia.
Qed.
Lemma read_words_safe t : mem_wf t -> forall k p acc, p + 2 * N.of_nat k <= tlen t -> read_words k t p acc <> None.
Proof.
  intros W. induction k as [|k IH]; intros p acc H; cbn [read_words]; [discriminate|].
  destruct (r16_some t p W ltac:(lia)) as [v ->]. apply IH. lia.
Qed.

Theorem read_class_map_safe t start dlen version : mem_wf t -> start + dlen <= tlen t -> read_class_map t start dlen version <> CTrap.
Proof.
  intros W Hin. unfold read_class_map. destruct (dlen <? 4) eqn:E0; [discriminate|].
  destruct (r16_some t start W ltac:(lia)) as [ncls ->]. destruct (r16_some t (start + 2) W ltac:(lia)) as [nlin ->].
  cbv zeta. set (wide := 0x40000 <=? version). clearbody wide.
  destruct ((ncls <? nlin) || (dlen - 4 <? (ncls + 1) * (if wide then 4 else 2))) eqn:E1; [discriminate|].
  apply orb_false_elim in E1. destruct E1 as [E1 E2].
  destruct (rdT_some wide t (start + 4) W ltac:(destruct wide; lia)) as [first ->].
  destruct (rdT_some wide t (start + 4 + (if wide then 4 else 2) * ncls) W ltac:(destruct wide; lia)) as [lst ->].
  set (cls_off := 4 + (if wide then 4 else 2) * (ncls + 1)). set (max_off := sub32 lst cls_off / 2).
  destruct (negb (first =? cls_off) || ((dlen - cls_off) / 2 <? max_off)) eqn:E3; [discriminate|].
  apply orb_false_elim in E3. destruct E3 as [E3 E4].
  pose proof (read_offs_safe wide t cls_off max_off W (S (N.to_nat ncls)) (start + 4) [] ltac:(unfold cls_off in *; destruct wide; lia)) as Ho.
  destruct (read_offs (S (N.to_nat ncls)) wide t (start + 4) cls_off max_off []) as [[offs|]|]; [|discriminate|contradiction].
  match goal with |- (if ?c then CReject else _) <> CTrap => destruct c; [discriminate|] end.
  match goal with |- (if ?c then CReject else _) <> CTrap => destruct c; [discriminate|] end.
  pose proof (read_words_safe t W (N.to_nat max_off) (start + cls_off) [] ltac:(unfold cls_off in *; destruct wide; lia)) as Hw.
  destruct (read_words (N.to_nat max_off) t (start + cls_off) []) as [data|]; [|contradiction].
  destruct (lookups_ok _ _ _); discriminate.
Qed.
