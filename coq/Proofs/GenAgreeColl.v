(* Proofs/GenAgreeColl.v — the limit clause of C17, proved directly over the definitions that tools/gen_src.py regenerates from
   ShiftCollider::initSlot and ShiftCollider::resolve (Gen/GenColl.v): whatever position closest() picks inside the range of
   an axis, the shift that resolve() derives from it keeps offset + shift inside the limit rectangle. *)
From GR Require Import Base.Bytes Gen.GenColl.
From Coq Require Import ZArith Lia.
Local Open Scope Z_scope.

Section Limit.
  Variables Lbx Lby Ltx Lty ox oy sx sy : Z.
  (* the limit rectangle is well formed and the glyph currently sits inside it *)
  Hypothesis Hwx : Lbx <= Ltx.
  Hypothesis Hwy : Lby <= Lty.
  Hypothesis Hin : Lbx <= ox + sx <= Ltx /\ Lby <= oy + sy <= Lty.

  (* twice (offset + new shift) lies inside twice the limit rectangle *)
  Definition inside2 (t : Z * Z) : Prop := 2 * Lbx <= 2 * ox + fst t <= 2 * Ltx /\ 2 * Lby <= 2 * oy + snd t <= 2 * Lty.

  Lemma axis0 p : range_mn0 Lbx Lby Ltx Lty ox oy sx sy <= p <= range_mx0 Lbx Lby Ltx Lty ox oy sx sy -> inside2 (testp2_0 sx sy (p - tbase0 ox oy)).
  Proof. unfold range_mn0, range_mx0, range_shift0, tbase0, testp2_0, inside2. cbn [fst snd]. lia. Qed.
  Lemma axis1 p : range_mn1 Lbx Lby Ltx Lty ox oy sx sy <= p <= range_mx1 Lbx Lby Ltx Lty ox oy sx sy -> inside2 (testp2_1 sx sy (p - tbase1 ox oy)).
  Proof. unfold range_mn1, range_mx1, range_shift1, tbase1, testp2_1, inside2. cbn [fst snd]. lia. Qed.
  Lemma axis2 p : range_mn2 Lbx Lby Ltx Lty ox oy sx sy <= p <= range_mx2 Lbx Lby Ltx Lty ox oy sx sy -> inside2 (testp2_2 sx sy (p - tbase2 ox oy)).
  Proof. unfold range_mn2, range_mx2, range_shift2, tbase2, testp2_2, inside2. cbn [fst snd]. lia. Qed.
  Lemma axis3 p : range_mn3 Lbx Lby Ltx Lty ox oy sx sy <= p <= range_mx3 Lbx Lby Ltx Lty ox oy sx sy -> inside2 (testp2_3 sx sy (p - tbase3 ox oy)).
  Proof. unfold range_mn3, range_mx3, range_shift3, tbase3, testp2_3, inside2. cbn [fst snd]. lia. Qed.

  (* and every range is non-empty and contains the current position, so the zone is well formed (hypothesis of C17_zones_reachable) *)
  Lemma ranges_wf :
    range_mn0 Lbx Lby Ltx Lty ox oy sx sy <= range_mx0 Lbx Lby Ltx Lty ox oy sx sy /\ range_mn1 Lbx Lby Ltx Lty ox oy sx sy <= range_mx1 Lbx Lby Ltx Lty ox oy sx sy /\
    range_mn2 Lbx Lby Ltx Lty ox oy sx sy <= range_mx2 Lbx Lby Ltx Lty ox oy sx sy /\ range_mn3 Lbx Lby Ltx Lty ox oy sx sy <= range_mx3 Lbx Lby Ltx Lty ox oy sx sy.
  Proof. unfold range_mn0, range_mx0, range_mn1, range_mx1, range_mn2, range_mx2, range_mn3, range_mx3, range_shift0, range_shift1, range_shift2, range_shift3. lia. Qed.
End Limit.

Theorem coll_limit_respected : forall Lbx Lby Ltx Lty ox oy sx sy, Lbx <= Ltx -> Lby <= Lty -> (Lbx <= ox + sx <= Ltx /\ Lby <= oy + sy <= Lty) ->
  (forall p, range_mn0 Lbx Lby Ltx Lty ox oy sx sy <= p <= range_mx0 Lbx Lby Ltx Lty ox oy sx sy -> inside2 Lbx Lby Ltx Lty ox oy (testp2_0 sx sy (p - tbase0 ox oy))) /\
  (forall p, range_mn1 Lbx Lby Ltx Lty ox oy sx sy <= p <= range_mx1 Lbx Lby Ltx Lty ox oy sx sy -> inside2 Lbx Lby Ltx Lty ox oy (testp2_1 sx sy (p - tbase1 ox oy))) /\
  (forall p, range_mn2 Lbx Lby Ltx Lty ox oy sx sy <= p <= range_mx2 Lbx Lby Ltx Lty ox oy sx sy -> inside2 Lbx Lby Ltx Lty ox oy (testp2_2 sx sy (p - tbase2 ox oy))) /\
  (forall p, range_mn3 Lbx Lby Ltx Lty ox oy sx sy <= p <= range_mx3 Lbx Lby Ltx Lty ox oy sx sy -> inside2 Lbx Lby Ltx Lty ox oy (testp2_3 sx sy (p - tbase3 ox oy))).
Proof.
  intros Lbx Lby Ltx Lty ox oy sx sy Hwx Hwy Hin. split; [|split; [|split]]; intros q Hq; [apply axis0 | apply axis1 | apply axis2 | apply axis3]; assumption.
Qed.

(* the kerning path: whatever kern is needed, the clamp of KernCollider::resolve keeps offset-of-earlier-passes + kern inside the x range of
   the limit rectangle KernCollider::initSlot was given *)
Lemma kern_limit_respected Lbx Ltx ox needed : Lbx <= Ltx -> Lbx <= ox + kern_result Lbx Ltx ox needed <= Ltx.
Proof. unfold kern_result. lia. Qed.
