(* Proofs/CmapCache.v — the cmap cache fill loop (cache_subtable), for ARBITRARY iteration / lookup functions:
   termination within the binary fuel, and — under an interface that says what NextCodepoint may skip —
   agreement of the filled cache with the direct lookup on every code point up to the limit. *)
From GR Require Import Base.Bytes Model.CmapModel.
From Coq Require Import FMapPositive Lia ZifyN ZifyBool ZifyNat.
Local Open Scope N_scope.

Lemma cget_cset_same m c g : cget (cset m c g) c = g.
Proof. unfold cget, cset. rewrite PositiveMap.gss. reflexivity. Qed.
Lemma cget_cset_other m c d g : c <> d -> cget (cset m c g) d = cget m d.
Proof.
  intros H. unfold cget, cset. rewrite PositiveMap.gso; [reflexivity|].
  intros E. apply H. apply (f_equal Pos.pred_N) in E. rewrite !N.pos_pred_succ in E. symmetry. exact E.
Qed.

Section Loop.
  Variable nextf : N -> N -> option (N * N).
  Variable lookf : N -> N -> option N.
  Variable limit : N.
  Let step := cache_step nextf lookf limit.

  Fixpoint iter_nat (k : nat) (s : cstate) : cstate := match k with O => s | S k' => iter_nat k' (step s) end.

  Lemma pos_iter_nat p s : Pos.iter step s p = iter_nat (Pos.to_nat p) s.
  Proof.
    rewrite Pos2Nat.inj_iter. generalize (Pos.to_nat p). intros k. revert s.
    induction k as [|k IH]; intros s; cbn [nat_rect iter_nat]; [reflexivity|].
    rewrite <- IH. clear IH. revert s. induction k as [|k IH]; intros s; cbn [nat_rect]; [reflexivity|].
    rewrite IH. reflexivity.
  Qed.

  Lemma step_not_run s : (forall m cp key, s <> CRun m cp key) -> step s = s.
  Proof. destruct s; intros H; [exfalso; eapply H; reflexivity|reflexivity|reflexivity]. Qed.

  Lemma iter_fixed k s : (forall m cp key, s <> CRun m cp key) -> iter_nat k s = s.
  Proof. induction k as [|k IH]; intros H; cbn [iter_nat]; [reflexivity|]. rewrite step_not_run by exact H. apply IH. exact H. Qed.

  (* progress: each step of a running state strictly increases the code point *)
  Lemma step_progress m cp key m' cp' key' : step (CRun m cp key) = CRun m' cp' key' -> cp < cp' /\ cp <= limit.
  Proof.
    unfold step, cache_step. destruct (limit <? cp) eqn:E1; [discriminate|].
    destruct (lookf cp key) as [g|]; [|discriminate].
    destruct (cp =? limit) eqn:E2; [discriminate|].
    destruct (if cp =? 0 then Some (0, key) else nextf cp key) as [[nx k']|]; [|discriminate].
    destruct (nx <=? cp) eqn:E3; intros H; inversion H; subst; lia.
  Qed.

  Lemma iter_run_bound k : forall m cp key m' cp' key', iter_nat k (CRun m cp key) = CRun m' cp' key' ->
    k = O \/ cp + N.of_nat k <= limit + 1.
  Proof.
    induction k as [|k IH]; intros m cp key m' cp' key' H; cbn [iter_nat] in H; [left; reflexivity|right].
    destruct (step (CRun m cp key)) as [m1 cp1 key1| |] eqn:E.
    - apply step_progress in E. destruct E as [E1 E2].
      destruct (IH _ _ _ _ _ _ H) as [->|B]; lia.
    - rewrite iter_fixed in H by discriminate. discriminate.
    - rewrite iter_fixed in H by discriminate. discriminate.
  Qed.

  (* termination within the fuel, whatever nextf / lookf do *)
  Lemma iter_terminates_gen (p : positive) m cp key : limit + 1 < N.pos p ->
    forall m' cp' key', Pos.iter step (CRun m cp key) p <> CRun m' cp' key'.
  Proof.
    intros Hp m' cp' key' H. rewrite pos_iter_nat in H.
    assert (Hf : N.of_nat (Pos.to_nat p) = N.pos p) by apply positive_nat_N.
    remember (Pos.to_nat p) as k eqn:Ek. clear Ek.
    apply iter_run_bound in H. destruct H as [->|H]; [cbn in Hf; discriminate|lia].
  Qed.

  Theorem cache_run_terminates m cp key : limit <= 0x10FFFF ->
    forall m' cp' key', cache_run nextf lookf limit (CRun m cp key) <> CRun m' cp' key'.
  Proof.
    intros Hl. unfold cache_run. fold step. apply iter_terminates_gen. unfold cache_fuel. lia.
  Qed.

  Theorem cache_subtable_terminates m : limit <= 0x10FFFF -> cache_subtable nextf lookf limit m <> Some None.
  Proof.
    intros Hl. unfold cache_subtable. destruct (nextf 0 0) as [[c0 k0]|]; [|discriminate].
    remember (cache_run nextf lookf limit (CRun m c0 k0)) as r eqn:E. symmetry in E.
    destruct r as [m' cp' key'| |]; cbn [cache_result].
    - exfalso. exact (cache_run_terminates _ _ _ Hl _ _ _ E).
    - intros X; discriminate X.
    - intros X; discriminate X.
  Qed.

  (* ------------------------------------------------------------ agreement with the direct lookup *)
  (* interface: [dl c] is the direct lookup; [G c key] says that the range key [key] may be used for code point [c] *)
  Variable dl : N -> N.
  Variable G : N -> N -> Prop.
  Hypothesis G_look : forall c key, c <= limit -> G c key -> lookf c key = Some (dl c).
  Hypothesis G_zero : forall c, c <= limit -> G c 0.
  (* keys handed out by nextf are good for the code point they come with *)
  Hypothesis next_good : forall c key n k, 0 < c -> c < limit -> G c key -> nextf c key = Some (n, k) -> c < n -> n <= limit -> G n k.
  (* what nextf skips is unmapped *)
  Hypothesis next_skips : forall c key n k, 0 < c -> c < limit -> G c key -> nextf c key = Some (n, k) -> forall d, c < d -> d < n -> d <= limit -> dl d = 0.
  Hypothesis next_total : forall c key, 0 < c -> c < limit -> G c key -> nextf c key <> None.

  (* invariant of a running state: everything below cp is already right in the map; cp's key is good; the map is
     untouched (as initially) from cp upwards *)
  Variable m0 : cmap.
  Definition inv (s : cstate) : Prop :=
    match s with
    | CRun m cp key => (cp <= limit -> G cp key) /\ (forall d, d < cp -> d <= limit -> cget m d = dl d) /\ (forall d, cp <= d \/ limit < d -> cget m d = cget m0 d)
    | CDone m => (forall d, d <= limit -> cget m d = dl d) /\ (forall d, limit < d -> cget m d = cget m0 d)
    | CTrap => False
    end.
  Hypothesis m0_zero : forall d, d <= limit -> dl d = 0 -> cget m0 d = 0.

  Lemma step_inv s : inv s -> inv (step s).
  Proof.
    destruct s as [m cp key|m|]; [|intros H; exact H|intros H; exact H]. cbn [inv].
    intros (Hg & Hlow & Hhigh). unfold step, cache_step.
    destruct (limit <? cp) eqn:E1.
    - cbn [inv]. split; [intros d Hd; apply Hlow; lia|intros d Hd; apply Hhigh; lia].
    - assert (Hg' : G cp key) by (apply Hg; lia). rewrite (G_look cp key ltac:(lia) Hg').
      assert (Hstore_low : forall d, d <= cp -> d <= limit -> cget (cset m cp (dl cp)) d = dl d).
      { intros d Hd Hd2. destruct (N.eq_dec cp d) as [->|Hne]; [apply cget_cset_same|].
        rewrite cget_cset_other by exact Hne. apply Hlow; lia. }
      assert (Hstore_high : forall d, cp < d \/ limit < d -> cget (cset m cp (dl cp)) d = cget m0 d).
      { intros d Hd. rewrite cget_cset_other by lia. apply Hhigh. lia. }
      destruct (cp =? limit) eqn:E2.
      + cbn [inv]. split; [intros d Hd; apply Hstore_low; lia|intros d Hd; apply Hstore_high; lia].
      + destruct (cp =? 0) eqn:E3.
        * assert (E4 : (0 <=? cp) = true) by lia. rewrite E4. cbn [inv].
          split; [intros _; apply G_zero; lia|]. split.
          -- intros d Hd Hd2. apply Hstore_low; lia.
          -- intros d Hd. apply Hstore_high. lia.
        * destruct (nextf cp key) as [[nx k']|] eqn:En;
            [|exfalso; apply (next_total cp key); [lia|lia|exact Hg'|exact En]].
          destruct (nx <=? cp) eqn:E5; cbn [inv].
          -- split; [intros _; apply G_zero; lia|]. split.
             ++ intros d Hd Hd2. apply Hstore_low; lia.
             ++ intros d Hd. apply Hstore_high. lia.
          -- split; [intros Hnl; apply (next_good cp key nx k'); try assumption; lia|]. split.
             ++ intros d Hd Hd2.
                destruct (N.le_gt_cases d cp) as [Hle|Hgt]; [apply Hstore_low; lia|].
                rewrite Hstore_high by lia.
                assert (Hz : dl d = 0) by (apply (next_skips cp key nx k'); try assumption; lia).
                rewrite Hz. apply m0_zero; [lia|exact Hz].
             ++ intros d Hd. apply Hstore_high. lia.
  Qed.

  Lemma iter_inv k : forall s, inv s -> inv (iter_nat k s).
  Proof. induction k as [|k IH]; intros s H; cbn [iter_nat]; [exact H|]. apply IH. apply step_inv. exact H. Qed.

  (* the first code point: NextCodepoint(0) *)
  Hypothesis first_good : forall c0 k0, nextf 0 0 = Some (c0, k0) -> (c0 <= limit -> G c0 k0) /\ (forall d, d < c0 -> d <= limit -> dl d = 0).

  Theorem cache_subtable_agrees_G m : limit <= 0x10FFFF -> cache_subtable nextf lookf limit m0 = Some (Some m) ->
    (forall d, d <= limit -> cget m d = dl d) /\ (forall d, limit < d -> cget m d = cget m0 d).
  Proof.
    intros Hl. unfold cache_subtable. pose proof first_good as FG.
    destruct (nextf 0 0) as [[c0 k0]|] eqn:E0; [|discriminate].
    destruct (FG c0 k0 eq_refl) as [Fg Fz].
    assert (Hi : inv (CRun m0 c0 k0)).
    { cbn [inv]. split; [exact Fg|]. split; [|reflexivity].
      intros d Hd Hd2. rewrite (Fz d Hd Hd2). apply m0_zero; [exact Hd2|apply Fz; assumption]. }
    unfold cache_run. fold step. generalize cache_fuel. intros pf. rewrite pos_iter_nat.
    remember (Pos.to_nat pf) as kf eqn:Ek. clear Ek.
    pose proof (iter_inv kf _ Hi) as Hf.
    destruct (iter_nat kf (CRun m0 c0 k0)) as [m' cp' key'|m'|]; cbn [cache_result]; try discriminate.
    intros H. inversion H; subst. exact Hf.
  Qed.

  Hypothesis first_total : nextf 0 0 <> None.
  Theorem cache_subtable_no_trap_G : cache_subtable nextf lookf limit m0 <> None.
  Proof.
    unfold cache_subtable. pose proof first_good as FG. pose proof first_total as FT.
    destruct (nextf 0 0) as [[c0 k0]|] eqn:E0.
    - destruct (FG c0 k0 eq_refl) as [Fg Fz].
      assert (Hi : inv (CRun m0 c0 k0)).
      { cbn [inv]. split; [exact Fg|]. split; [|reflexivity].
        intros d Hd Hd2. rewrite (Fz d Hd Hd2). apply m0_zero; [exact Hd2|apply Fz; assumption]. }
      unfold cache_run. fold step. generalize cache_fuel. intros pf. rewrite pos_iter_nat.
      remember (Pos.to_nat pf) as kf eqn:Ek. clear Ek.
      pose proof (iter_inv kf _ Hi) as Hf.
      destruct (iter_nat kf (CRun m0 c0 k0)); cbn [cache_result]; try discriminate.
      cbn [inv] in Hf. destruct Hf.
    - exfalso. exact (FT eq_refl).
  Qed.
End Loop.

(* the interface stated with the weakest possible key predicate: a key is good when the keyed lookup returns the direct result *)
Definition good (lookf : N -> N -> option N) (dl : N -> N) (c key : N) : Prop := lookf c key = Some (dl c).
Theorem cache_subtable_agrees (nextf : N -> N -> option (N * N)) (lookf : N -> N -> option N) (limit : N) (dl : N -> N) :
    (forall c, c <= limit -> lookf c 0 = Some (dl c)) ->
    (forall c key n k, 0 < c -> c < limit -> good lookf dl c key -> nextf c key = Some (n, k) -> c < n -> n <= limit -> good lookf dl n k) ->
    (forall c key n k, 0 < c -> c < limit -> good lookf dl c key -> nextf c key = Some (n, k) ->
                       forall d, c < d -> d < n -> d <= limit -> dl d = 0) ->
    (forall c key, 0 < c -> c < limit -> good lookf dl c key -> nextf c key <> None) ->
    forall m0, (forall d, d <= limit -> dl d = 0 -> cget m0 d = 0) ->
    (forall c0 k0, nextf 0 0 = Some (c0, k0) -> (c0 <= limit -> good lookf dl c0 k0) /\ (forall d, d < c0 -> d <= limit -> dl d = 0)) ->
    forall m, limit <= 0x10FFFF -> cache_subtable nextf lookf limit m0 = Some (Some m) ->
    (forall d, d <= limit -> cget m d = dl d) /\ (forall d, limit < d -> cget m d = cget m0 d).
Proof.
  intros Hdl Hg Hs Ht m0 Hm0 Hf m. apply (cache_subtable_agrees_G nextf lookf limit dl (good lookf dl)); try assumption.
  intros c key _ H. exact H.
Qed.
