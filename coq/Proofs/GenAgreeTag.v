(* Proofs/GenAgree.v — tie A obligations: each definition regenerated from /repo's source on this run
   (coq/Gen/*.v, written by tools/gen_src.py + tools/cxx2v.py) equals the hand-written model that the
   property theorems are about.  A source change that alters one of these functions changes Gen and
   breaks the corresponding lemma here. *)
From GR Require Import Base.Bytes Model.TagModel Gen.GenTag.
Local Open Scope N_scope.

Lemma gen_zeropad_agrees x : GenTag.zeropad x = TagModel.zeropad x.
Proof. reflexivity. Qed.

Lemma gen_script_strip_agrees x : GenTag.script_strip x = TagModel.zeropad x.
Proof.
  unfold GenTag.script_strip, TagModel.zeropad. cbv zeta.
  repeat match goal with |- context [if ?c then _ else _] => destruct c end; reflexivity.
Qed.


(* the two API entry points that take a tag: what they look up is the zero-padded tag (regenerated from their bodies) *)
Lemma gen_find_fref_key_agrees x : GenTag.find_fref_key x = TagModel.zeropad x.
Proof. unfold find_fref_key. apply gen_zeropad_agrees. Qed.
Lemma gen_lang_key_agrees x : GenTag.lang_key x = TagModel.zeropad x.
Proof. unfold lang_key. apply gen_zeropad_agrees. Qed.
