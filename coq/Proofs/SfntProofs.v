(* Proofs/SfntProofs.v — the file face never reads outside the file, whatever the bytes. *)
From GR Require Import Base.Bytes Model.SfntModel.
From Coq Require Import NArith Bool Lia ZifyN ZifyBool ZifyNat.
Local Open Scope N_scope.

Lemma fread_inside f o k l : fread f o k = Some l -> o + k <= flen f /\ length l = N.to_nat k /\ l = firstn (N.to_nat k) (skipn (N.to_nat o) f).
Proof.
  unfold fread. destruct (N.leb_spec (o + k) (flen f)) as [H|H]; [|discriminate]. intros E. injection E as <-.
  split; [exact H|]. split; [|reflexivity]. rewrite firstn_length, skipn_length. unfold flen in H. lia.
Qed.

(* a table handed out by the file face is a slice of the file: its bytes are file bytes at [off, off + len) with off + len <= file length *)
Theorem file_table_inside f tag t : file_table f tag = Some t ->
  exists off len, off + len <= flen f /\ t = firstn (N.to_nat len) (skipn (N.to_nat off) f) /\ length t = N.to_nat len.
Proof.
  unfold file_table. destruct (open_file f) as [ff|]; [|discriminate]. unfold get_table.
  destruct (table_info ff tag) as [[off len]|]; [|discriminate].
  destruct ((flen f <? off) || (flen f - off <? len)); [discriminate|]. intros H.
  destruct (fread_inside _ _ _ _ H) as [H1 [H2 H3]]. exists off, len. repeat split; assumption.
Qed.

(* opening: the header and the directory are slices of the file too, and the directory has exactly num_tables entries *)
Theorem open_file_inside f ff : open_file f = Some ff ->
  length (ff_header ff) = 12%nat /\ length (ff_dir ff) = N.to_nat (ff_ntables ff * 16) /\ 12 + ff_ntables ff * 16 <= flen f.
Proof.
  unfold open_file. destruct (fread f 0 HEADER_LEN) as [h|] eqn:Eh; [|discriminate].
  destruct (negb (be32 h 0 =? TrueTypeWin)); [discriminate|].
  destruct (fread f HEADER_LEN (be16 h 4 * ENTRY_LEN)) as [d|] eqn:Ed; [|discriminate]. intros H. injection H as <-. cbn [ff_header ff_dir ff_ntables].
  destruct (fread_inside _ _ _ _ Eh) as [A1 [A2 _]]. destruct (fread_inside _ _ _ _ Ed) as [B1 [B2 _]].
  unfold HEADER_LEN, ENTRY_LEN in *. repeat split; [exact A2 | exact B2 | lia].
Qed.

(* the directory scan reads only inside the directory it was given *)
Lemma find_entry_reads_inside d : forall k i tag r, find_entry d k i tag = Some r -> exists j, (i <= j < i + k)%nat /\ be32 d (16 * j) = tag /\ r = (be32 d (16 * j + 8), be32 d (16 * j + 12)).
Proof.
  induction k as [|k IH]; intros i tag r H; cbn [find_entry] in H; [discriminate|].
  destruct (N.eqb_spec (be32 d (16 * i)) tag) as [E|E].
  - injection H as <-. exists i. repeat split; [lia | lia | exact E].
  - destruct (IH _ _ _ H) as [j [Hj [H1 H2]]]. exists j. repeat split; [lia | lia | exact H1 | exact H2].
Qed.

Theorem table_info_entry_inside ff tag off len : length (ff_dir ff) = N.to_nat (ff_ntables ff * 16) -> table_info ff tag = Some (off, len) ->
  exists j, (16 * j + 16 <= length (ff_dir ff))%nat /\ ff_ntables ff <= 40.
Proof.
  unfold table_info, MAX_TABLES. intros Hl. destruct (N.ltb_spec 40 (ff_ntables ff)) as [|Hn]; [discriminate|]. intros H.
  destruct (find_entry_reads_inside _ _ _ _ _ H) as [j [Hj _]]. exists j. split; [lia | exact Hn].
Qed.
