(* Proofs/UtfSweep8.v — exhaustive evaluation over all code points below 0x110000 (a finite domain; the bound is in the statement):
   every scalar value round-trips, every surrogate code point, encoded as three bytes, is refused *)
From GR Require Import Base.Bytes Base.Sweep Model.UtfModel.
From Coq Require Import Lia.
Local Open Scope N_scope.

Definition got_is (a : option got) (u : N) (l : nat) : bool :=
  match a with Some g => (g_usv g =? u) && Nat.eqb (g_len g) l && g_ok g | None => false end.

Lemma got_is_spec a u l : got_is a u l = true -> a = Some (mkgot u l true).
Proof.
  unfold got_is. destruct a as [[u' l' ok]|]; [|discriminate]. cbn [g_usv g_len g_ok].
  intros H. apply andb_prop in H. destruct H as [H Hok]. apply andb_prop in H. destruct H as [Hu Hl].
  apply N.eqb_eq in Hu. apply Nat.eqb_eq in Hl. subst. reflexivity.
Qed.

(* a complete canonical tail: whatever precedes it, validate8 accepts the region *)
Definition complete_tail (m : units) : bool :=
  match rev m with
  | [] => false
  | z :: r1 =>
      if z <? 0x80 then true else if 0xC0 <=? z then false else
      match r1 with
      | [] => false
      | y :: r2 =>
          if y <? 0x80 then true else if 0xE0 <=? y then false else
          if 0xC0 <=? y then true else
          match r2 with
          | [] => false
          | x :: _ => if x <? 0x80 then true else if 0xF0 <=? x then false else true
          end
      end
  end.

Lemma complete_tail_validate p m : complete_tail m = true -> validate8 (p ++ m) = true.
Proof.
  unfold complete_tail, validate8. rewrite rev_app_distr.
  destruct (rev m) as [|z [|y [|x r]]]; cbn [app]; try discriminate.
  - destruct (z <? 0x80); [reflexivity|]. destruct (0xC0 <=? z); discriminate.
  - destruct (z <? 0x80); [reflexivity|]. destruct (0xC0 <=? z); [discriminate|].
    destruct (y <? 0x80); [reflexivity|]. destruct (0xE0 <=? y); [discriminate|].
    destruct (0xC0 <=? y); [|discriminate]. intros _. destruct (rev p); reflexivity.
  - destruct (z <? 0x80); [reflexivity|]. destruct (0xC0 <=? z); [discriminate|].
    destruct (y <? 0x80); [reflexivity|]. destruct (0xE0 <=? y); [discriminate|].
    destruct (0xC0 <=? y); [reflexivity|]. tauto.
Qed.

Definition got_err (a : option got) : bool := match a with Some g => (g_usv g =? 0xFFFD) && negb (g_ok g) | None => false end.
Definition chk8 (u : N) : bool :=
  if is_surrogate u then got_err (get8 (put8 u))
  else got_is (get8 (put8 u)) u (length (put8 u)) && complete_tail (put8 u) && Nat.leb 1 (length (put8 u)).

Lemma chk8_all : all_below 0x110000 chk8 = true.
Proof. vm_cast_no_check (@eq_refl bool true). Qed.

