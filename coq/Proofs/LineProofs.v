(* Proofs/LineProofs.v — what line breaking and justification can and cannot do to the lines of a segment *)
From GR Require Import Base.Bytes Model.StreamModel Model.LineModel Proofs.StreamProofs.
From Coq Require Import ZArith Lia Permutation.

Lemma split_at_concat p l a b : split_at p l = Some (a, b) -> l = a ++ b.
Proof.
  revert a b. induction l as [|x r IH]; intros a b H; cbn [split_at] in H; [discriminate|].
  destruct (x =? p)%N; [inversion H; reflexivity|].
  destruct (split_at p r) as [[a' b']|]; [|discriminate]. inversion H; subst. cbn [app]. f_equal. apply IH. reflexivity.
Qed.

Lemma break_lines_concat p ls ls' : break_lines p ls = Some ls' -> concat ls' = concat ls.
Proof.
  revert ls'. induction ls as [|l rest IH]; intros ls' H; cbn [break_lines] in H; [discriminate|].
  destruct (split_at p l) as [[a b]|] eqn:E.
  - destruct a as [|x a']; [discriminate|]. inversion H; subst. cbn [concat]. rewrite (split_at_concat _ _ _ _ E). rewrite app_assoc. reflexivity.
  - destruct (break_lines p rest) as [r|]; [|discriminate]. inversion H; subst. cbn [concat]. f_equal. apply IH. reflexivity.
Qed.

Definition no_reverse (o : lop) : Prop := match o with LReverse _ => False | _ => True end.

(* without a reversal, every call leaves the slots and their order exactly as they were: lines are only ever split *)
Theorem lrun_no_reverse ops : forall s s', Forall no_reverse ops -> lrun s ops = LOk s' -> concat (l_lines s') = concat (l_lines s).
Proof.
  induction ops as [|o r IH]; intros s s' Hn H; cbn [lrun] in H; [inversion H; reflexivity|].
  inversion Hn as [|? ? Ho Hr]; subst.
  destruct (lapply s o) as [s1|e] eqn:E; [|discriminate].
  rewrite (IH s1 s' Hr H). destruct o; cbn [lapply] in E; cbn in Ho.
  - destruct (break_lines p (l_lines s)) as [ls|] eqn:Eb; [|discriminate]. inversion E; subst. cbn. apply (break_lines_concat _ _ _ Eb).
  - destruct Ho.
  - inversion E; reflexivity.
Qed.

(* a reversal whose recorded last really is the end of the chain headed by first permutes that one line and no other *)
Lemma reverse_chain_perm f lst marks ls ls' l' : reverse_chain f lst marks ls = Some (Some (ls', l')) ->
  Forall2 (@Permutation sid) ls' ls.
Proof.
  revert ls' l'. induction ls as [|l rest IH]; intros ls' l' H; cbn [reverse_chain] in H; [discriminate|].
  destruct (head_is f l).
  - destruct (negb (last_is lst l)); [discriminate|].
    destruct (negb (Nat.eqb (length marks) (length l))) eqn:El; [discriminate|].
    apply Bool.negb_false_iff, Nat.eqb_eq in El. inversion H; subst. constructor.
    + destruct l as [|x [|y r]]; try reflexivity. apply rev_keep_marks_perm. exact El.
    + clear. induction rest; constructor; [reflexivity|assumption].
  - destruct (reverse_chain f lst marks rest) as [[[r l'']|]|] eqn:E; try discriminate.
    inversion H; subst. constructor; [reflexivity|]. eapply IH. reflexivity.
Qed.

Theorem lapply_reverse_sound s marks s' : lapply s (LReverse marks) = LOk s' -> Forall2 (@Permutation sid) (l_lines s') (l_lines s).
Proof.
  cbn [lapply].
  destruct (match l_first s, l_last s with Some a, Some b => (a =? b)%N | None, None => true | _, _ => false end).
  - intros H. inversion H; subst. clear. induction (l_lines s'); constructor; [reflexivity|assumption].
  - destruct (reverse_chain (l_first s) (l_last s) marks (l_lines s)) as [[[ls l']|]|] eqn:E; try discriminate.
    intros H. inversion H; subst. cbn. eapply reverse_chain_perm. exact E.
Qed.

(* REFUTATION of the unconditional statement: after a cut, a justification that triggers a reversal applies reverseSlots
   to a chain whose recorded m_last is not its end (the model's precondition fails).  Three slots, cut before the second,
   line 0 justified: justify installs first = 0, last = 0 ... the enclosing reversal sees first = 0, last = 2. *)
Theorem cut_then_reverse_is_unsound : exists ops, lrun (linit [0%N; 1%N; 2%N]) ops = LErr LStaleLast.
Proof. exists [LBreak 1%N; LReverse [false]]. vm_compute. reflexivity. Qed.
