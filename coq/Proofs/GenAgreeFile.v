(* Proofs/GenAgreeFile.v — tie A for C01: the bounds test of FileFace::get_table_fn (regenerated from src/FileFace.cpp, Gen/GenFile.v) *)
From GR Require Import Base.Bytes Gen.GenFile.
From Coq Require Import NArith Bool Lia ZifyBool ZifyN.
Local Open Scope N_scope.

(* it lets through exactly the (offset, length) pairs that lie inside the file *)
Lemma gen_file_table_bounds : forall off len flen, GenFile.file_table_refused off len flen = false <-> off + len <= flen.
Proof. intros off len flen. unfold GenFile.file_table_refused. rewrite Bool.orb_false_iff. lia. Qed.
