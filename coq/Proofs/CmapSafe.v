(* Proofs/CmapSafe.v — for ARBITRARY table bytes: once CheckCmapSubtable4/12 accepted a subtable, the lookup
   functions never read outside the table (no trap), for every code point (and every in-range key). *)
From GR Require Import Base.Bytes Base.MemFacts Model.CmapModel.
From Coq Require Import Lia ZifyN ZifyBool ZifyNat.
Local Open Scope N_scope.
Ltac Zify.zify_post_hook ::= Z.to_euclidean_division_equations.

(* ------------------------------------------------------------ format 12 *)
(* what a successful check12 establishes *)
Definition ok12 (t : mem) (o ng : N) : Prop := r32 t (o + 12) = Some ng /\ o + 16 + 12 * ng <= tlen t.

Lemma check12_ok t o : mem_wf t -> tlen t < S64 -> check12 t (Some o) = Some true -> exists ng, ok12 t o ng.
Proof.
  intros W Hsz. unfold check12.
  destruct (sub64 (tlen t) o <? 6) eqn:E1; [discriminate|].
  destruct (r16 t o) as [fmt|] eqn:Ef; [|discriminate]. cbn [bind].
  destruct (negb (fmt =? 12)); [discriminate|].
  destruct (sub64 (tlen t) o <? 28) eqn:E2; [discriminate|].
  destruct (r32 t (o + 4)) as [len|] eqn:El; [|discriminate]. cbn [bind].
  destruct (sub64 (tlen t) o <? len) eqn:E3; [discriminate|].
  destruct (len <? 28) eqn:E4; [discriminate|].
  destruct (r32 t (o + 12)) as [ng|] eqn:Eg; [|discriminate]. cbn [bind].
  destruct ((268435456 <? ng) || negb (len =? (28 + (ng + 4294967296 - 1) mod 4294967296 * 12) mod S64)) eqn:E5; [discriminate|].
  intros _. exists ng. split; [exact Eg|].
  apply (r16_inside t _ _ W) in Ef.
  apply Bool.orb_false_elim in E5. destruct E5 as [E5 E6]. apply Bool.negb_false_iff in E6.
  unfold sub64, S64 in *. lia.
Qed.

Lemma grp_some t o ng i k : mem_wf t -> o + 16 + 12 * ng <= tlen t -> i < ng -> k < 3 -> exists v, grp t o i k = Some v.
Proof. intros W H Hi Hk. unfold grp. apply r32_some; [exact W|lia]. Qed.

Lemma lookup12_loop_safe t o c ng fuel : mem_wf t -> o + 16 + 12 * ng <= tlen t -> forall i, lookup12_loop t o c fuel i ng <> None.
Proof.
  intros W H. induction fuel as [|fuel IH]; intros i; cbn [lookup12_loop]; [discriminate|].
  destruct (ng <=? i) eqn:E; [discriminate|].
  destruct (grp_some t o ng i 0 W H) as [s Hs]; [lia|lia|]. destruct (grp_some t o ng i 1 W H) as [e He]; [lia|lia|].
  destruct (grp_some t o ng i 2 W H) as [g Hg]; [lia|lia|].
  rewrite Hs, He. cbn [bind]. destruct ((s <=? c) && (c <=? e)); [rewrite Hg; discriminate|apply IH].
Qed.

Theorem lookup12_safe t o : mem_wf t -> tlen t < S64 -> check12 t (Some o) = Some true -> forall c key, lookup12 t o c key <> None.
Proof.
  intros W Hsz Hc c key. destruct (check12_ok t o W Hsz Hc) as (ng & Hn & Hb).
  unfold lookup12. rewrite Hn. cbn [bind]. apply lookup12_loop_safe; [exact W|exact Hb].
Qed.

(* ------------------------------------------------------------ format 4 *)
Definition ok4 (t : mem) (o nseg len : N) : Prop :=
  w4 t o 3 = Some (nseg * 2) \/ w4 t o 3 = Some (nseg * 2 + 1).

Lemma check4_ok t o : mem_wf t -> tlen t < S64 -> check4 t (Some o) = Some true ->
  exists sc len, w4 t o 3 = Some sc /\ w4 t o 1 = Some len /\ 0 < sc / 2 /\ 16 + 8 * (sc / 2) <= len /\ o + len <= tlen t.
Proof.
  intros W Hsz. unfold check4.
  destruct (sub64 (tlen t) o <? 6) eqn:E1; [discriminate|].
  destruct (r16 t o) as [fmt|] eqn:Ef; [|discriminate]. cbn [bind].
  destruct (negb (fmt =? 4)); [discriminate|].
  destruct (sub64 (tlen t) o <? 16) eqn:E2; [discriminate|].
  destruct (r16 t (o + 2)) as [len|] eqn:El; [|discriminate]. cbn [bind].
  destruct (sub64 (tlen t) o <? len) eqn:E3; [discriminate|].
  destruct (len <? 16) eqn:E4; [discriminate|].
  destruct (r16 t (o + 6)) as [sc|] eqn:Es; [|discriminate]. cbn [bind].
  destruct ((sc / 2 =? 0) || (len <? 16 + 8 * (sc / 2))) eqn:E5; [discriminate|].
  intros _. exists sc, len. apply (r16_inside t _ _ W) in Ef.
  apply Bool.orb_false_elim in E5. destruct E5 as [E5 E6].
  unfold w4. replace (o + 2 * 3) with (o + 6) by lia. replace (o + 2 * 1) with (o + 2) by lia.
  split; [exact Es|]. split; [exact El|]. unfold sub64, S64 in *. lia.
Qed.

Section F4.
  Variable t : mem. Variable o nseg len : N.
  Hypothesis W : mem_wf t.
  Hypothesis Hlen : 16 + 8 * nseg <= len.
  Hypothesis Hin : o + len <= tlen t.

  Lemma w4_some k : 2 * k + 2 <= len -> exists v, w4 t o k = Some v.
  Proof. intros H. unfold w4. apply r16_some; [exact W|lia]. Qed.

  Lemma bsearch4_safe c fuel : forall left n, 7 <= left -> left + n <= 7 + nseg ->
    bsearch4 t o c fuel left n <> None /\
    forall mid chEnd, bsearch4 t o c fuel left n = Some (Some (mid, chEnd)) -> 7 <= mid /\ mid < 7 + nseg.
  Proof.
    induction fuel as [|fuel IH]; intros left n Hl Hn; cbn [bsearch4]; [split; [discriminate|intros ? ? H; discriminate H]|].
    destruct (n =? 0) eqn:E0; [split; [discriminate|intros ? ? H; discriminate H]|].
    destruct (w4_some (left + n / 2)) as [ce Hce]; [lia|]. rewrite Hce. cbn [bind].
    destruct (c <=? ce).
    - destruct (n / 2 =? 0) eqn:E1.
      + split; [discriminate|]. intros mid chEnd H. inversion H; subst. lia.
      + destruct (w4_some (left + n / 2 - 1)) as [pv Hpv]; [lia|]. rewrite Hpv. cbn [bind].
        destruct (pv <? c).
        * split; [discriminate|]. intros mid chEnd H. inversion H; subst. lia.
        * apply IH; lia.
    - apply IH; lia.
  Qed.

  Theorem lookup4_body_safe c key sc : sc / 2 = nseg -> w4 t o 3 = Some sc -> w4 t o 1 = Some len -> key < nseg ->
    lookup4 t o c key <> None.
  Proof.
    intros Hsc H3 H1 Hk. unfold lookup4. rewrite H3. cbn [bind]. rewrite Hsc.
    assert (Hfound : forall found, (found = None \/ exists mid ce, found = Some (mid, ce) /\ 7 <= mid /\ mid < 7 + nseg) ->
      match found with
      | None => Some 0
      | Some (mid, chEnd) =>
          bind (w4 t o (mid + nseg + 1)) (fun chStart =>
          if (c <=? chEnd) && (chStart <=? c) then
            bind (w4 t o (mid + nseg + 1 + nseg)) (fun delta =>
            bind (w4 t o (mid + nseg + 1 + nseg + nseg)) (fun ro =>
            if ro =? 0 then Some ((delta + c) mod 65536)
            else bind (w4 t o 1) (fun len0 =>
                 if len0 <=? (c - chStart + ro / 2 + (mid + nseg + 1 + nseg + nseg)) * 2 + 1 then Some 0
                 else bind (w4 t o (c - chStart + ro / 2 + (mid + nseg + 1 + nseg + nseg))) (fun g =>
                      Some (if g =? 0 then 0 else (g + delta) mod 65536)))))
          else Some 0)
      end <> None).
    { intros found [->|(mid & ce & -> & Hm1 & Hm2)]; [discriminate|].
      destruct (w4_some (mid + nseg + 1)) as [cs Hcs]; [lia|]. rewrite Hcs. cbn [bind].
      destruct ((c <=? ce) && (cs <=? c)); [|discriminate].
      destruct (w4_some (mid + nseg + 1 + nseg)) as [dl Hdl]; [lia|]. rewrite Hdl. cbn [bind].
      destruct (w4_some (mid + nseg + 1 + nseg + nseg)) as [ro Hro]; [lia|]. rewrite Hro. cbn [bind].
      destruct (ro =? 0); [discriminate|]. rewrite H1. cbn [bind].
      destruct (len <=? (c - cs + ro / 2 + (mid + nseg + 1 + nseg + nseg)) * 2 + 1) eqn:El; [discriminate|].
      destruct (w4_some (c - cs + ro / 2 + (mid + nseg + 1 + nseg + nseg))) as [g Hg]; [lia|]. rewrite Hg. discriminate. }
    destruct (negb (key =? 0)) eqn:Ek.
    - destruct (w4_some (7 + key)) as [ce Hce]; [lia|]. rewrite Hce. cbn [bind].
      apply (Hfound (Some (7 + key, ce))). right. exists (7 + key), ce. split; [reflexivity|lia].
    - destruct (bsearch4_safe c (S (N.to_nat (N.log2 nseg + 2))) 7 nseg) as [Hs Hr]; [lia|lia|].
      destruct (bsearch4 t o c (S (N.to_nat (N.log2 nseg + 2))) 7 nseg) as [[[mid ce]|]|] eqn:Eb; [| |congruence]; cbn [bind].
      + apply (Hfound (Some (mid, ce))). right. exists mid, ce. split; [reflexivity|]. apply (Hr mid ce). reflexivity.
      + discriminate.
  Qed.
End F4.

Theorem lookup4_safe t o : mem_wf t -> tlen t < S64 -> check4 t (Some o) = Some true ->
  forall c key sc, w4 t o 3 = Some sc -> key < sc / 2 -> lookup4 t o c key <> None.
Proof.
  intros W Hsz Hc c key sc Hsc Hk.
  destruct (check4_ok t o W Hsz Hc) as (sc' & len & H3 & H1 & Hpos & Hlen & Hin).
  assert (sc' = sc) by congruence. subst sc'.
  eapply (lookup4_body_safe t o (sc / 2) len W Hlen Hin c key sc); try eassumption. reflexivity.
Qed.
