(* Proofs/Lz4Complete.v — the other half of LZ4 transparency: every block that is a reference encoding of some data AND keeps the block
   format's end-of-block margins (at least MINCODA input bytes after every match header, at least LASTLITERALS literals in the last
   sequence) is accepted by the fast decoder, which returns exactly that data.  With Proofs/Lz4Sound.v: on such blocks the decoder IS the
   reference.  (The blocks outside the margins, and those shorter than MINSRCSIZE, are the recorded finding.) *)
From GR Require Import Base.Bytes Model.Lz4Model Proofs.Lz4Safe Proofs.Lz4Sound Model.DecompModel Proofs.DecompProofs.
From Coq Require Import Lia ZifyN ZifyBool ZifyNat.
Local Open Scope nat_scope.
Ltac Zify.zify_post_hook ::= Z.to_euclidean_division_equations.

(* the end-of-block margins of the LZ4 block format, along the reference parse *)
Fixpoint margins (fuel : nat) (s : list N) : bool :=
  match fuel, s with
  | S f, tok :: r1 =>
      match ref_length (tok / 16)%N r1 with
      | Some (ll, lit) =>
          match skipn ll lit with
          | [] => LASTLITERALS <=? ll
          | _ :: _ :: r4 => match ref_length (tok mod 16)%N r4 with
                            | Some (_, r5) => (MINCODA <=? length r5) && margins f r5
                            | None => false
                            end
          | _ => false
          end
      | None => false
      end
  | _, _ => false
  end.

(* ------------------------------------------------------------ lengths: the unbounded sum read back by the saturating one *)
Lemma ref_len_read_ext s : forall l m r, ref_len s l = Some (m, r) -> (N.of_nat m < U32)%N ->
  read_ext s (N.of_nat l) = (N.of_nat m, r) /\ length r < length s.
Proof.
  induction s as [|b r0 IH]; intros l m r H Hm; cbn [ref_len] in H; [discriminate|]. cbn [read_ext length].
  destruct (b =? 255)%N eqn:Eb.
  - apply N.eqb_eq in Eb. subst b. destruct (IH _ _ _ H Hm) as (Hr & Hlen).
    destruct r0 as [|b2 r0']; [cbn [ref_len] in H; discriminate|].
    assert (Hle : l + 255 <= m).
    { pose proof (read_ext_monotone (b2 :: r0') (N.of_nat (l + 255))) as Hmono. rewrite Hr in Hmono. cbn [fst] in Hmono.
      destruct (N.lt_ge_cases (N.of_nat (l + 255)) U32) as [Hlt|Hge]; [specialize (Hmono Hlt); lia|].
      (* l + 255 >= 2^32 cannot be: the sum only grows *)
      exfalso. clear - H Hm Hge. revert H. generalize (b2 :: r0') as t. intros t. revert m Hm. generalize dependent (l + 255).
      intros n Hn. revert n Hn. induction t as [|c t IHt]; intros n Hn m Hm H; cbn [ref_len] in H; [discriminate|].
      destruct (c =? 255)%N; [apply (IHt (n + 255) ltac:(lia) m Hm H) | injection H as <- _; lia]. }
    assert (E : (N.of_nat l + 255 <? U32)%N = true) by (unfold U32 in *; lia). rewrite E.
    replace (N.of_nat l + 255)%N with (N.of_nat (l + 255)) by lia. split; [exact Hr|lia].
  - injection H as <- <-. assert (E : (N.of_nat l + b <? U32)%N = true) by (unfold U32 in *; lia). rewrite E.
    split; [f_equal; lia|lia].
Qed.

Lemma ref_length_read_literal nib s m r : ref_length nib s = Some (m, r) -> (N.of_nat m < U32)%N ->
  read_literal s nib = (N.of_nat m, r) /\ length r <= length s.
Proof.
  unfold ref_length, read_literal. intros H Hm. destruct (N.eqb_spec nib 15) as [->|Hne].
  - destruct s as [|b s']; [cbn [ref_len] in H; discriminate|].
    destruct (ref_len_read_ext _ _ _ _ H Hm) as (Hr & Hl). change (N.of_nat 15) with 15%N in Hr. split; [exact Hr|lia].
  - injection H as <- <-. destruct s; (split; [f_equal; lia|lia]).
Qed.

(* ------------------------------------------------------------ output accounting of the reference *)
Lemma ref_decode_min fuel : forall s o final, ref_decode fuel s o = Some final -> margins fuel s = true -> length o + LASTLITERALS <= length final.
Proof.
  induction fuel as [|f IH]; intros s o final H Hm; [discriminate|]. destruct s as [|tok r1]; [discriminate|]. cbn [ref_decode margins] in *.
  destruct (ref_length (tok / 16)%N r1) as [[ll lit]|]; [|discriminate].
  destruct (length lit <? ll) eqn:El; [discriminate|]. apply Nat.ltb_ge in El.
  destruct (skipn ll lit) as [|d0 [|d1 r4]] eqn:Es; [| discriminate |].
  - injection H as <-. apply Nat.leb_le in Hm. rewrite app_length, rev_length, firstn_length. lia.
  - destruct (ref_length (tok mod 16)%N r4) as [[ml0 r5]|]; [|discriminate].
    destruct (N.to_nat (d0 + 256 * d1) =? 0); [discriminate|].
    destruct (ref_match (ml0 + MINMATCH) (N.to_nat (d0 + 256 * d1)) (rev (firstn ll lit) ++ o)) as [o1|] eqn:Em; [|discriminate].
    apply Bool.andb_true_iff in Hm. destruct Hm as [_ Hm]. specialize (IH _ _ _ H Hm).
    destruct (ref_match_grows _ _ _ _ Em) as (new & -> & Ln). rewrite !app_length in IH. lia.
Qed.

Lemma u32_minus_exact orem k : k <= orem -> (N.of_nat orem < U32)%N -> u32_of_size_minus orem k = N.of_nat (orem - k).
Proof. intros H1 H2. unfold u32_of_size_minus, U32 in *. lia. Qed.

Lemma ref_len_suffix s : forall l m r, ref_len s l = Some (m, r) -> length r < length s.
Proof.
  induction s as [|b r0 IH]; intros l m r H; cbn [ref_len] in H; [discriminate|]. cbn [length].
  destruct (b =? 255)%N; [specialize (IH _ _ _ H); lia | injection H as _ <-; lia].
Qed.
Lemma ref_length_suffix nib s m r : ref_length nib s = Some (m, r) -> length r <= length s.
Proof.
  unfold ref_length. destruct (nib =? 15)%N; intros H; [apply ref_len_suffix in H; lia | injection H as _ <-; lia].
Qed.
Lemma ref_match_dist n dist o o' : ref_match (S n) dist o = Some o' -> dist <> 0 -> dist <= length o.
Proof.
  cbn [ref_match]. destruct (nth_error o (dist - 1)) eqn:E; [|discriminate]. intros _ Hz.
  assert (dist - 1 < length o) by (apply nth_error_Some; congruence). lia.
Qed.

Section Step.
  Variable f : nat.
  Hypothesis IH : forall s out d orem outr final,
    ref_decode f s outr = Some final -> margins f s = true -> length outr = d -> d + orem = length out -> length final = length out ->
    (N.of_nat (length out) < U32 - 8)%N -> (N.of_nat (length s) < U32 - 1)%N ->
    exists out', loop f s out d orem = Ok (length out) out'.

  Lemma match_complete out1 d1 orem1 outr1 m0 md r5 o1 final :
    ref_match (m0 + MINMATCH) (N.to_nat md) outr1 = Some o1 -> N.to_nat md <> 0 -> ref_decode f r5 o1 = Some final -> margins f r5 = true ->
    length outr1 = d1 -> d1 + orem1 = length out1 -> length final = length out1 ->
    (N.of_nat (length out1) < U32 - 8)%N -> (N.of_nat (length r5) < U32 - 1)%N ->
    exists out',
      (if (d1 <? N.to_nat md) || (u32_of_size_minus orem1 LASTLITERALS <? (N.of_nat m0 + N.of_nat MINMATCH) mod U32)%N || (orem1 <? LASTLITERALS) || (N.to_nat md =? 0)
          || ((N.of_nat m0 + N.of_nat MINMATCH) mod U32 <? N.of_nat MINMATCH)%N then Fail
       else match (if (WS <? N.to_nat md) && (align (N.to_nat ((N.of_nat m0 + N.of_nat MINMATCH) mod U32)) <=? orem1)
                   then overrun_out (words (N.to_nat ((N.of_nat m0 + N.of_nat MINMATCH) mod U32))) out1 d1 (d1 - N.to_nat md)
                   else safe_out (N.to_nat ((N.of_nat m0 + N.of_nat MINMATCH) mod U32)) out1 d1 (d1 - N.to_nat md)) with
            | None => Trap
            | Some out2 => loop f r5 out2 (d1 + N.to_nat ((N.of_nat m0 + N.of_nat MINMATCH) mod U32)) (orem1 - N.to_nat ((N.of_nat m0 + N.of_nat MINMATCH) mod U32))
            end) = Ok (length out1) out'.
  Proof.
    intros Hrm Hz Hdec Hmar Hl Hd Hf Hb Hs.
    destruct (ref_match_grows _ _ _ _ Hrm) as (new & -> & Ln).
    pose proof (ref_decode_min _ _ _ _ Hdec Hmar) as Hmin. rewrite app_length in Hmin. unfold LASTLITERALS in Hmin.
    assert (Hdist : N.to_nat md <= d1).
    { rewrite <- Hl. unfold MINMATCH in Hrm. replace (m0 + 4) with (S (m0 + 3)) in Hrm by lia. exact (ref_match_dist _ _ _ _ Hrm Hz). }
    set (mdn := N.to_nat md) in *.
    assert (Eml : ((N.of_nat m0 + N.of_nat MINMATCH) mod U32)%N = N.of_nat (m0 + MINMATCH)) by (unfold MINMATCH, U32 in *; lia).
    rewrite Eml, Nat2N.id.
    assert (Ec : ((d1 <? mdn) || (u32_of_size_minus orem1 LASTLITERALS <? N.of_nat (m0 + MINMATCH))%N || (orem1 <? LASTLITERALS) || (mdn =? 0)
                  || (N.of_nat (m0 + MINMATCH) <? N.of_nat MINMATCH)%N) = false).
    { rewrite (u32_minus_exact orem1 LASTLITERALS) by (unfold LASTLITERALS, MINMATCH, U32 in *; lia).
      unfold LASTLITERALS, MINMATCH in *.
      assert (E1 : (d1 <? mdn) = false) by (apply Nat.ltb_ge; lia). assert (E2 : (orem1 <? 5) = false) by (apply Nat.ltb_ge; lia).
      assert (E3 : (mdn =? 0) = false) by (apply Nat.eqb_neq; exact Hz).
      assert (E4 : (N.of_nat (orem1 - 5) <? N.of_nat (m0 + 4))%N = false) by lia.
      assert (E5 : (N.of_nat (m0 + 4) <? N.of_nat 4)%N = false) by lia.
      rewrite E1, E2, E3, E4, E5. reflexivity. }
    rewrite Ec.
    assert (Hcopy : exists out2, (if (WS <? mdn) && (align (m0 + MINMATCH) <=? orem1) then overrun_out (words (m0 + MINMATCH)) out1 d1 (d1 - mdn)
                                  else safe_out (m0 + MINMATCH) out1 d1 (d1 - mdn)) = Some out2 /\ length out2 = length out1).
    { destruct ((WS <? mdn) && (align (m0 + MINMATCH) <=? orem1)) eqn:Ep.
      - apply Bool.andb_true_iff in Ep. destruct Ep as [_ Ep]. apply Nat.leb_le in Ep.
        pose proof (words_align (m0 + MINMATCH) ltac:(unfold MINMATCH; lia)) as Hwa.
        apply overrun_out_ok; lia.
      - unfold MINMATCH in *. apply safe_out_ok; lia. }
    destruct Hcopy as (out2 & -> & L2).
    rewrite <- L2. apply (IH r5 out2 (d1 + (m0 + MINMATCH)) (orem1 - (m0 + MINMATCH)) (new ++ outr1) final Hdec Hmar).
    - rewrite app_length. lia.
    - unfold MINMATCH in *. lia.
    - lia.
    - rewrite L2. exact Hb.
    - exact Hs.
  Qed.
End Step.

Lemma loop_complete fuel : forall s out d orem outr final,
  ref_decode fuel s outr = Some final -> margins fuel s = true -> length outr = d -> d + orem = length out -> length final = length out ->
  (N.of_nat (length out) < U32 - 8)%N -> (N.of_nat (length s) < U32 - 1)%N ->
  exists out', loop fuel s out d orem = Ok (length out) out'.
Proof.
  induction fuel as [|f IH]; intros s out d orem outr final H Hm Hl Hd Hf Hb Hs; [discriminate|].
  destruct s as [|tok r1]; [discriminate|]. cbn [ref_decode margins] in H, Hm. cbn [length] in Hs.
  destruct (ref_length (tok / 16)%N r1) as [[m lit]|] eqn:E1; [|discriminate].
  destruct (length lit <? m) eqn:El; [discriminate|]. apply Nat.ltb_ge in El.
  pose proof (ref_length_suffix _ _ _ _ E1) as Hsuf.
  assert (Hmb : (N.of_nat m < U32)%N) by (unfold U32 in *; lia).
  destruct (ref_length_read_literal _ _ _ _ E1 Hmb) as (R1 & _).
  cbn [loop]. unfold read_sequence. rewrite R1.
  destruct (skipn m lit) as [|d0 [|d1 r4]] eqn:Es; [| discriminate |].
  - (* the last sequence *)
    assert (Em : length lit = m) by (apply (f_equal (@length N)) in Es; rewrite skipn_length in Es; cbn [length] in Es; lia).
    injection H as <-. rewrite app_length, rev_length, firstn_length, Nat.min_l in Hf by lia.
    assert (E2 : (N.of_nat (length lit) <? N.of_nat m + 2)%N = true) by lia. rewrite E2.
    assert (E3 : (negb (N.of_nat (length lit) =? N.of_nat m)%N || (N.of_nat orem <? N.of_nat m)%N) = false) by lia. rewrite E3, Nat2N.id.
    destruct (write_at_some out d (firstn m lit)) as (o & Hw & _); [rewrite firstn_length; lia|]. rewrite Hw.
    exists o. f_equal. lia.
  - destruct (ref_length (tok mod 16)%N r4) as [[m0 r5]|] eqn:E4; [|discriminate].
    destruct (N.to_nat (d0 + 256 * d1) =? 0) eqn:Ez; [discriminate|]. apply Nat.eqb_neq in Ez.
    destruct (ref_match (m0 + MINMATCH) (N.to_nat (d0 + 256 * d1)) (rev (firstn m lit) ++ outr)) as [o1|] eqn:Erm; [|discriminate].
    apply Bool.andb_true_iff in Hm. destruct Hm as [Hcoda Hm]. apply Nat.leb_le in Hcoda.
    assert (Llit : length lit = m + 2 + length r4) by (apply (f_equal (@length N)) in Es; rewrite skipn_length in Es; cbn [length] in Es; lia).
    pose proof (ref_length_suffix _ _ _ _ E4) as Hsuf4.
    (* output accounting *)
    destruct (ref_match_grows _ _ _ _ Erm) as (new & Eo1 & Ln).
    pose proof (ref_decode_min _ _ _ _ H Hm) as Hmin. rewrite Eo1, !app_length, rev_length, firstn_length, Nat.min_l in Hmin by lia.
    unfold LASTLITERALS, MINMATCH, MINCODA in *.
    assert (Hm0b : (N.of_nat m0 < U32)%N) by (unfold U32 in *; lia).
    destruct (ref_length_read_literal _ _ _ _ E4 Hm0b) as (R4 & _).
    assert (E2 : (N.of_nat (length lit) <? N.of_nat m + 2)%N = false) by lia. rewrite E2, Nat2N.id, Es, R4.
    assert (E6 : (6 <=? length r5) = true) by (apply Nat.leb_le; exact Hcoda). change MINCODA with 6. rewrite E6. cbv zeta. rewrite Nat2N.id.
    assert (Hl1 : length (rev (firstn m lit) ++ outr) = d + m) by (rewrite app_length, rev_length, firstn_length; lia).
    assert (Hr5 : (N.of_nat (length r5) < U32 - 1)%N) by lia.
    destruct (N.of_nat m =? 0)%N eqn:E0.
    + apply N.eqb_eq in E0. assert (m = 0) by lia. subst m. rewrite Nat.add_0_r in Hl1.
      apply (match_complete f IH out d orem _ m0 (d0 + 256 * d1)%N r5 o1 final Erm Ez H Hm Hl1 Hd Hf Hb Hr5).
    + apply N.eqb_neq in E0. assert (Hm0 : 0 < m) by lia.
      pose proof (words_align m Hm0) as Hwa. pose proof (align_bound m) as Hab.
      assert (E7 : (N.of_nat orem <? N.of_nat (align m))%N = false) by lia. rewrite E7.
      destruct (overrun_in_ok (words m) out d lit ltac:(lia) ltac:(lia)) as (out1 & Ho & L1). rewrite Ho.
      rewrite <- L1.
      apply (match_complete f IH out1 (d + m) (orem - m) _ m0 (d0 + 256 * d1)%N r5 o1 final Erm Ez H Hm Hl1 ltac:(lia) ltac:(lia) ltac:(rewrite L1; exact Hb) Hr5).
Qed.

(* every margin-respecting reference encoding is accepted and decoded to the data it encodes *)
Theorem decompress_complete src data out0 : lz4_ref src = Some data -> margins (S (length src)) src = true ->
  MINSRCSIZE <= length src -> length src < length data -> (N.of_nat (length data) < U32 - 8)%N -> length out0 = length data ->
  decompress src (length data) out0 = Ok (length data) data.
Proof.
  intros Href Hmar Hmin Hgrow Hb Hl. unfold lz4_ref in Href.
  destruct (ref_decode (S (length src)) src []) as [outr|] eqn:Hd; [|discriminate]. injection Href as <-.
  assert (Hs : (N.of_nat (length src) < U32 - 1)%N) by (rewrite rev_length in *; unfold U32 in *; lia).
  rewrite rev_length in *.
  destruct (loop_complete _ _ out0 0 (length out0) [] _ Hd Hmar eq_refl ltac:(lia) ltac:(lia) ltac:(rewrite Hl; exact Hb) Hs) as (out' & Hloop).
  assert (Hdec : decompress src (length outr) out0 = Ok (length out0) out').
  { unfold decompress. assert (E : ((length outr <=? length src) || (length src <? MINSRCSIZE)) = false).
    { apply Bool.orb_false_iff. split; [apply Nat.leb_gt; lia | apply Nat.ltb_ge; lia]. }
    rewrite E, <- Hl. exact Hloop. }
  pose proof (decompress_sound _ _ _ _ _ Hs Hdec) as Hsound. unfold lz4_ref in Hsound. rewrite Hd in Hsound. injection Hsound as Hsound.
  pose proof (decompress_length _ _ _ _ _ Hdec) as Lout.
  rewrite Hdec, Hl. f_equal. rewrite Hsound. symmetry. apply firstn_all2. lia.
Qed.

(* the table level: a compressed table whose block is such an encoding of data beginning with the table's version word is replaced by that data *)
Theorem table_transparent t heap data : 21 <= length t -> scheme t = 1%N -> announced t = length data ->
  lz4_ref (skipn 8 t) = Some data -> margins (S (length (skipn 8 t))) (skipn 8 t) = true -> length (skipn 8 t) < length data ->
  (N.of_nat (length data) < U32 - 8)%N -> be32l data 0 = be32l t 0 -> length heap = length data ->
  table_decompress t heap = TOk data.
Proof.
  intros Ht Hs Ha Href Hmar Hgrow Hb Hv Hh. unfold table_decompress.
  assert (E1 : (length t <? 20) = false) by (apply Nat.ltb_ge; lia). rewrite E1, Hs. cbn [N.eqb Pos.eqb negb]. rewrite Ha.
  assert (L8 : length (skipn 8 t) = length t - 8) by apply skipn_length.
  assert (E2 : (length data <? 4) = false) by (apply Nat.ltb_ge; lia). rewrite E2.
  destruct (write_at_some heap 0 [0; 0; 0; 0]%N) as (out0 & Hw & L0); [cbn [length]; lia|]. rewrite Hw.
  assert (Hmin : MINSRCSIZE <= length (skipn 8 t)) by (unfold MINSRCSIZE; lia).
  assert (Hl0 : length out0 = length data) by lia.
  rewrite (decompress_complete (skipn 8 t) data out0 Href Hmar Hmin Hgrow Hb Hl0).
  rewrite Nat.eqb_refl. cbn [negb]. rewrite Hv, N.eqb_refl. reflexivity.
Qed.
