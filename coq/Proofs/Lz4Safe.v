(* Proofs/Lz4Safe.v — memory safety of the LZ4 decoder model: for all inputs, no read outside the input,
   no read or write outside the output array, and termination within the fuel supplied. *)
From GR Require Import Base.Bytes Model.Lz4Model.
From Coq Require Import Lia ZifyN ZifyBool ZifyNat.
Local Open Scope nat_scope.
Ltac Zify.zify_post_hook ::= Z.to_euclidean_division_equations.

Lemma write_at_some buf i bs : i + length bs <= length buf ->
  exists b', write_at buf i bs = Some b' /\ length b' = length buf.
Proof.
  intros H. unfold write_at. assert (E : (i + length bs <=? length buf) = true) by (apply Nat.leb_le; exact H).
  rewrite E. eexists; split; [reflexivity|].
  rewrite !app_length, firstn_length, skipn_length. lia.
Qed.

Lemma read_at_some buf i n : i + n <= length buf -> exists w, read_at buf i n = Some w /\ length w = n.
Proof.
  intros H. unfold read_at. assert (E : (i + n <=? length buf) = true) by (apply Nat.leb_le; exact H).
  rewrite E. eexists; split; [reflexivity|]. rewrite firstn_length, skipn_length. lia.
Qed.

Lemma overrun_in_ok k : forall out d s, d + k * WS <= length out -> k * WS <= length s ->
  exists out', overrun_in k out d s = Some out' /\ length out' = length out.
Proof.
  induction k as [|k IH]; intros out d s Hd Hs; cbn [overrun_in].
  - eexists; split; reflexivity.
  - destruct (read_at_some s 0 WS) as (w & Hw & Lw); [cbn; lia|]. rewrite Hw. cbn [bind].
    destruct (write_at_some out d w) as (o1 & Ho1 & Lo1); [rewrite Lw; lia|]. rewrite Ho1. cbn [bind].
    destruct (IH o1 (d + WS) (skipn WS s)) as (o2 & Ho2 & Lo2); [rewrite Lo1; lia|rewrite skipn_length; lia|].
    exists o2. split; [exact Ho2|lia].
Qed.

Lemma overrun_out_ok k : forall out d s, d + k * WS <= length out -> s + k * WS <= length out ->
  exists out', overrun_out k out d s = Some out' /\ length out' = length out.
Proof.
  induction k as [|k IH]; intros out d s Hd Hs; cbn [overrun_out].
  - eexists; split; reflexivity.
  - destruct (read_at_some out s WS) as (w & Hw & Lw); [lia|]. rewrite Hw. cbn [bind].
    destruct (write_at_some out d w) as (o1 & Ho1 & Lo1); [rewrite Lw; lia|]. rewrite Ho1. cbn [bind].
    destruct (IH o1 (d + WS) (s + WS)) as (o2 & Ho2 & Lo2); [rewrite Lo1; lia|rewrite Lo1; lia|].
    exists o2. split; [exact Ho2|lia].
Qed.

Lemma safe_out_ok n : forall out d s, d + n <= length out -> s + n <= length out ->
  exists out', safe_out n out d s = Some out' /\ length out' = length out.
Proof.
  induction n as [|n IH]; intros out d s Hd Hs; cbn [safe_out].
  - eexists; split; reflexivity.
  - destruct (read_at_some out s 1) as (w & Hw & Lw); [lia|]. rewrite Hw. cbn [bind].
    destruct (write_at_some out d w) as (o1 & Ho1 & Lo1); [rewrite Lw; lia|]. rewrite Ho1. cbn [bind].
    destruct (IH o1 (S d) (S s)) as (o2 & Ho2 & Lo2); [rewrite Lo1; lia|rewrite Lo1; lia|].
    exists o2. split; [exact Ho2|lia].
Qed.

Lemma read_ext_suffix s : forall l, length (snd (read_ext s l)) < length s \/ s = [].
Proof.
  induction s as [|b r IH]; intros l; [right; reflexivity|left].
  cbn [read_ext]. destruct (b =? 255)%N; [|cbn; lia].
  destruct r as [|b' r']; [cbn; lia|].
  destruct (IH (if l + b <? U32 then l + b else U32 - 1)%N) as [H|H]; [cbn [length] in *; lia|discriminate].
Qed.

(* a length never wraps: the extension bytes only ever add to it, up to the largest 32-bit value *)
Lemma read_ext_monotone s : forall l, (l < U32)%N -> (l <= fst (read_ext s l) < U32)%N.
Proof.
  induction s as [|b r IH]; intros l Hl; [cbn; lia|]. cbn [read_ext].
  assert (Hl' : (l <= (if l + b <? U32 then l + b else U32 - 1) < U32)%N) by (destruct (l + b <? U32)%N eqn:E; unfold U32 in *; lia).
  destruct (b =? 255)%N; [|cbn; exact Hl'].
  destruct r as [|b' r']; [cbn; exact Hl'|]. specialize (IH _ (proj2 Hl')). lia.
Qed.

Lemma read_literal_suffix s l : length (snd (read_literal s l)) <= length s.
Proof.
  unfold read_literal. destruct s as [|b r]; [cbn; lia|].
  destruct (l =? 15)%N; [|cbn; lia].
  destruct (read_ext_suffix (b :: r) l) as [H|H]; [lia|discriminate].
Qed.

Lemma words_align n : 0 < n -> words n * WS = align n.
Proof. unfold words, align, WS. intros H. cbn [Nat.sub]. lia. Qed.
Lemma align_bound n : n <= align n <= n + 7.
Proof. unfold align, WS. cbn [Nat.sub]. lia. Qed.
Lemma words_bound n : words n * WS <= Nat.max 8 (n + 7).
Proof. unfold words, WS. lia. Qed.

(* what read_sequence guarantees about the pieces it hands out *)
Lemma read_sequence_match s more lit ll ml md rest : read_sequence s = SeqMatch more lit ll ml md rest ->
  (N.to_nat ll + 2 + length rest <= length lit /\ length rest < length s /\ (more = true -> MINCODA <= length rest))%nat.
Proof.
  unfold read_sequence. destruct s as [|tok r1]; [discriminate|].
  destruct (read_literal r1 (tok / 16)%N) as [ll' lit'] eqn:E1.
  destruct (N.of_nat (length lit') <? ll' + 2)%N eqn:E2; [discriminate|].
  destruct (skipn (N.to_nat ll') lit') as [|d0 [|d1 r4]] eqn:E3; try discriminate.
  destruct (read_literal r4 (tok mod 16)%N) as [ml0 r5] eqn:E4.
  intros H. inversion H; subst.
  pose proof (read_literal_suffix r1 (tok / 16)%N) as S1. rewrite E1 in S1. cbn [snd] in S1.
  pose proof (read_literal_suffix r4 (tok mod 16)%N) as S2. rewrite E4 in S2. cbn [snd] in S2.
  assert (L3 : length (skipn (N.to_nat ll) lit) = S (S (length r4))) by (rewrite E3; reflexivity).
  rewrite skipn_length in L3. cbn [length].
  split; [lia|]. split; [lia|]. intros Hm. apply Nat.leb_le. exact Hm.
Qed.

Lemma read_sequence_trap s : read_sequence s = SeqTrap -> s = [].
Proof.
  unfold read_sequence. destruct s as [|tok r1]; [reflexivity|].
  destruct (read_literal r1 (tok / 16)%N) as [ll lit] eqn:E1.
  destruct (N.of_nat (length lit) <? ll + 2)%N eqn:E2; [discriminate|].
  destruct (skipn (N.to_nat ll) lit) as [|d0 [|d1 r4]] eqn:E3.
  - apply (f_equal (@length N)) in E3. rewrite skipn_length in E3. cbn [length] in E3. lia.
  - apply (f_equal (@length N)) in E3. rewrite skipn_length in E3. cbn [length] in E3. lia.
  - destruct (read_literal r4 (tok mod 16)%N); discriminate.
Qed.

Definition safe_res (r : res) : Prop := r <> Trap /\ r <> OutOfFuel.


Lemma u32_minus_le orem k : k <= orem -> (u32_of_size_minus orem k <= N.of_nat (orem - k))%N.
Proof.
  intros H. unfold u32_of_size_minus, U32.
  assert (E : ((N.of_nat orem + 18446744073709551616 - N.of_nat k) mod 18446744073709551616
               = (N.of_nat (orem - k)) mod 18446744073709551616)%N).
  { replace (N.of_nat orem + 18446744073709551616 - N.of_nat k)%N
      with (N.of_nat (orem - k) + 1 * 18446744073709551616)%N by lia.
    rewrite N.mod_add by lia. reflexivity. }
  rewrite E.
  etransitivity; [apply N.mod_le; lia|]. apply N.mod_le. lia.
Qed.

  Lemma loop_safe fuel : forall s out d orem, s <> [] -> length s < fuel -> d + orem = length out ->
    safe_res (loop fuel s out d orem).
  Proof.
    induction fuel as [|fuel IH]; intros s out d orem Hs Hf Hinv; [lia|]. cbn [loop].
    destruct (read_sequence s) as [|lit ll|more lit ll ml md rest] eqn:Ers.
    - apply read_sequence_trap in Ers. congruence.
    - (* end of stream *)
      destruct (negb (N.of_nat (length lit) =? ll)%N || (N.of_nat orem <? ll)%N) eqn:Ec; [split; discriminate|].
      apply Bool.orb_false_elim in Ec. destruct Ec as [Ec1 Ec2].
      destruct (write_at_some out d (firstn (N.to_nat ll) lit)) as (o' & Ho' & _).
      { rewrite firstn_length. lia. }
      rewrite Ho'. split; discriminate.
    -
      destruct (read_sequence_match _ _ _ _ _ _ _ Ers) as (Hlit & Hrest & Hmore).
      destruct more.
      + specialize (Hmore eq_refl). unfold MINCODA in Hmore.
        (* literal stage *)
        destruct (ll =? 0)%N eqn:Ell.
        * (* no literal *)
          cbv zeta.
          destruct ((d <? N.to_nat md) || (u32_of_size_minus orem LASTLITERALS <? ml)%N || (orem <? LASTLITERALS) || (N.to_nat md =? 0) || (ml <? N.of_nat MINMATCH)%N) eqn:Ec;
            [split; discriminate|].
          apply Bool.orb_false_elim in Ec. destruct Ec as [Ec Hml].
          apply Bool.orb_false_elim in Ec. destruct Ec as [Ec Ec4].
          apply Bool.orb_false_elim in Ec. destruct Ec as [Ec Ec3].
          apply Bool.orb_false_elim in Ec. destruct Ec as [Ec1 Ec2].
          unfold LASTLITERALS in *.
          assert (Hor : 5 <= orem) by lia.
          pose proof (u32_minus_le orem 5 Hor) as Hu.
          assert (Hmln : N.to_nat ml <= orem - 5) by lia.
          unfold MINMATCH in Hml.
          destruct ((WS <? N.to_nat md) && (align (N.to_nat ml) <=? orem)) eqn:Eb.
          -- apply andb_prop in Eb. destruct Eb as [Eb1 Eb2]. unfold WS in Eb1.
             destruct (overrun_out_ok (words (N.to_nat ml)) out d (d - N.to_nat md)) as (o2 & Ho2 & Lo2).
             { rewrite words_align by lia. lia. }
             { rewrite words_align by lia. lia. }
             rewrite Ho2. apply IH; [destruct rest; [cbn in Hmore; lia|discriminate]|lia|lia].
          -- destruct (safe_out_ok (N.to_nat ml) out d (d - N.to_nat md)) as (o2 & Ho2 & Lo2); [lia|lia|].
             rewrite Ho2. apply IH; [destruct rest; [cbn in Hmore; lia|discriminate]|lia|lia].
        * (* literal copied with overrun_copy *)
          destruct (N.of_nat orem <? N.of_nat (align (N.to_nat ll)))%N eqn:Eal; [split; discriminate|].
          destruct (overrun_in_ok (words (N.to_nat ll)) out d lit) as (o1 & Ho1 & Lo1).
          { rewrite words_align by lia. lia. }
          { rewrite words_align by lia. pose proof (align_bound (N.to_nat ll)). lia. }
          rewrite Ho1. cbv zeta.
          pose proof (align_bound (N.to_nat ll)) as Hal.
          set (d1 := d + N.to_nat ll). set (orem1 := orem - N.to_nat ll).
          assert (Hinv1 : d1 + orem1 = length o1) by (subst d1 orem1; lia).
          destruct ((d1 <? N.to_nat md) || (u32_of_size_minus orem1 LASTLITERALS <? ml)%N || (orem1 <? LASTLITERALS) || (N.to_nat md =? 0) || (ml <? N.of_nat MINMATCH)%N) eqn:Ec;
            [split; discriminate|].
          apply Bool.orb_false_elim in Ec. destruct Ec as [Ec Hml].
          apply Bool.orb_false_elim in Ec. destruct Ec as [Ec Ec4].
          apply Bool.orb_false_elim in Ec. destruct Ec as [Ec Ec3].
          apply Bool.orb_false_elim in Ec. destruct Ec as [Ec1 Ec2].
          unfold LASTLITERALS in *.
          assert (Hor : 5 <= orem1) by lia.
          pose proof (u32_minus_le orem1 5 Hor) as Hu.
          assert (Hmln : N.to_nat ml <= orem1 - 5) by lia.
          unfold MINMATCH in Hml.
          destruct ((WS <? N.to_nat md) && (align (N.to_nat ml) <=? orem1)) eqn:Eb.
          -- apply andb_prop in Eb. destruct Eb as [Eb1 Eb2]. unfold WS in Eb1.
             destruct (overrun_out_ok (words (N.to_nat ml)) o1 d1 (d1 - N.to_nat md)) as (o2 & Ho2 & Lo2).
             { rewrite words_align by lia. lia. }
             { rewrite words_align by lia. lia. }
             rewrite Ho2. apply IH; [destruct rest; [cbn in Hmore; lia|discriminate]|lia|lia].
          -- destruct (safe_out_ok (N.to_nat ml) o1 d1 (d1 - N.to_nat md)) as (o2 & Ho2 & Lo2); [lia|lia|].
             rewrite Ho2. apply IH; [destruct rest; [cbn in Hmore; lia|discriminate]|lia|lia].
      + (* malformed tail: treated as end of stream *)
        destruct (negb (N.of_nat (length lit) =? ll)%N || (N.of_nat orem <? ll)%N) eqn:Ec; [split; discriminate|].
        apply Bool.orb_false_elim in Ec. destruct Ec as [Ec1 Ec2].
        destruct (write_at_some out d (firstn (N.to_nat ll) lit)) as (o' & Ho' & _).
        { rewrite firstn_length. lia. }
        rewrite Ho'. split; discriminate.
  Qed.

  Theorem decompress_safe src osz out0 : length out0 = osz -> safe_res (decompress src osz out0).
  Proof.
    intros Hl. unfold decompress.
    destruct ((osz <=? length src) || (length src <? MINSRCSIZE)) eqn:E; [split; discriminate|].
    apply Bool.orb_false_elim in E. destruct E as [E1 E2]. unfold MINSRCSIZE in E2.
    apply loop_safe; [|lia|lia].
    destruct src; [cbn in E2; lia|discriminate].
  Qed.
