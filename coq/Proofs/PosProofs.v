(* Proofs/PosProofs.v — final positioning is homogeneous of degree 1 in the scale factor (exact arithmetic) *)
From GR Require Import Base.Bytes Model.PosModel.
From Coq Require Import ZArith Lia.
Local Open Scope Z_scope.

Lemma ltb_scale k a b : 0 < k -> (k * a <? k * b) = (a <? b).
Proof.
  intros Hk. destruct (a <? b) eqn:E.
  - apply Z.ltb_lt. apply Z.ltb_lt in E. apply Z.mul_lt_mono_pos_l; assumption.
  - apply Z.ltb_ge. apply Z.ltb_ge in E. apply Z.mul_le_mono_nonneg_l; lia.
Qed.
Lemma ltb_scale0 k a : 0 < k -> (k * a <? 0) = (a <? 0).
Proof. intros Hk. pose proof (ltb_scale k a 0 Hk) as H. rewrite Z.mul_0_r in H. exact H. Qed.

Lemma vscale1 v : vscale 1 v = v.
Proof. destruct v as [x y]. unfold vscale. cbn [fst snd]. f_equal; lia. Qed.
Lemma vadd_vscale k a b : vadd (vscale k a) (vscale k b) = vscale k (vadd a b).
Proof. unfold vadd, vscale. cbn [fst snd]. f_equal; ring. Qed.
Lemma fst_vscale k v : fst (vscale k v) = k * fst v. Proof. reflexivity. Qed.
Lemma snd_vscale k v : snd (vscale k v) = k * snd v. Proof. reflexivity. Qed.

Lemma shift_all_scale k adj ps : shift_all (k * adj) (pscale k ps) = pscale k (shift_all adj ps).
Proof.
  unfold shift_all, pscale. rewrite !map_map. apply map_ext. intros [i [x y]]. unfold vscale. cbn [fst snd]. f_equal. f_equal. ring.
Qed.
Lemma pscale_app k a b : pscale k (a ++ b) = pscale k a ++ pscale k b.
Proof. unfold pscale. apply map_app. Qed.

Definition out3 (k : Z) (r : V * Z * plist) : V * Z * plist := (vscale k (fst (fst r)), k * snd (fst r), pscale k (snd r)).

Ltac norm Hk :=
  repeat first [ rewrite vadd_vscale | rewrite fst_vscale | rewrite snd_vscale | rewrite <- Z.mul_add_distr_l | rewrite <- Z.mul_sub_distr_l
               | rewrite (ltb_scale _ _ _ Hk) | rewrite (ltb_scale0 _ _ Hk) ].

Theorem finalise_homogeneous fuel : forall k, 0 < k -> forall t isroot base cmin,
  finalise fuel k t isroot (vscale k base) (k * cmin) = out3 k (finalise fuel 1 t isroot base cmin).
Proof.
  induction fuel as [|f IH]; intros k Hk t isroot base cmin.
  - destruct t as [|p child sib]; cbn [finalise]; unfold out3, vscale, pscale; cbn [fst snd map]; unfold vscale; cbn [fst snd]; rewrite ?Z.mul_0_r; reflexivity.
  - destruct t as [|p child sib].
    + cbn [finalise]. unfold out3, vscale, pscale. cbn. f_equal. f_equal. f_equal; lia.
    + cbn [finalise]. rewrite !vscale1, !Z.mul_1_l.
      destruct isroot; cbn [orb andb].
      * (* a base *)
        norm Hk.
        set (pos := vadd base (p_shx p, p_shy p)).
        set (res0 := vadd base (p_tadv p, p_advy p)).
        destruct child as [|cp cc cs].
        -- destruct sib; norm Hk; destruct (fst pos <? fst base);
             unfold out3; cbn [fst snd]; unfold pscale, shift_all, vscale; cbn [map fst snd app]; repeat f_equal; ring.
        -- rewrite (IH k Hk (BNode cp cc cs) false pos (fst pos)).
           destruct (finalise f 1 (BNode cp cc cs) false pos (fst pos)) as [[tres c] ps].
           unfold out3 at 1. cbn [fst snd]. norm Hk.
           destruct sib; destruct (fst res0 <? fst tres); norm Hk; destruct (c <? fst base);
             unfold out3; cbn [fst snd]; rewrite ?app_nil_r, ?pscale_app, ?shift_all_scale;
             unfold pscale, vscale; cbn [map fst snd app]; repeat f_equal; ring.
      * (* an attached slot *)
        norm Hk. change (fst (p_shx p, p_shy p)) with (p_shx p).
        set (pos := vadd (vadd base (p_shx p, p_shy p)) (p_atx p, p_aty p)).
        set (cmin1 := if (p_advpos p || (fst pos <? 0)) && (fst pos <? cmin) then fst pos else cmin).
        assert (Hc1 : (if (p_advpos p || (fst pos <? 0)) && (fst pos <? cmin) then k * fst pos else k * cmin) = k * cmin1)
          by (subst cmin1; destruct ((p_advpos p || (fst pos <? 0)) && (fst pos <? cmin)); reflexivity).
        rewrite Hc1.
        set (tadvv := if p_advpos p then fst pos + p_tadv p - p_shx p else 0).
        assert (Ht : (if p_advpos p then k * (fst pos + p_tadv p - p_shx p) else 0) = k * tadvv)
          by (subst tadvv; destruct (p_advpos p); ring).
        rewrite Ht.
        assert (Hres0 : (k * tadvv, 0) = vscale k (tadvv, 0)) by (unfold vscale; cbn [fst snd]; f_equal; ring).
        rewrite Hres0. cbn [fst snd].
        (* child, then sibling *)
        destruct child as [|cp cc cs].
        -- destruct sib as [|sp_ sc ss].
           ++ unfold out3, pscale. cbn [fst snd map app]. reflexivity.
           ++ rewrite (IH k Hk (BNode sp_ sc ss) false base cmin1).
              destruct (finalise f 1 (BNode sp_ sc ss) false base cmin1) as [[tres c] ps].
              unfold out3 at 1. cbn [fst snd]. norm Hk. cbn [fst snd].
              destruct (tadvv <? fst tres); unfold out3, pscale; cbn [fst snd map app]; reflexivity.
        -- rewrite (IH k Hk (BNode cp cc cs) false pos cmin1).
           destruct (finalise f 1 (BNode cp cc cs) false pos cmin1) as [[tres c] ps].
           unfold out3 at 1. cbn [fst snd]. norm Hk. cbn [fst snd].
           destruct (p_advpos p && (tadvv <? fst tres)).
           ++ destruct sib as [|sp_ sc ss].
              ** unfold out3, pscale. cbn [fst snd map app]. rewrite ?map_app. reflexivity.
              ** rewrite (IH k Hk (BNode sp_ sc ss) false base c).
                 destruct (finalise f 1 (BNode sp_ sc ss) false base c) as [[tres2 c2] ps2].
                 unfold out3 at 1. cbn [fst snd]. norm Hk. cbn [fst snd].
                 destruct (fst tres <? fst tres2); unfold out3, pscale; cbn [fst snd map app]; rewrite ?map_app; reflexivity.
           ++ destruct sib as [|sp_ sc ss].
              ** unfold out3, pscale. cbn [fst snd map app]. rewrite ?map_app. reflexivity.
              ** rewrite (IH k Hk (BNode sp_ sc ss) false base c).
                 destruct (finalise f 1 (BNode sp_ sc ss) false base c) as [[tres2 c2] ps2].
                 unfold out3 at 1. cbn [fst snd]. norm Hk. cbn [fst snd].
                 destruct (tadvv <? fst tres2); unfold out3, pscale; cbn [fst snd map app]; rewrite ?map_app; reflexivity.
Qed.

(* Segment::positionSlots: the whole run of bases *)
Theorem position_bases_homogeneous k : 0 < k -> forall bases cur,
  position_bases k bases (vscale k cur) = (let r := position_bases 1 bases cur in (vscale k (fst r), pscale k (snd r))).
Proof.
  intros Hk. induction bases as [|b rest IH]; intros cur; cbn [position_bases].
  - unfold pscale. reflexivity.
  - rewrite fst_vscale.
    rewrite (finalise_homogeneous 101 k Hk b true cur (fst cur)).
    destruct (finalise 101 1 b true cur (fst cur)) as [[res c] ps]. unfold out3. cbn [fst snd].
    rewrite IH. destruct (position_bases 1 rest res) as [fin ps']. cbn [fst snd]. rewrite pscale_app. reflexivity.
Qed.

(* from the segment origin *)
Corollary position_from_origin k : 0 < k -> forall bases,
  position_bases k bases (0, 0) = (let r := position_bases 1 bases (0, 0) in (vscale k (fst r), pscale k (snd r))).
Proof. intros Hk bases. rewrite <- (position_bases_homogeneous k Hk bases (0, 0)). unfold vscale. cbn [fst snd]. rewrite Z.mul_0_r. reflexivity. Qed.

(* which slots get positioned, and in which order, does not depend on the scale *)
Corollary positioned_ids_scale_free k : 0 < k -> forall bases,
  map fst (snd (position_bases k bases (0, 0))) = map fst (snd (position_bases 1 bases (0, 0))).
Proof.
  intros Hk bases. rewrite (position_from_origin k Hk). cbn [snd]. unfold pscale. rewrite map_map. reflexivity.
Qed.

(* any two sizes are proportional: j * (result at k) = k * (result at j) *)
Lemma vscale_vscale a b v : vscale a (vscale b v) = vscale (a * b) v.
Proof. unfold vscale. cbn [fst snd]. f_equal; ring. Qed.
Lemma pscale_pscale a b ps : pscale a (pscale b ps) = pscale (a * b) ps.
Proof. unfold pscale. rewrite map_map. apply map_ext. intros e. cbn [fst snd]. rewrite vscale_vscale. reflexivity. Qed.

Corollary sizes_proportional k j : 0 < k -> 0 < j -> forall bases,
  let rk := position_bases k bases (0, 0) in let rj := position_bases j bases (0, 0) in
  vscale j (fst rk) = vscale k (fst rj) /\ pscale j (snd rk) = pscale k (snd rj).
Proof.
  intros Hk Hj bases. cbv zeta. rewrite (position_from_origin k Hk), (position_from_origin j Hj). cbn [fst snd].
  rewrite !vscale_vscale, !pscale_pscale. rewrite (Z.mul_comm j k). split; reflexivity.
Qed.

(* ---- the recursion over a cluster is cut off along every path, whether it follows child or sibling links: what finalise computes
   on a tree is what it computes on the tree pruned at [fuel] links from the root — deeper nodes are never visited *)
Fixpoint prune (fuel : nat) (t : bt) : bt :=
  match fuel, t with
  | _, Leaf => Leaf
  | O, BNode p _ _ => BNode p Leaf Leaf
  | S f, BNode p c s => BNode p (prune f c) (prune f s)
  end.
Fixpoint link_depth (t : bt) : nat := match t with Leaf => O | BNode _ c s => S (Nat.max (link_depth c) (link_depth s)) end.
Lemma prune_depth : forall fuel t, (link_depth (prune fuel t) <= S fuel)%nat.
Proof.
  induction fuel as [|f IH]; intros [|p c s]; cbn [prune link_depth]; try lia.
  pose proof (IH c). pose proof (IH s). lia.
Qed.
Lemma finalise_S_congr f k p c s c' s' isroot base cmin :
  (c = Leaf <-> c' = Leaf) -> (s = Leaf <-> s' = Leaf) ->
  (forall b m, finalise f k c false b m = finalise f k c' false b m) ->
  (forall b m, finalise f k s false b m = finalise f k s' false b m) ->
  finalise (S f) k (BNode p c s) isroot base cmin = finalise (S f) k (BNode p c' s') isroot base cmin.
Proof.
  intros Hlc Hls Hc Hs.
  destruct c as [|pc cc cs], c' as [|pc' cc' cs'];
    try (exfalso; destruct Hlc as [H1 H2]; (discriminate (H1 eq_refl) || discriminate (H2 eq_refl)));
  destruct s as [|ps sc ss], s' as [|ps' sc' ss'];
    try (exfalso; destruct Hls as [H1 H2]; (discriminate (H1 eq_refl) || discriminate (H2 eq_refl)));
  cbn [finalise]; destruct isroot; cbv iota beta zeta; try reflexivity.
  - rewrite Hs. reflexivity.
  - rewrite Hc. reflexivity.
  - rewrite Hc. reflexivity.
  - rewrite Hc. reflexivity.
  - rewrite Hc.
    match goal with |- context [finalise f k (BNode pc' cc' cs') false ?b ?m] => destruct (finalise f k (BNode pc' cc' cs') false b m) as [[tres cm] pl] end.
    cbv iota beta zeta. rewrite Hs. reflexivity.
Qed.
Lemma prune_leaf fuel t : t = Leaf <-> prune fuel t = Leaf.
Proof. destruct fuel, t; cbn [prune]; split; intros H; try reflexivity; discriminate H. Qed.
Theorem finalise_prune : forall fuel k t isroot base cmin, finalise fuel k t isroot base cmin = finalise fuel k (prune fuel t) isroot base cmin.
Proof.
  induction fuel as [|f IH]; intros k t isroot base cmin.
  - destruct t; reflexivity.
  - destruct t as [|p c s]; [reflexivity|]. cbn [prune].
    apply finalise_S_congr; [apply prune_leaf | apply prune_leaf | intros b m; apply IH | intros b m; apply IH].
Qed.
