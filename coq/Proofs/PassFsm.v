(* Proofs/PassFsm.v — the two models of Pass::readPass meet: on every pass whose offset arithmetic Model/PassModel.v accepts, the
   table reads of Model/FsmModel.v (ranges, rule-map offsets, rule map, pre-context bounds, start states, sort keys, transition
   table) all lie inside the pass — read_fsm does not trap.  FsmModel repeats PassModel's offsets; this is the proof that the
   repetition is right wherever it matters (a wrong offset in either would make a read the other has not bounded). *)
From GR Require Import Base.Bytes Base.Mem Base.MemFacts Model.PassModel Model.FsmModel.
From Coq Require Import NArith ZArith List Bool Lia ZifyN ZifyBool ZifyNat.
Import ListNotations.

Section PassFsm.
  Variable t : mem.
  Hypothesis Hwf : mem_wf t.

  Local Open Scope N_scope.
  Lemma read16s_some : forall k p, p + 2 * N.of_nat k <= tlen t -> exists l, read16s t p k = Some l.
  Proof.
    induction k as [|k IH]; intros p H; cbn [read16s]; [eexists; reflexivity|].
    destruct (r16_some t p Hwf ltac:(lia)) as [v Ev]. rewrite Ev.
    destruct (IH (p + 2) ltac:(lia)) as [r Er]. rewrite Er. eexists; reflexivity.
  Qed.
  Lemma read16s_nth : forall k p l i, read16s t p k = Some l -> (i < k)%nat -> r16 t (p + 2 * N.of_nat i) = Some (nth i l 0).
  Proof.
    induction k as [|k IH]; intros p l i H Hi; [lia|]. cbn [read16s] in H.
    destruct (r16 t p) as [v|] eqn:Ev; [|discriminate]. destruct (read16s t (p + 2) k) as [r|] eqn:Er; [|discriminate].
    injection H as <-. destruct i as [|i]; cbn [nth].
    - replace (p + 2 * N.of_nat 0) with p by lia. exact Ev.
    - replace (p + 2 * N.of_nat (S i)) with (p + 2 + 2 * N.of_nat i) by lia. apply (IH _ _ _ Er). lia.
  Qed.
  Lemma read_ranges_some ng ncols : forall k p cols, p + 6 * N.of_nat k <= tlen t -> read_ranges t p k ng ncols cols <> None.
  Proof.
    induction k as [|k IH]; intros p cols H; cbn [read_ranges]; [discriminate|].
    destruct (r16_some t p Hwf ltac:(lia)) as [a Ea]. destruct (r16_some t (p + 2) Hwf ltac:(lia)) as [b Eb].
    destruct (r16_some t (p + 4) Hwf ltac:(lia)) as [c Ec]. rewrite Ea, Eb, Ec.
    destruct (_ || _); [discriminate|]. destruct (upd_range _ _ _ _); [|discriminate]. apply IH. lia.
  Qed.

  Lemma zr16_inv o v : zr16 t o = Some v -> (0 <= o)%Z /\ r16 t (Z.to_N o) = Some (Z.to_N v) /\ (0 <= v)%Z.
  Proof.
    unfold zr16. destruct (Z.ltb_spec o 0); [discriminate|]. destruct (r16 t (Z.to_N o)) as [n|]; [|discriminate].
    intros E. injection E as <-. rewrite N2Z.id. repeat split; [assumption | lia].
  Qed.
  Lemma zrb_inv o v : zrb t o = Some v -> (0 <= o)%Z /\ rdb t (Z.to_N o) = Some (Z.to_N v) /\ (0 <= v)%Z.
  Proof.
    unfold zrb. destruct (Z.ltb_spec o 0); [discriminate|]. destruct (rdb t (Z.to_N o)) as [n|]; [|discriminate].
    intros E. injection E as <-. rewrite N2Z.id. repeat split; [assumption | lia].
  Qed.

  Ltac rd v E := match goal with |- (match ?x with Some _ => _ | None => _ end) = _ -> _ => destruct x as [v|] eqn:E; [|discriminate] end.
  Ltac cond C := match goal with |- (if ?c then _ else _) = _ -> _ => destruct c eqn:C; [discriminate|] end.

  Theorem read_pass_accept_fsm_no_trap base coll_ok rs : read_pass t base coll_ok = PAccept rs -> read_fsm t <> FTrap.
  Proof.
    unfold read_pass. cbv zeta. cond C40.
    rd flags E0. rd nr E1. rd pc32 E2. rd rc32 E3. rd ac32 E4. rd nst E5. rd nt E6. rd ns E7. rd nc E8. rd nrg E9.
    cond Ccoll. cond Cnr. cond Chdr. cond Crg. rd lastg E10. cond Cm. rd ne E11. cond Cp1. rd minp E12. rd maxp E13.
    cond Cmm. cond Cp2. rd pcl E14. cond Cs. intros _.
    apply zr16_inv in E1, E5, E6, E7, E8, E9, E10, E11. apply zrb_inv in E12, E13.
    destruct E1 as [_ [R1 H1]]. destruct E5 as [_ [R5 H5]]. destruct E6 as [_ [R6 H6]]. destruct E7 as [_ [R7 H7]].
    destruct E8 as [_ [R8 H8]]. destruct E9 as [_ [R9 H9]]. destruct E10 as [_ [R10 H10]]. destruct E11 as [_ [R11 H11]].
    destruct E12 as [_ [R12 H12]]. destruct E13 as [_ [R13 H13]].
    clear E0 E2 E3 E4 E14.
    apply orb_false_elim in Cm. destruct Cm as [Cm1 Cm2]. apply orb_false_elim in Cs. destruct Cs as [Cs1 Cs2].
    replace (2 * nt * nc)%Z with (2 * (nt * nc))%Z in Cs2 by ring.
    assert (Hm : Z.of_N (Z.to_N nt * Z.to_N nc) = (nt * nc)%Z) by (rewrite N2Z.inj_mul, !Z2N.id; lia).
    assert (Hm0 : (0 <= nt * nc)%Z) by (apply Z.mul_nonneg_nonneg; lia).
    unfold read_fsm. change (Z.to_N 4) with 4 in R1. change (Z.to_N 24) with 24 in R5. change (Z.to_N 26) with 26 in R6.
    change (Z.to_N 28) with 28 in R7. change (Z.to_N 30) with 30 in R8. change (Z.to_N 32) with 32 in R9.
    rewrite R1, R5, R6, R7, R8, R9. destruct (Z.to_N nr =? 0) eqn:Hnr0; [discriminate|]. cbv zeta.
    replace (40 + 6 * Z.to_N nrg - 4) with (Z.to_N (40 + nrg * 6 - 4)) by lia. rewrite R10.
    destruct (read16s_some (S (N.to_nat (Z.to_N ns))) (40 + 6 * Z.to_N nrg) ltac:(lia)) as [omap Eomap]. rewrite Eomap.
    pose proof (read16s_nth _ _ _ (N.to_nat (Z.to_N ns)) Eomap ltac:(lia)) as Hne.
    replace (40 + 6 * Z.to_N nrg + 2 * N.of_nat (N.to_nat (Z.to_N ns))) with (Z.to_N (40 + 6 * nrg + 2 * ns)) in Hne by lia.
    rewrite R11 in Hne. injection Hne as Hne. rewrite <- Hne.
    destruct (read16s_some (N.to_nat (Z.to_N ne)) (40 + 6 * Z.to_N nrg + 2 * (Z.to_N ns + 1)) ltac:(lia)) as [rmap Ermap]. rewrite Ermap.
    replace (40 + 6 * Z.to_N nrg + 2 * (Z.to_N ns + 1) + 2 * Z.to_N ne) with (Z.to_N (40 + 6 * nrg + 2 * (ns + 1) + 2 * ne)) by lia.
    rewrite R12.
    replace (Z.to_N (40 + 6 * nrg + 2 * (ns + 1) + 2 * ne) + 1) with (Z.to_N (40 + 6 * nrg + 2 * (ns + 1) + 2 * ne + 1)) by lia.
    rewrite R13.
    destruct (read16s_some (N.to_nat (Z.to_N nr)) (Z.to_N (40 + 6 * nrg + 2 * (ns + 1) + 2 * ne) + 2 + 2 * (Z.to_N maxp - Z.to_N minp + 1)) ltac:(lia))
      as [srt Esrt]. rewrite Esrt.
    destruct (read16s_some (N.to_nat (Z.to_N maxp - Z.to_N minp + 1)) (Z.to_N (40 + 6 * nrg + 2 * (ns + 1) + 2 * ne) + 2) ltac:(lia))
      as [starts Estarts]. rewrite Estarts.
    set (m := (nt * nc)%Z) in *. set (mN := Z.to_N nt * Z.to_N nc) in *. clearbody m mN.
    match goal with |- context [read16s t ?p (N.to_nat mN)] => destruct (read16s_some (N.to_nat mN) p ltac:(lia)) as [trans Etrans]; rewrite Etrans end.
    match goal with |- context [read_ranges t ?p ?k ?a ?b ?c] => pose proof (read_ranges_some a b k p c ltac:(lia)) as Hrr; destruct (read_ranges t p k a b c) as [[cols|]|] end;
      [|discriminate|congruence].
    destruct (existsb _ rmap); [discriminate|]. destruct (existsb _ starts); [discriminate|]. destruct (existsb _ trans); [discriminate|].
    destruct (state_rules _ _ _ _ _ _ _ _); discriminate.
  Qed.
End PassFsm.

Theorem read_pass_accept_fsm_no_trap_bytes (l : bytes) base coll_ok rs :
  read_pass (mem_of_list l) base coll_ok = PAccept rs -> read_fsm (mem_of_list l) <> FTrap.
Proof. apply read_pass_accept_fsm_no_trap. apply mem_of_list_wf. Qed.
