(* Proofs/GlatProofs.v — the glyph-attribute reader never reads outside the Gloc or the Glat table, whatever bytes they hold:
   the header checks do not trap, and once they accepted the tables, reading the attributes of ANY glyph below the attributed-glyph
   count does not trap and terminates within its fuel. *)
From GR Require Import Base.Bytes Base.Mem Base.MemFacts Model.GlatModel.
From Coq Require Import NArith List Lia ZifyN ZifyBool ZifyNat Bool.
Import ListNotations.
Local Open Scope N_scope.
Ltac Zify.zify_post_hook ::= Z.to_euclidean_division_equations.

Lemma rdw_some wide t i : mem_wf t -> i + wsz wide <= tlen t -> exists v, rdw wide t i = Some v.
Proof. intros W H. unfold rdw, wsz in *. destruct wide; [apply r16_some|apply rdb_some]; try assumption; lia. Qed.

Lemma glat_iter_safe wide t fin : mem_wf t -> fin <= tlen t -> forall fuel e v n acc, (N.to_nat (fin - v) < fuel)%nat -> e + 2 * wsz wide + 2 * n = v ->
  glat_iter fuel wide t e v n fin acc <> GTrap.
Proof.
  intros W Hf. induction fuel as [|fuel IH]; intros e v n acc Hm Hi; [lia|]. cbn [glat_iter].
  destruct (fin <=? v + 1) eqn:E0; [discriminate|].
  assert (Hw : 1 <= wsz wide <= 2) by (unfold wsz; destruct wide; lia).
  destruct (rdw_some wide t e W ltac:(lia)) as [k ->]. destruct (r16_some t v W ltac:(lia)) as [x ->].
  destruct (rdw_some wide t (e + wsz wide) W ltac:(lia)) as [run ->].
  destruct (n + 1 =? run); apply IH; lia.
Qed.

Theorem glat_loader_total gloc glat ng : mem_wf gloc -> mem_wf glat -> glat_loader gloc glat ng <> None.
Proof.
  intros Wl Wa. unfold glat_loader. destruct (tlen gloc <? 8) eqn:E0; [discriminate|].
  destruct (r32_some gloc 0 Wl ltac:(lia)) as [ver ->]. destruct (r16_some gloc 4 Wl ltac:(lia)) as [flags ->]. destruct (r16_some gloc 6 Wl ltac:(lia)) as [na ->].
  cbn [bind]. cbv zeta.
  destruct (tlen gloc - 8 <? _); [discriminate|].
  match goal with |- context [if ?c then Some None else _] => destruct c eqn:Ec end; [discriminate|].
  repeat (apply orb_false_elim in Ec; destruct Ec as [Ec ?]).
  destruct (r32_some glat 0 Wa ltac:(lia)) as [gv ->]. cbn [bind]. destruct (_ || _); discriminate.
Qed.

Theorem read_attrs_safe gloc glat ng l : mem_wf gloc -> mem_wf glat -> glat_loader gloc glat ng = Some (Some l) ->
  forall gid, gid < gl_nglyphs l -> read_attrs l gloc glat gid <> GTrap.
Proof.
  intros Wl Wa Hl gid Hg. unfold glat_loader in Hl.
  destruct (tlen gloc <? 8) eqn:E0; [discriminate|].
  destruct (r32 gloc 0) as [ver|]; [|discriminate]. destruct (r16 gloc 4) as [flags|]; [|discriminate]. destruct (r16 gloc 6) as [na|]; [|discriminate].
  cbn [bind] in Hl. cbv zeta in Hl.
  set (long := N.testbit flags 0) in *. set (ids := if N.testbit flags 1 then 2 * na else 0) in *. clearbody ids.
  destruct (tlen gloc - 8 <? ids) eqn:E1; [discriminate|].
  set (q := (tlen gloc - 8 - ids) / (if long then 4 else 2)) in *.
  match type of Hl with (if ?c then Some None else _) = _ => destruct c eqn:Ec end; [discriminate|].
  repeat (apply orb_false_elim in Ec; destruct Ec as [Ec ?]).
  destruct (r32 glat 0) as [gv|]; [|discriminate]. cbn [bind] in Hl.
  destruct (_ || _) in Hl; [discriminate|]. injection Hl as <-. cbn [gl_long gl_nattrs gl_nglyphs gl_ver] in *.
  assert (Hq : 8 + (if long then 4 else 2) * q <= tlen gloc) by (unfold q; destruct long; lia).
  unfold read_attrs. cbn [gl_long gl_nattrs gl_nglyphs gl_ver]. clearbody long.
  destruct (tlen gloc <? 8 + gid * (if long then 4 else 2)); [discriminate|].
  assert (Hs : exists a b, (if long then r32 gloc (8 + 4 * gid) else r16 gloc (8 + 2 * gid)) = Some a /\
                            (if long then r32 gloc (8 + 4 * gid + 4) else r16 gloc (8 + 2 * gid + 2)) = Some b).
  { destruct long.
    - destruct (r32_some gloc (8 + 4 * gid) Wl ltac:(lia)) as [a Ha]. destruct (r32_some gloc (8 + 4 * gid + 4) Wl ltac:(lia)) as [b Hb]. exists a, b. split; assumption.
    - destruct (r16_some gloc (8 + 2 * gid) Wl ltac:(lia)) as [a Ha]. destruct (r16_some gloc (8 + 2 * gid + 2) Wl ltac:(lia)) as [b Hb]. exists a, b. split; assumption. }
  destruct Hs as (glocs & gloce & -> & ->).
  destruct ((tlen glat - 1 <=? glocs) || (tlen glat <? gloce)) eqn:Eb; [discriminate|].
  apply orb_false_elim in Eb. destruct Eb as [Eb1 Eb2].
  match goal with |- context [if 0x30000 <=? gv then ?x else ?y] => remember (if 0x30000 <=? gv then x else y) as adj eqn:Eadj end.
  assert (Ha : adj <> None).
  { subst adj. destruct (0x30000 <=? gv); [|discriminate]. destruct (gloce <=? glocs); [discriminate|].
    destruct (r16_some glat glocs Wa ltac:(lia)) as [bm ->]. cbv zeta. destruct (gloce <? _); discriminate. }
  clear Eadj. destruct adj as [[gs|]|]; [|discriminate|contradiction].
  destruct (gv <? 0x20000).
  - destruct ((gloce <? gs) || (gloce - gs <? 4) || (na * 4 <? gloce - gs)) eqn:Ek; [discriminate|].
    repeat (apply orb_false_elim in Ek; destruct Ek as [Ek ?]).
    apply (glat_iter_safe false glat gloce Wa ltac:(lia)); [lia|unfold wsz; lia].
  - destruct ((gloce <? gs) || (gloce - gs <? 6) || (na * 6 <? gloce - gs) || (tlen glat - 4 <? gs)) eqn:Ek; [discriminate|].
    repeat (apply orb_false_elim in Ek; destruct Ek as [Ek ?]).
    apply (glat_iter_safe true glat gloce Wa ltac:(lia)); [lia|unfold wsz; lia].
Qed.
