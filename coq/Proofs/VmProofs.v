(* Proofs/VmProofs.v — the loader's stack analysis is sound (no accepted program underflows or runs off its end), and
   the machine evaluates the postfix code of every expression tree to the value the opcode specification gives. *)
From GR Require Import Base.Bytes Model.VmModel.
From Coq Require Import ZArith Lia ZifyN ZifyBool ZifyNat.
Local Open Scope Z_scope.
Ltac Zify.zify_post_hook ::= Z.to_euclidean_division_equations.

(* ------------------------------------------------------------ soundness of the loader's stack-depth analysis *)
(* [safe d c]: executing c from a stack of d elements never pops an empty stack and reaches a return *)
Fixpoint safe (d : Z) (c : list instr) : Prop :=
  match c with
  | [] => False
  | i :: rest =>
      match i with
      | INop => safe d rest
      | IPush _ => safe (d + 1) rest
      | IBin _ => 2 <= d /\ safe (d - 1) rest
      | IUn _ => 1 <= d /\ safe d rest
      | ICond => 3 <= d /\ safe (d - 2) rest
      | ISetBits _ _ => 1 <= d /\ safe d rest
      | IPopRet => 1 <= d /\ (rest = [] \/ safe (d - 1) rest)
      | IRetZero | IRetTrue => rest = [] \/ safe d rest
      end
  end.

Lemma safe_run c : forall st, safe (Z.of_nat (length st)) c -> run c st <> RUnderflow /\ run c st <> RRanOff.
Proof.
  induction c as [|i rest IH]; intros st H; [destruct H|].
  cbn [run]. destruct i; cbn [safe] in H; cbn [step].
  - (* nop *) destruct (STACK_MAX <=? length st)%nat; [split; discriminate|apply IH; exact H].
  - match goal with |- context [(STACK_MAX <=? ?n)%nat] => destruct (STACK_MAX <=? n)%nat end; [split; discriminate|apply IH].
    cbn [length]. rewrite Nat2Z.inj_succ. replace (Z.succ (Z.of_nat (length st))) with (Z.of_nat (length st) + 1) by lia. exact H.
  - destruct H as [Hd H]. destruct st as [|b [|a r]]; cbn [length] in Hd; try lia.
    destruct (do_bin o a b); [|split; discriminate].
    match goal with |- context [(STACK_MAX <=? ?n)%nat] => destruct (STACK_MAX <=? n)%nat end; [split; discriminate|apply IH].
    cbn [length] in *. replace (Z.of_nat (S (length r))) with (Z.of_nat (S (S (length r))) - 1) by lia. exact H.
  - destruct H as [Hd H]. destruct st as [|a r]; cbn [length] in Hd; try lia.
    match goal with |- context [(STACK_MAX <=? ?n)%nat] => destruct (STACK_MAX <=? n)%nat end; [split; discriminate|apply IH]. exact H.
  - destruct H as [Hd H]. destruct st as [|f [|t [|c r]]]; cbn [length] in Hd; try lia.
    match goal with |- context [(STACK_MAX <=? ?n)%nat] => destruct (STACK_MAX <=? n)%nat end; [split; discriminate|apply IH].
    cbn [length] in *. replace (Z.of_nat (S (length r))) with (Z.of_nat (S (S (S (length r)))) - 2) by lia. exact H.
  - destruct H as [Hd H]. destruct st as [|a r]; cbn [length] in Hd; try lia.
    match goal with |- context [(STACK_MAX <=? ?n)%nat] => destruct (STACK_MAX <=? n)%nat end; [split; discriminate|apply IH]. exact H.
  - destruct H as [Hd H]. destruct st as [|a r]; cbn [length] in Hd; try lia. split; discriminate.
  - split; discriminate.
  - split; discriminate.
Qed.

(* what the loader has verified about the instructions it accumulated: running them (in program order) from depth 0 is
   safe up to the current depth *)
Fixpoint safe_prefix (d0 : Z) (c : list instr) (d : Z) : Prop :=     (* c in program order; d0 start depth, d end depth *)
  match c with
  | [] => d = d0
  | i :: rest =>
      match i with
      | INop => safe_prefix d0 rest d
      | IPush _ => safe_prefix (d0 + 1) rest d
      | IBin _ => 2 <= d0 /\ safe_prefix (d0 - 1) rest d
      | IUn _ => 1 <= d0 /\ safe_prefix d0 rest d
      | ICond => 3 <= d0 /\ safe_prefix (d0 - 2) rest d
      | ISetBits _ _ => 1 <= d0 /\ safe_prefix d0 rest d
      | IPopRet => 1 <= d0 /\ safe_prefix (d0 - 1) rest d
      | IRetZero | IRetTrue => safe_prefix d0 rest d
      end
  end.

Lemma safe_prefix_snoc c : forall d0 d i, safe_prefix d0 c d ->
  match i with
  | INop | IRetZero | IRetTrue => safe_prefix d0 (c ++ [i]) d
  | IPush _ => safe_prefix d0 (c ++ [i]) (d + 1)
  | IBin _ => 2 <= d -> safe_prefix d0 (c ++ [i]) (d - 1)
  | IUn _ | ISetBits _ _ => 1 <= d -> safe_prefix d0 (c ++ [i]) d
  | ICond => 3 <= d -> safe_prefix d0 (c ++ [i]) (d - 2)
  | IPopRet => 1 <= d -> safe_prefix d0 (c ++ [i]) (d - 1)
  end.
Proof.
  induction c as [|j rest IH]; intros d0 d i H.
  - cbn [safe_prefix] in H. subst d. destruct i; cbn; intros; try split; try lia; try reflexivity.
  - destruct j; cbn [safe_prefix app] in *;
      try (destruct H as [H0 H]); specialize (IH _ _ i H); destruct i; cbn [safe_prefix]; intros; try split; auto.
Qed.

Lemma safe_prefix_safe c : forall d0 d, safe_prefix d0 c d -> c <> [] -> is_return (last c INop) = true -> safe d0 c.
Proof.
  induction c as [|i rest IH]; intros d0 d H Hne Hl; [congruence|].
  destruct rest as [|j rest'].
  - cbn [last] in Hl. destruct i; try discriminate Hl; cbn [safe safe_prefix] in *.
    + destruct H as [H0 _]. split; [exact H0|left; reflexivity].
    + left; reflexivity.
    + left; reflexivity.
  - assert (Hl' : is_return (last (j :: rest') INop) = true) by exact Hl.
    destruct i; cbn [safe safe_prefix] in *; try (destruct H as [H0 H]);
      try (split; [exact H0|]); try right; eapply IH; try eassumption; discriminate.
Qed.

Lemma load_loop_safe fuel : forall bc d acc c, 0 <= d -> safe_prefix 0 (rev acc) d ->
  load_loop fuel bc d acc = LLoaded c -> safe 0 c.
Proof.
  induction fuel as [|fuel IH]; intros bc d acc c Hd Hp H; [discriminate|]. cbn [load_loop] in H.
  destruct bc as [|opc rest].
  - destruct acc as [|lst acc']; [discriminate|].
    destruct (is_return lst) eqn:Er; [|discriminate]. inversion H; subst c.
    eapply safe_prefix_safe; [exact Hp| |].
    + cbn [rev]. destruct (rev acc'); discriminate.
    + cbn [rev]. rewrite last_last. exact Er.
  - destruct (MAX_OPCODE <=? opc)%N; [discriminate|].
    destruct (param_sz opc) as [psz|]; [|discriminate].
    destruct (length rest <? psz)%nat; [discriminate|].
    set (rest' := skipn psz rest) in *. set (params := firstn psz rest) in *.
    assert (Snoc : forall i d', safe_prefix 0 (rev acc ++ [i]) d' -> safe_prefix 0 (rev (i :: acc)) d') by (intros; exact H0).
    destruct (binop_of opc) as [o|].
    { destruct (d - 1 <=? 0) eqn:E; [discriminate|].
      eapply (IH rest' (d - 1) (IBin o :: acc)); [lia| |exact H].
      apply Snoc. apply (safe_prefix_snoc _ _ _ (IBin o) Hp). lia. }
    destruct (unop_of opc) as [o|].
    { destruct (d <=? 0) eqn:E; [discriminate|].
      eapply (IH rest' d (IUn o :: acc)); [lia| |exact H].
      apply Snoc. apply (safe_prefix_snoc _ _ _ (IUn o) Hp). lia. }
    repeat match type of H with
           | match ?x with _ => _ end = _ => destruct x eqn:?; try discriminate
           end;
    try (eapply IH; [| |exact H]; [lia|apply Snoc; first
          [ apply (safe_prefix_snoc _ _ _ INop Hp)
          | apply (safe_prefix_snoc _ _ _ IRetZero Hp)
          | apply (safe_prefix_snoc _ _ _ IRetTrue Hp)
          | apply (safe_prefix_snoc _ _ _ (IPush _) Hp)
          | apply (safe_prefix_snoc _ _ _ ICond Hp); lia
          | apply (safe_prefix_snoc _ _ _ (ISetBits _ _) Hp); lia
          | apply (safe_prefix_snoc _ _ _ IPopRet Hp); lia ]]).
Qed.

Theorem loader_stack_sound bc c : load bc = LLoaded c -> run c [] <> RUnderflow /\ run c [] <> RRanOff.
Proof.
  intros H. unfold load in H. apply (safe_run c []). cbn [length].
  eapply (load_loop_safe _ bc 0 [] c); [lia|reflexivity|exact H].
Qed.

(* ------------------------------------------------------------ the machine evaluates expression trees *)
Fixpoint icode (e : expr) : list instr :=
  match e with
  | EConst z => [IPush z]
  | EBin o a b => icode a ++ icode b ++ [IBin o]
  | EUn o a => icode a ++ [IUn o]
  | ECond c t f => icode c ++ icode t ++ icode f ++ [ICond]
  | ESetBits m v a => icode a ++ [ISetBits m v]
  end.
Definition in32 (z : Z) : Prop := -2147483648 <= z < 2147483648.
Fixpoint wf (e : expr) : Prop :=
  match e with
  | EConst z => in32 z
  | EBin _ a b => wf a /\ wf b
  | EUn _ a => wf a
  | ECond c t f => wf c /\ wf t /\ wf f
  | ESetBits m v a => 0 <= m < 65536 /\ 0 <= v < 65536 /\ wf a
  end.
(* stack cells the code of e needs above what is already there *)
Fixpoint sdepth (e : expr) : nat :=
  match e with
  | EConst _ => 1
  | EBin _ a b => Nat.max (sdepth a) (1 + sdepth b)
  | EUn _ a => sdepth a
  | ECond c t f => Nat.max (sdepth c) (Nat.max (1 + sdepth t) (2 + sdepth f))
  | ESetBits _ _ a => sdepth a
  end.

Lemma sdepth_pos e : (1 <= sdepth e)%nat.
Proof. induction e; cbn [sdepth]; lia. Qed.

(* --- running *)
Lemma run_app e : forall rest st, (length st + sdepth e < STACK_MAX)%nat ->
  run (icode e ++ rest) st = match eval e with Some v => run rest (v :: st) | None => RDone (died_early, 0) end.
Proof.
  unfold STACK_MAX.
  induction e as [z|o a IHa b IHb|o a IHa|c IHc t IHt f IHf|m v a IHa]; intros rest st Hd; cbn [icode eval sdepth] in *.
  - cbn [app run step]. assert (E : (STACK_MAX <=? length (z :: st))%nat = false) by (unfold STACK_MAX; cbn [length]; apply Nat.leb_gt; lia).
    rewrite E. reflexivity.
  - rewrite <- !app_assoc. rewrite IHa by lia. destruct (eval a) as [x|]; [|reflexivity].
    rewrite IHb by (cbn [length]; lia). destruct (eval b) as [y|]; [|reflexivity].
    cbn [app run step]. destruct (do_bin o x y) as [r|]; [|reflexivity].
    assert (E : (STACK_MAX <=? length (r :: st))%nat = false) by (unfold STACK_MAX; cbn [length]; apply Nat.leb_gt; lia).
    rewrite E. reflexivity.
  - pose proof (sdepth_pos a) as Hpos. rewrite <- !app_assoc. rewrite IHa by lia. destruct (eval a) as [x|]; [|reflexivity].
    cbn [app run step].
    assert (E : (STACK_MAX <=? length (do_un o x :: st))%nat = false) by (unfold STACK_MAX; cbn [length]; apply Nat.leb_gt; lia).
    rewrite E. reflexivity.
  - rewrite <- !app_assoc. rewrite IHc by lia. destruct (eval c) as [x|]; [|reflexivity].
    rewrite IHt by (cbn [length]; lia). destruct (eval t) as [y|]; [|reflexivity].
    rewrite IHf by (cbn [length]; lia). destruct (eval f) as [z|]; [|reflexivity].
    cbn [app run step].
    match goal with |- context [(STACK_MAX <=? ?n)%nat] => assert (E : (STACK_MAX <=? n)%nat = false) by (unfold STACK_MAX; cbn [length]; apply Nat.leb_gt; lia) end.
    rewrite E. reflexivity.
  - pose proof (sdepth_pos a) as Hpos. rewrite <- !app_assoc. rewrite IHa by lia. destruct (eval a) as [x|]; [|reflexivity].
    cbn [app run step].
    match goal with |- context [(STACK_MAX <=? ?n)%nat] => assert (E : (STACK_MAX <=? n)%nat = false) by (unfold STACK_MAX; cbn [length]; apply Nat.leb_gt; lia) end.
    rewrite E. reflexivity.
Qed.

Theorem run_evaluates e : (sdepth e < STACK_MAX)%nat ->
  run (icode e ++ [IPopRet]) [] = RDone (match eval e with Some v => (finished, v) | None => (died_early, 0) end).
Proof.
  intros H. rewrite run_app by (cbn [length]; lia). destruct (eval e); reflexivity.
Qed.

(* --- decoding: the loader turns the postfix bytecode back into the instruction list *)
Lemma byte_of_val z : Z.of_N (byte_of z) = z mod 256.
Proof. unfold byte_of. rewrite Z2N.id; [reflexivity|]. apply Z.mod_pos_bound. lia. Qed.

Lemma byte_lt z : (byte_of z < 256)%N.
Proof. unfold byte_of. pose proof (Z.mod_pos_bound z 256 ltac:(lia)). lia. Qed.

Lemma recombine4 z : (((z / 16777216) mod 256 * 256 + (z / 65536) mod 256) * 256 + (z / 256) mod 256) * 256 + z mod 256 = z mod 4294967296.
Proof.
  replace (z / 65536) with (z / 256 / 256) by (rewrite Z.div_div by lia; reflexivity).
  replace (z / 16777216) with (z / 256 / 256 / 256) by (rewrite !Z.div_div by lia; reflexivity).
  set (a := z / 256). set (b := a / 256). set (c := b / 256).
  assert (Ha : z = 256 * a + z mod 256) by (subst a; apply Z.div_mod; lia).
  assert (Hb : a = 256 * b + a mod 256) by (subst b; apply Z.div_mod; lia).
  assert (Hc : b = 256 * c + b mod 256) by (subst c; apply Z.div_mod; lia).
  pose proof (Z.mod_pos_bound z 256 ltac:(lia)). pose proof (Z.mod_pos_bound a 256 ltac:(lia)).
  pose proof (Z.mod_pos_bound b 256 ltac:(lia)). pose proof (Z.mod_pos_bound c 256 ltac:(lia)).
  assert (Hd : c = 256 * (c / 256) + c mod 256) by (apply Z.div_mod; lia).
  apply Z.mod_unique with (q := c / 256); [left; lia|]. lia.
Qed.

Lemma push_decode z rest fuel d acc : in32 z ->
  load_loop (S fuel) (push_code z ++ rest) d acc = load_loop fuel rest (d + 1) (IPush z :: acc).
Proof.
  unfold in32. intros Hz. unfold push_code.
  destruct ((-128 <=? z) && (z <? 128)) eqn:E1.
  { cbn [app load_loop]. cbn. f_equal. f_equal. f_equal. unfold sbyte. rewrite byte_of_val. destruct (z mod 256 <? 128) eqn:?; lia. }
  destruct ((0 <=? z) && (z <? 256)) eqn:E2.
  { cbn [app load_loop]. cbn. f_equal. f_equal. f_equal. rewrite byte_of_val. lia. }
  destruct ((-32768 <=? z) && (z <? 32768)) eqn:E3.
  { cbn [app load_loop]. cbn. f_equal. f_equal. f_equal.
    rewrite N2Z.inj_add, N2Z.inj_mul, !byte_of_val. cbn [Z.of_N].
    match goal with |- context [if ?c then _ else _] => destruct c eqn:? end; lia. }
  destruct ((0 <=? z) && (z <? 65536)) eqn:E4.
  { cbn [app load_loop]. cbn. f_equal. f_equal. f_equal.
    rewrite N2Z.inj_add, N2Z.inj_mul, !byte_of_val. cbn [Z.of_N]. lia. }
  cbn [app load_loop]. cbn. f_equal. f_equal. f_equal.
  repeat (rewrite N2Z.inj_add || rewrite N2Z.inj_mul). rewrite !byte_of_val. cbn [Z.of_N]. rewrite recombine4. unfold wrap32.
  pose proof (Z.mod_pos_bound z 4294967296 ltac:(lia)). lia.
Qed.

Lemma binop_roundtrip o : binop_of (binop_code o) = Some o /\ (binop_code o < MAX_OPCODE)%N /\ param_sz (binop_code o) = Some 0%nat.
Proof. destruct o; repeat split; reflexivity. Qed.
Lemma unop_roundtrip o : unop_of (unop_code o) = Some o /\ binop_of (unop_code o) = None /\ (unop_code o < MAX_OPCODE)%N /\ param_sz (unop_code o) = Some 0%nat.
Proof. destruct o; repeat split; reflexivity. Qed.

Lemma bin_decode o rest fuel d acc : 2 <= d ->
  load_loop (S fuel) (binop_code o :: rest) d acc = load_loop fuel rest (d - 1) (IBin o :: acc).
Proof.
  intros Hd. destruct (binop_roundtrip o) as (A & B & C). cbn [load_loop].
  assert (E : (MAX_OPCODE <=? binop_code o)%N = false) by lia. rewrite E, C. cbn [length Nat.ltb Nat.leb firstn skipn].
  rewrite A. assert (E2 : (d - 1 <=? 0) = false) by lia. rewrite E2. reflexivity.
Qed.
Lemma un_decode o rest fuel d acc : 1 <= d ->
  load_loop (S fuel) (unop_code o :: rest) d acc = load_loop fuel rest d (IUn o :: acc).
Proof.
  intros Hd. destruct (unop_roundtrip o) as (A & A' & B & C). cbn [load_loop].
  assert (E : (MAX_OPCODE <=? unop_code o)%N = false) by lia. rewrite E, C. cbn [length Nat.ltb Nat.leb firstn skipn].
  rewrite A', A. assert (E2 : (d <=? 0) = false) by lia. rewrite E2. reflexivity.
Qed.
Lemma cond_decode rest fuel d acc : 3 <= d ->
  load_loop (S fuel) (0x0F%N :: rest) d acc = load_loop fuel rest (d - 2) (ICond :: acc).
Proof. intros Hd. cbn [load_loop]. cbn. assert (E2 : (d - 2 <=? 0) = false) by lia. rewrite E2. reflexivity. Qed.
Lemma setbits_decode m v rest fuel d acc : 1 <= d -> 0 <= m < 65536 -> 0 <= v < 65536 ->
  load_loop (S fuel) ([0x41%N; byte_of (m / 256); byte_of m; byte_of (v / 256); byte_of v] ++ rest) d acc
  = load_loop fuel rest d (ISetBits m v :: acc).
Proof.
  intros Hd Hm Hv. cbn [app load_loop]. cbn. assert (E2 : (d <=? 0) = false) by lia. rewrite E2.
  f_equal. f_equal. f_equal; rewrite N2Z.inj_add, N2Z.inj_mul, !byte_of_val; cbn [Z.of_N]; lia.
Qed.

Lemma decode_app e : forall rest fuel d acc, wf e -> 0 <= d -> (length (icode e) <= fuel)%nat ->
  load_loop fuel (code e ++ rest) d acc = load_loop (fuel - length (icode e)) rest (d + 1) (rev (icode e) ++ acc).
Proof.
  induction e as [z|o a IHa b IHb|o a IHa|c IHc t IHt f IHf|m v a IHa]; intros rest fuel d acc Hw Hd Hf; cbn [code icode wf] in *.
  - destruct fuel as [|fuel]; [cbn in Hf; lia|]. rewrite push_decode by exact Hw. cbn [length rev app]. f_equal. lia.
  - destruct Hw as [Wa Wb]. rewrite !app_length in Hf. cbn [length] in Hf.
    rewrite <- !app_assoc. rewrite IHa by (try assumption; lia).
    rewrite IHb by (try assumption; lia).
    remember (fuel - length (icode a) - length (icode b))%nat as f2 eqn:Ef2.
    destruct f2 as [|f2]; [lia|]. cbn [app]. rewrite bin_decode by lia.
    rewrite !rev_app_distr. cbn [rev app]. rewrite !app_length. cbn [length]. rewrite <- !app_assoc. cbn [app].
    f_equal; [lia|lia].
  - rewrite !app_length in Hf. cbn [length] in Hf.
    rewrite <- !app_assoc. rewrite IHa by (try assumption; lia).
    remember (fuel - length (icode a))%nat as f2 eqn:Ef2.
    destruct f2 as [|f2]; [lia|]. cbn [app]. rewrite un_decode by lia.
    rewrite !rev_app_distr. cbn [rev app]. rewrite !app_length. cbn [length]. f_equal; lia.
  - destruct Hw as (Wc & Wt & Wf). rewrite !app_length in Hf. cbn [length] in Hf.
    rewrite <- !app_assoc. rewrite IHc by (try assumption; lia).
    rewrite IHt by (try assumption; lia). rewrite IHf by (try assumption; lia).
    remember (fuel - length (icode c) - length (icode t) - length (icode f))%nat as f2 eqn:Ef2.
    destruct f2 as [|f2]; [lia|]. cbn [app]. rewrite cond_decode by lia.
    rewrite !rev_app_distr. cbn [rev app]. rewrite !app_length. cbn [length]. rewrite <- !app_assoc. cbn [app].
    f_equal; [lia|lia].
  - destruct Hw as (Wm & Wv & Wa). rewrite !app_length in Hf. cbn [length] in Hf.
    rewrite <- !app_assoc. rewrite IHa by (try assumption; lia).
    remember (fuel - length (icode a))%nat as f2 eqn:Ef2.
    destruct f2 as [|f2]; [lia|]. rewrite setbits_decode by (try assumption; lia).
    rewrite !rev_app_distr. cbn [rev app]. rewrite !app_length. cbn [length]. f_equal; lia.
Qed.

Lemma icode_le_code e : (length (icode e) <= length (code e))%nat.
Proof.
  induction e as [z|o a IHa b IHb|o a IHa|c IHc t IHt f IHf|m v a IHa]; cbn [icode code]; rewrite ?app_length; cbn [length]; try lia.
  unfold push_code. repeat match goal with |- context [if ?c then _ else _] => destruct c end; cbn [length]; lia.
Qed.

Theorem load_code e : wf e -> load (code e ++ [0x30%N]) = LLoaded (icode e ++ [IPopRet]).
Proof.
  intros Hw. unfold load. pose proof (icode_le_code e) as Hl.
  rewrite decode_app; [|exact Hw|lia|rewrite app_length; cbn [length]; lia].
  rewrite app_length. cbn [length].
  remember (S (length (code e) + 1) - length (icode e))%nat as f2 eqn:Ef2.
  destruct f2 as [|[|f2]]; [lia|lia|].
  cbn [load_loop]. cbn. rewrite app_nil_r. rewrite rev_involutive. reflexivity.
Qed.

Theorem vm_evaluates e : wf e -> (sdepth e < STACK_MAX)%nat ->
  load (code e ++ [0x30%N]) = LLoaded (icode e ++ [IPopRet]) /\
  run (icode e ++ [IPopRet]) [] = RDone (match eval e with Some v => (finished, v) | None => (died_early, 0) end).
Proof. intros Hw Hd. split; [apply load_code; exact Hw|apply run_evaluates; exact Hd]. Qed.
