(* tie A obligations for the VM model: opcode numbering, parameter sizes, availability in both program kinds, the
   documented opcode table and the stack size, all regenerated from the source on this run *)
From GR Require Import Base.Bytes Model.VmModel Gen.GenVm.
From Coq Require Import String NArith List Bool.
Local Open Scope N_scope.
Local Open Scope string_scope.

(* the model's subset: (code, canonical name) *)
Definition subset : list (N * string) :=
  [(0x00, "nop"); (0x01, "pushbyte"); (0x02, "pushbyteu"); (0x03, "pushshort"); (0x04, "pushshortu"); (0x05, "pushlong");
   (binop_code VmModel.Add, "add"); (binop_code Sub, "sub"); (binop_code Mul, "mul"); (binop_code Div, "div"); (binop_code Min, "min");
   (binop_code Max, "max"); (unop_code Neg, "neg"); (unop_code Trunc8, "trunc8"); (unop_code Trunc16, "trunc16"); (0x0F, "cond");
   (binop_code And, "and"); (binop_code Or, "or"); (unop_code Not, "not"); (binop_code Equal, "equal"); (binop_code NotEq, "noteq");
   (binop_code Less, "less"); (binop_code Gtr, "gtr"); (binop_code LessEq, "lesseq"); (binop_code GtrEq, "gtreq");
   (0x30, "popret"); (0x31, "retzero"); (0x32, "rettrue");
   (binop_code BitOr, "bitor"); (binop_code BitAnd, "bitand"); (unop_code BitNot, "bitnot"); (0x41, "bitset")].

Definition lookup_code (name : string) : option N :=
  match find (fun e => String.eqb (fst e) name) enum_opcode with Some e => Some (snd e) | None => None end.
Definition table_row (c : N) := match find (fun e => N.eqb (fst e) c) opcode_table with Some e => Some (snd e) | None => None end.
Definition doc_row (c : N) := match find (fun e => N.eqb (fst e) c) doc_table with Some e => Some (snd e) | None => None end.

Definition row_ok (e : N * string) : bool :=
  let '(c, name) := e in
  match lookup_code name, table_row c, doc_row c, param_sz c with
  | Some c', Some (tname, psz, act, con), Some dname, Some mpsz =>
      N.eqb c' c && String.eqb tname name && String.eqb dname name && N.eqb psz (N.of_nat mpsz) && act && con
  | _, _, _, _ => false
  end.

Lemma gen_vm_agrees :
  forallb row_ok subset = true /\ GenVm.STACK_MAX = N.of_nat VmModel.STACK_MAX /\ lookup_code "maxopcode" = Some VmModel.MAX_OPCODE.
Proof. vm_compute. repeat split; reflexivity. Qed.

(* the documented width and signedness of the push opcodes against the model: a push of all-one immediate bytes yields -1 exactly for
   the opcodes the document calls signed, and 2^width - 1 for those it calls unsigned *)
Local Open Scope Z_scope.
Definition pushed_all_ones (c : N) (width : N) : option Z :=
  match load (c :: repeat 0xFF%N (N.to_nat (width / 8)) ++ [0x30%N]) with
  | LLoaded code => match run code [] with RDone (finished, v) => Some v | _ => None end
  | _ => None
  end.
Definition push_row_ok (e : N * (N * bool)) : bool :=
  let '(c, (w, sg)) := e in
  match pushed_all_ones c w with
  | Some v => if sg then v =? -1 else v =? 2 ^ Z.of_N w - 1
  | None => false
  end.
Lemma gen_vm_doc_push_agrees : forallb push_row_ok doc_push = true /\ map fst doc_push = [1; 2; 3; 4; 5]%N.
Proof. vm_compute. split; reflexivity. Qed.
