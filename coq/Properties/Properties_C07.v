(* Properties_C07.v — ONLY the property theorems for C07 (stack machine).  Model: Model/VmModel.v *)
From GR Require Import Base.Bytes Model.VmModel Proofs.VmProofs Gen.GenVm Proofs.GenAgreeVm.
From Coq Require Import ZArith String.
Local Open Scope Z_scope.

(* For every expression tree over the push / arithmetic / comparison / logical / conditional / truncation / bit opcodes
   whose constants are 32-bit and which fits the machine's stack: the loader accepts its postfix bytecode, decodes it to
   the expected instructions, and running it returns exactly the value of the tree under the opcode specification on
   32-bit two's-complement integers — or dies cleanly where the specification has no value (zero divisor, INT_MIN / -1). *)
Theorem C07_vm_evaluates : forall e, wf e -> (sdepth e < VmModel.STACK_MAX)%nat ->
  load (code e ++ [0x30%N]) = LLoaded (icode e ++ [IPopRet]) /\
  run (icode e ++ [IPopRet]) [] = RDone (match eval e with Some v => (finished, v) | None => (died_early, 0) end).
Proof. exact vm_evaluates. Qed.
Print Assumptions C07_vm_evaluates.

(* Whatever bytecode (over this opcode subset) the loader accepts never pops an empty stack and always reaches a return:
   the loader's stack-depth analysis is sound. *)
Theorem C07_loader_stack_sound : forall bc c, load bc = LLoaded c -> run c [] <> RUnderflow /\ run c [] <> RRanOff.
Proof. exact loader_stack_sound. Qed.
Print Assumptions C07_loader_stack_sound.

(* tie A: opcode numbers, parameter sizes, availability for actions and constraints, the names in doc/OpCodes.adoc, the
   stack size and MAX_OPCODE as the source has them on this run *)
Theorem C07_gen_tables_agree :
  forallb row_ok subset = true /\ GenVm.STACK_MAX = N.of_nat VmModel.STACK_MAX /\ lookup_code "maxopcode"%string = Some VmModel.MAX_OPCODE.
Proof. exact gen_vm_agrees. Qed.
Print Assumptions C07_gen_tables_agree.

(* non-vacuity: (13 + 11 - 4 ? 42 : 43) as in tests/vm, INT_MIN / -1 dies *)
Example C07_example :
  let e := ECond (EBin Sub (EBin Add (EConst 11) (EConst 13)) (EConst 4)) (EConst 42) (EConst 43) in
  wf e /\ eval e = Some 42 /\ eval (EBin Div (EConst INT_MIN) (EConst (-1))) = None /\
  run (icode (EBin Div (EConst INT_MIN) (EConst (-1))) ++ [IPopRet]) [] = RDone (died_early, 0).
Proof. vm_compute. intuition discriminate. Qed.
