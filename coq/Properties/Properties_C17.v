(* Properties_C17.v — ONLY the property theorems for C17 (the free-interval set searched by the collision fixer).
   Model: Model/ZonesModel.v.  The geometric clauses of C17 (limit rectangle, resolved verdict) are decided by the oracle of
   tools/props/c17.py only; see DESIGN.md section 6/C17. *)
From GR Require Import Base.Bytes Model.ZonesModel Proofs.ZonesProofs.
From Coq Require Import ZArith.
Local Open Scope Z_scope.

(* After initialise and ANY sequence of exclude / exclude_with_margins / weighted operations the interval list is sorted,
   pairwise disjoint (touching at most), made of well-formed intervals and inside [_pos, _posm]; on a zone of non-zero width
   no interval is empty. *)
Theorem C17_zones_reachable : forall sd xmin xmax mlen mwt a0 ops, xmin <= xmax ->
  ZInv (fold_left zapply ops (initialise sd xmin xmax mlen mwt a0)).
Proof. intros. apply zones_reachable_inv, initialise_inv. assumption. Qed.
Print Assumptions C17_zones_reachable.

(* No operation ever adds a position: whatever is on offer after a sequence of operations was on offer before it. *)
Theorem C17_coverage_never_grows : forall ops z p, ZInv z -> zcovered (fold_left zapply ops z) p -> zcovered z p.
Proof. exact zones_coverage_never_grows. Qed.
Print Assumptions C17_coverage_never_grows.

(* A weighted insert changes costs only: exactly the same positions stay on offer. *)
Theorem C17_insert_keeps_positions : forall z e p, ZInv z -> (zcovered (insert z e) p <-> zcovered z p).
Proof. exact insert_cover. Qed.
Print Assumptions C17_insert_keeps_positions.

(* An excluded position is never offered again (zones of non-zero width). *)
Theorem C17_excluded_never_offered : forall z x xm ops p, ZInv z -> z_pos z < z_posm z -> x < p < xm ->
  ~ zcovered (fold_left zapply ops (exclude z x xm)) p.
Proof. exact zones_excluded_stays_excluded. Qed.
Print Assumptions C17_excluded_never_offered.

(* The unrestricted statement is REFUTED: on a zone of zero width Zones::remove is a no-op, the single position stays on
   offer inside an excluded range (DESIGN.md section 7, F24). *)
Theorem C17_excluded_zero_width_refuted : exists z x xm p, ZInv z /\ x < p < xm /\ zcovered (exclude z x xm) p.
Proof. exact zones_excluded_degenerate_refuted. Qed.
Print Assumptions C17_excluded_zero_width_refuted.

(* Whatever interval closest() settles on, and however the float division in test_position rounds, the position it
   reports lies inside that interval, hence on offer. *)
Theorem C17_closest_in_zone : forall zerox z e origin, ZInv z -> In e (z_excl z) -> zcovered z (test_position zerox e origin).
Proof. exact closest_candidate_covered. Qed.
Print Assumptions C17_closest_in_zone.

(* non-vacuity *)
Example C17_example :
  let z := fold_left zapply [ZExcludeM 10 20 0; ZWeighted 0 (-5) 15 1 2 3 4 0 7 false; ZExclude 40 45]
                     (initialise false (-50) 50 5 2 0) in
  map (fun e => (ex e, exm e, esm e)) (z_excl z) = [(-50, -5, 1); (-5, 5, 5); (5, 10, 7); (20, 25, 3); (25, 40, 1); (45, 50, 1)]
  /\ z_pos z < z_posm z.
Proof. vm_compute. split; reflexivity. Qed.

(* ---- the limit clause, over the definitions regenerated from ShiftCollider::initSlot / resolve (Gen/GenColl.v) *)
From GR Require Import Gen.GenColl Proofs.GenAgreeColl.
(* When the limit rectangle is well formed and the glyph currently sits inside it, every position inside the range of an axis
   maps, through resolve()'s own arithmetic, to a shift with offset + shift inside the limit rectangle (coordinates doubled so
   that the diagonal halves stay integral).  Together with C17_closest_in_zone: every shift the fixer computes respects the limit. *)
Theorem C17_limit_respected : forall Lbx Lby Ltx Lty ox oy sx sy, Lbx <= Ltx -> Lby <= Lty -> (Lbx <= ox + sx <= Ltx /\ Lby <= oy + sy <= Lty) ->
  (forall p, range_mn0 Lbx Lby Ltx Lty ox oy sx sy <= p <= range_mx0 Lbx Lby Ltx Lty ox oy sx sy -> inside2 Lbx Lby Ltx Lty ox oy (testp2_0 sx sy (p - tbase0 ox oy))) /\
  (forall p, range_mn1 Lbx Lby Ltx Lty ox oy sx sy <= p <= range_mx1 Lbx Lby Ltx Lty ox oy sx sy -> inside2 Lbx Lby Ltx Lty ox oy (testp2_1 sx sy (p - tbase1 ox oy))) /\
  (forall p, range_mn2 Lbx Lby Ltx Lty ox oy sx sy <= p <= range_mx2 Lbx Lby Ltx Lty ox oy sx sy -> inside2 Lbx Lby Ltx Lty ox oy (testp2_2 sx sy (p - tbase2 ox oy))) /\
  (forall p, range_mn3 Lbx Lby Ltx Lty ox oy sx sy <= p <= range_mx3 Lbx Lby Ltx Lty ox oy sx sy -> inside2 Lbx Lby Ltx Lty ox oy (testp2_3 sx sy (p - tbase3 ox oy))).
Proof. exact coll_limit_respected. Qed.
Print Assumptions C17_limit_respected.

(* the four ranges are well formed zones (hypothesis xmin <= xmax of C17_zones_reachable) *)
Theorem C17_ranges_wellformed : forall Lbx Lby Ltx Lty ox oy sx sy, Lbx <= Ltx -> Lby <= Lty -> (Lbx <= ox + sx <= Ltx /\ Lby <= oy + sy <= Lty) ->
  range_mn0 Lbx Lby Ltx Lty ox oy sx sy <= range_mx0 Lbx Lby Ltx Lty ox oy sx sy /\ range_mn1 Lbx Lby Ltx Lty ox oy sx sy <= range_mx1 Lbx Lby Ltx Lty ox oy sx sy /\
  range_mn2 Lbx Lby Ltx Lty ox oy sx sy <= range_mx2 Lbx Lby Ltx Lty ox oy sx sy /\ range_mn3 Lbx Lby Ltx Lty ox oy sx sy <= range_mx3 Lbx Lby Ltx Lty ox oy sx sy.
Proof. exact ranges_wf. Qed.
Print Assumptions C17_ranges_wellformed.

(* The kerning path of the fixer (KernCollider, regenerated from src/Collider.cpp): for ANY needed kern, any offset carried over from earlier
   collision passes and any well-formed limit rectangle, the kern KernCollider::resolve returns keeps the accumulated offset inside the
   rectangle's x range. *)
Theorem C17_kern_limit_respected : forall Lbx Ltx ox needed, Lbx <= Ltx -> Lbx <= ox + GenColl.kern_result Lbx Ltx ox needed <= Ltx.
Proof. exact kern_limit_respected. Qed.
Print Assumptions C17_kern_limit_respected.
