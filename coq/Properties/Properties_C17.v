(* Properties_C17.v — ONLY the property theorems for C17 (the free-interval set searched by the collision fixer).
   Model: Model/ZonesModel.v.  The geometric clauses of C17 (limit rectangle, resolved verdict) are decided by the oracle of
   tools/props/c17.py only; see DESIGN.md section 6/C17. *)
From GR Require Import Base.Bytes Model.ZonesModel Proofs.ZonesProofs.
From Coq Require Import ZArith.
Local Open Scope Z_scope.

(* After initialise and ANY sequence of exclude / exclude_with_margins / weighted operations the interval list is sorted,
   pairwise disjoint (touching at most), made of well-formed intervals and inside [_pos, _posm]; on a zone of non-zero width
   no interval is empty. *)
Theorem C17_zones_reachable : forall sd xmin xmax mlen mwt a0 ops, xmin <= xmax ->
  ZInv (fold_left zapply ops (initialise sd xmin xmax mlen mwt a0)).
Proof. intros. apply zones_reachable_inv, initialise_inv. assumption. Qed.
Print Assumptions C17_zones_reachable.

(* No operation ever adds a position: whatever is on offer after a sequence of operations was on offer before it. *)
Theorem C17_coverage_never_grows : forall ops z p, ZInv z -> zcovered (fold_left zapply ops z) p -> zcovered z p.
Proof. exact zones_coverage_never_grows. Qed.
Print Assumptions C17_coverage_never_grows.

(* A weighted insert changes costs only: exactly the same positions stay on offer. *)
Theorem C17_insert_keeps_positions : forall z e p, ZInv z -> (zcovered (insert z e) p <-> zcovered z p).
Proof. exact insert_cover. Qed.
Print Assumptions C17_insert_keeps_positions.

(* An excluded position is never offered again (zones of non-zero width). *)
Theorem C17_excluded_never_offered : forall z x xm ops p, ZInv z -> z_pos z < z_posm z -> x < p < xm ->
  ~ zcovered (fold_left zapply ops (exclude z x xm)) p.
Proof. exact zones_excluded_stays_excluded. Qed.
Print Assumptions C17_excluded_never_offered.

(* The unrestricted statement is REFUTED: on a zone of zero width Zones::remove is a no-op, the single position stays on
   offer inside an excluded range (DESIGN.md section 7, F24). *)
Theorem C17_excluded_zero_width_refuted : exists z x xm p, ZInv z /\ x < p < xm /\ zcovered (exclude z x xm) p.
Proof. exact zones_excluded_degenerate_refuted. Qed.
Print Assumptions C17_excluded_zero_width_refuted.

(* Whatever interval closest() settles on, and however the float division in test_position rounds, the position it
   reports lies inside that interval, hence on offer. *)
Theorem C17_closest_in_zone : forall zerox z e origin, ZInv z -> In e (z_excl z) -> zcovered z (test_position zerox e origin).
Proof. exact closest_candidate_covered. Qed.
Print Assumptions C17_closest_in_zone.

(* non-vacuity *)
Example C17_example :
  let z := fold_left zapply [ZExcludeM 10 20 0; ZWeighted 0 (-5) 15 1 2 3 4 0 7 false; ZExclude 40 45]
                     (initialise false (-50) 50 5 2 0) in
  map (fun e => (ex e, exm e, esm e)) (z_excl z) = [(-50, -5, 1); (-5, 5, 5); (5, 10, 7); (20, 25, 3); (25, 40, 1); (45, 50, 1)]
  /\ z_pos z < z_posm z.
Proof. vm_compute. split; reflexivity. Qed.
