(* Properties_C11.v — ONLY the property theorems for C11 (UTF-8/16/32 decoding and counting).
   Model: Model/UtfModel.v (hand-written after src/inc/UtfCodec.h and count_unicode_chars in src/gr_segment.cpp).
   A region of memory is the list of its code units; a read outside it is the trap value None. *)
From GR Require Import Base.Bytes Model.UtfModel Proofs.UtfGeneric Proofs.UtfSweep8 Proofs.UtfSweep16 Proofs.UtfProofs
                       Gen.GenUtf Proofs.GenAgreeUtf.
Local Open Scope N_scope.

(* ---- gr_count_unicode_characters(enc, begin, end, &err): never reads outside [begin,end), for ANY content *)
Theorem C11_utf8_bounded_reads_inside : forall m, count_end get8 validate8 m <> None.
Proof. exact (count_end_no_oob get8 validate8 get8_none_validate). Qed.
Print Assumptions C11_utf8_bounded_reads_inside.

Theorem C11_utf16_bounded_reads_inside : forall m, count_end get16 validate16 m <> None.
Proof. exact (count_end_no_oob get16 validate16 get16_none_validate). Qed.
Print Assumptions C11_utf16_bounded_reads_inside.

Theorem C11_utf32_bounded_reads_inside : forall m, count_end get32 validate32 m <> None.
Proof. exact (count_end_no_oob get32 validate32 get32_none_validate). Qed.
Print Assumptions C11_utf32_bounded_reads_inside.

(* ---- end == NULL: nothing beyond the first NUL unit is read (the region is exactly text + terminator) *)
Theorem C11_utf8_nul_reads_inside : forall t, count_nul get8 (t ++ [0]) <> None.
Proof. exact (count_nul_no_oob get8 get8_len get8_nul_some get8_nul_len get8_nul_zero). Qed.
Print Assumptions C11_utf8_nul_reads_inside.

Theorem C11_utf16_nul_reads_inside : forall t, count_nul get16 (t ++ [0]) <> None.
Proof. exact (count_nul_no_oob get16 get16_len get16_nul_some get16_nul_len get16_nul_zero). Qed.
Print Assumptions C11_utf16_nul_reads_inside.

Theorem C11_utf32_nul_reads_inside : forall t, count_nul get32 (t ++ [0]) <> None.
Proof. exact (count_nul_no_oob get32 get32_len get32_nul_some get32_nul_len get32_nul_zero). Qed.
Print Assumptions C11_utf32_nul_reads_inside.

(* ---- decoding is exact: every scalar round-trips through its canonical encoding, whatever follows *)
Theorem C11_utf8_roundtrip : forall u rest, u < 0x110000 /\ ~ (0xD800 <= u <= 0xDFFF) ->
  get8 (put8 u ++ rest) = Some (mkgot u (length (put8 u)) true).
Proof. exact get8_put8. Qed.
Print Assumptions C11_utf8_roundtrip.

Theorem C11_utf16_roundtrip : forall u rest, u < 0x110000 /\ ~ (0xD800 <= u <= 0xDFFF) ->
  get16 (put16 u ++ rest) = Some (mkgot u (length (put16 u)) true).
Proof. exact get16_put16. Qed.
Print Assumptions C11_utf16_roundtrip.

(* nothing above U+10FFFF and no surrogate code point is ever produced by a successful UTF-8 decode *)
Theorem C11_utf8_range : forall m g, get8 m = Some g -> g_ok g = true -> g_usv g < 0x110000 /\ ~ (0xD800 <= g_usv g <= 0xDFFF).
Proof. exact get8_ok_below_limit. Qed.
Print Assumptions C11_utf8_range.

(* a surrogate code point is not a character in any encoding form: written out as three UTF-8 bytes (ED A0..BF xx) or as one UTF-32
   unit it decodes to U+FFFD with the error flag, as a lone surrogate does in UTF-16 (true of the repaired decoders: known_findings.txt) *)
Theorem C11_utf8_surrogates_refused : forall u, 0xD800 <= u <= 0xDFFF -> exists l, get8 (put8 u) = Some (mkgot 0xFFFD l false).
Proof. exact get8_surrogate. Qed.
Print Assumptions C11_utf8_surrogates_refused.
Theorem C11_utf32_surrogates_refused : forall u rest, 0xD800 <= u <= 0xDFFF -> get32 (u :: rest) = Some (mkgot 0xFFFD 1 false).
Proof. exact get32_surrogate. Qed.
Print Assumptions C11_utf32_surrogates_refused.

(* ---- well-formed text that does not end in a truncated sequence: exact count, *pError == NULL *)
Theorem C11_utf8_count_exact : forall us, Forall (fun u => (u < 0x110000 /\ ~ (0xD800 <= u <= 0xDFFF)) /\ u <> 0) us ->
  count_end get8 validate8 (enc_all put8 us) = Some (length us, None).
Proof. exact (count_end_exact get8 validate8 put8 valid8 get8_put8 put8_len validate8_put8 eq_refl). Qed.
Print Assumptions C11_utf8_count_exact.

Theorem C11_utf16_count_exact : forall us, Forall (fun u => valid16 u /\ u <> 0) us ->
  count_end get16 validate16 (enc_all put16 us) = Some (length us, None).
Proof. exact (count_end_exact get16 validate16 put16 valid16 get16_put16 put16_len validate16_put16 eq_refl). Qed.
Print Assumptions C11_utf16_count_exact.

Theorem C11_utf32_count_exact : forall us, Forall (fun u => (u < 0x110000 /\ ~ (0xD800 <= u <= 0xDFFF)) /\ u <> 0) us ->
  count_end get32 validate32 (enc_all put32 us) = Some (length us, None).
Proof. exact (count_end_exact get32 validate32 put32 valid32 get32_put32 put32_len validate32_put32 eq_refl). Qed.
Print Assumptions C11_utf32_count_exact.

(* ... and in the NUL-terminated form, whatever follows the terminator *)
Theorem C11_utf8_count_exact_nul : forall us rest, Forall (fun u => (u < 0x110000 /\ ~ (0xD800 <= u <= 0xDFFF)) /\ u <> 0) us ->
  count_nul get8 (enc_all put8 us ++ 0 :: rest) = Some (length us, None).
Proof. exact (count_nul_exact get8 put8 valid8 get8_nul_zero get8_put8 put8_len). Qed.
Print Assumptions C11_utf8_count_exact_nul.

Theorem C11_utf16_count_exact_nul : forall us rest, Forall (fun u => valid16 u /\ u <> 0) us ->
  count_nul get16 (enc_all put16 us ++ 0 :: rest) = Some (length us, None).
Proof. exact (count_nul_exact get16 put16 valid16 get16_nul_zero get16_put16 put16_len). Qed.
Print Assumptions C11_utf16_count_exact_nul.

(* ---- ill-formed text: the error is reported at the first ill-formed sequence and the count is the number
        of well-formed characters before it (so in particular it does not exceed that number) *)
Theorem C11_utf8_error_reported : forall us bad g, Forall (fun u => (u < 0x110000 /\ ~ (0xD800 <= u <= 0xDFFF)) /\ u <> 0) us ->
  get8 bad = Some g -> g_ok g = false -> validate8 (enc_all put8 us ++ bad) = true ->
  count_end get8 validate8 (enc_all put8 us ++ bad) = Some (length us, Some (length (enc_all put8 us))).
Proof. exact (count_end_error get8 validate8 put8 valid8 get8_len get8_put8 put8_len). Qed.
Print Assumptions C11_utf8_error_reported.

Theorem C11_utf16_error_reported : forall us bad g, Forall (fun u => valid16 u /\ u <> 0) us ->
  get16 bad = Some g -> g_ok g = false -> validate16 (enc_all put16 us ++ bad) = true ->
  count_end get16 validate16 (enc_all put16 us ++ bad) = Some (length us, Some (length (enc_all put16 us))).
Proof. exact (count_end_error get16 validate16 put16 valid16 get16_len get16_put16 put16_len). Qed.
Print Assumptions C11_utf16_error_reported.

(* whenever an error is reported, *pError points inside the buffer *)
Theorem C11_utf8_error_inside : forall m c e, count_end get8 validate8 m = Some (c, Some e) -> (e < length m)%nat.
Proof. exact (count_end_err_inside get8 validate8 get8_len eq_refl). Qed.
Print Assumptions C11_utf8_error_inside.

Theorem C11_utf16_error_inside : forall m c e, count_end get16 validate16 m = Some (c, Some e) -> (e < length m)%nat.
Proof. exact (count_end_err_inside get16 validate16 get16_len eq_refl). Qed.
Print Assumptions C11_utf16_error_inside.

(* ---- resynchronisation: an ill-formed sequence steps over at most 4 units and everything after the first
        is a continuation byte, so it never swallows the lead/ASCII byte of the next character *)
Theorem C11_utf8_resync : forall m g, get8 m = Some g ->
  (1 <= g_len g <= 4)%nat /\ Forall (fun b => is_cont b = true) (firstn (g_len g - 1) (tl m)).
Proof.
  intros m g H. split; [split; [exact (proj1 (get8_len m g H))|exact (get8_len4 m g H)]|exact (get8_skips_only_conts m g H)].
Qed.
Print Assumptions C11_utf8_resync.

(* ---- the same scalars in the three encodings decode to the same characters (bases are the prefix sums of
        the unit lengths); n is gr_make_seg's nChars *)
Theorem C11_encodings_agree : forall us n r8 r16 r32, Forall (fun u => valid16 u /\ u <> 0) us ->
  exists l8 l16 l32,
    read_text get8 n (enc_all put8 us ++ 0 :: r8) 0 = Some l8 /\
    read_text get16 n (enc_all put16 us ++ 0 :: r16) 0 = Some l16 /\
    read_text get32 n (enc_all put32 us ++ 0 :: r32) 0 = Some l32 /\
    map fst l8 = firstn n us /\ map fst l16 = firstn n us /\ map fst l32 = firstn n us.
Proof. exact encodings_agree. Qed.
Print Assumptions C11_encodings_agree.

(* ---- tie A: the decoder tables regenerated from src/UtfCodec.cpp on this run are the model's *)
Theorem C11_gen_tables_agree : GenUtf.sz_lut = UtfModel.sz_lut /\ GenUtf.mask_lut = UtfModel.mask_lut /\ GenUtf.limit8 = UtfModel.limit
  /\ GenUtf.limit32 = UtfModel.limit.
Proof. exact gen_utf_tables_agree. Qed.
Print Assumptions C11_gen_tables_agree.

(* non-vacuity *)
Example C11_example :
  count_end get8 validate8 [0x7F; 0xDF; 0xBF; 0xEF; 0xBF; 0xBF; 0xF4; 0x8F; 0xBF; 0xBF] = Some (4%nat, None) /\
  count_end get8 validate8 [0x65; 0x75; 0xF3; 0x84; 0xA5; 0xF5; 0x75] = Some (2%nat, Some 2%nat) /\
  count_end get8 validate8 [0x65; 0xE3; 0x84] = Some (0%nat, Some 2%nat) /\
  enc_all put8 [0x7F; 0x7FF; 0xFFFF; 0x10FFFF] = [0x7F; 0xDF; 0xBF; 0xEF; 0xBF; 0xBF; 0xF4; 0x8F; 0xBF; 0xBF].
Proof. vm_compute. repeat split. Qed.
