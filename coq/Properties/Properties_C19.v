(* Properties_C19.v — ONLY the property theorems for C19 (line breaking and justification).  Model: Model/LineModel.v *)
From GR Require Import Base.Bytes Model.StreamModel Model.LineModel Proofs.StreamProofs Proofs.LineProofs.
From Coq Require Import Permutation.

(* Any sequence of line breaks and of the first/last bracket that justification installs and restores — i.e. every justify call
   that does not trigger a reversal — leaves every slot in place: the concatenation of the lines is unchanged, lines are only
   ever split where the application cut them. *)
Theorem C19_no_reversal_preserves_lines : forall ops s s', Forall no_reverse ops -> lrun s ops = LOk s' ->
  concat (l_lines s') = concat (l_lines s).
Proof. exact lrun_no_reverse. Qed.
Print Assumptions C19_no_reversal_preserves_lines.

(* A reversal is harmless exactly under its precondition (m_last is the end of the chain headed by m_first): it then permutes
   that one line and touches no other. *)
Theorem C19_reversal_sound_under_precondition : forall s marks s', lapply s (LReverse marks) = LOk s' ->
  Forall2 (@Permutation sid) (l_lines s') (l_lines s).
Proof. exact lapply_reverse_sound. Qed.
Print Assumptions C19_reversal_sound_under_precondition.

(* The unconditional statement is REFUTED: once the stream has been cut, the segment-global reverseSlots that justify (and
   positionSlots) call runs with a stale m_last.  DESIGN.md section 7, F15 / F16; recorded as known findings. *)
Theorem C19_cut_lines_refuted : exists ops, lrun (linit [0%N; 1%N; 2%N]) ops = LErr LStaleLast.
Proof. exact cut_then_reverse_is_unsound. Qed.
Print Assumptions C19_cut_lines_refuted.

(* The recorded defect at the level of the links (Model/LinePtrModel.v, the statement-by-statement transcription of reverseSlots):
   ten slots (1 and 9 are marks), cut before slot 4; justifying the second line with pLast = its first slot makes Segment::justify install
   m_first = slot 4, m_last = slot 3 — a last slot that is not on the chain headed by m_first — and positionSlots reverses twice.  The
   events below are the ones the engine recorded (Padauk.ttf, direction flags 2, the replay of finding F16); the model reproduces every
   link of the engine's result: the first line has swallowed the second in reverse, the second is a single slot. *)
From GR Require Import Model.LinePtrModel.
From Coq Require Import List.
Import ListNotations.
Fixpoint chain_from (fuel : nat) (nx : list ptr) (p : ptr) : list nat :=
  match fuel, p with S f, Some i => i :: chain_from f nx (getp nx i) | _, _ => [] end.
Fixpoint prun (marks : list bool) (s : pstate) (os : list pop) : pres :=
  match os with [] => POk s | o :: r => match papply marks s o with POk s' => prun marks s' r | e => e end end.
Example C19_links_of_the_recorded_defect :
  let n := 10%nat in
  let s0 := mkp (map (fun i => if Nat.eqb i 9 then None else Some (S i)) (seq 0 n)) (map (fun i => match i with O => None | S j => Some j end) (seq 0 n)) (Some 0%nat) (Some 9%nat) in
  let marks := [false; true; false; false; false; false; false; false; false; true] in
  match prun marks s0 [PBreak 4; PSetEnds (Some 4%nat) (Some 3%nat); PReverse; PReverse; PSetEnds (Some 0%nat) (Some 9%nat)] with
  | POk s => chain_from 20 (p_next s) (Some 0%nat) = [0; 1; 2; 3; 7; 6; 5; 4]%nat /\ chain_from 20 (p_next s) (Some 4%nat) = [4]%nat
  | _ => False
  end.
Proof. vm_compute. split; reflexivity. Qed.

(* At the level of the links: the transcription of Segment::reverseSlots, run on a well-formed chain without marks whose ends ARE
   m_first and m_last, reverses exactly that chain — its links afterwards are those of the reversed list, m_first / m_last are swapped,
   no other slot's links change — and the pair of reversals positionSlots makes restores everything.  The recorded defects are
   exactly the calls that break the premise (a last slot that is not on the chain headed by m_first). *)
From GR Require Import Proofs.LinePtrProofs.
Theorem C19_reversal_reverses_the_chain : forall marks s l,
  (2 <= length l)%nat -> NoDup l -> (forall a, In a l -> a < length (p_next s) /\ a < length (p_prev s))%nat -> unmarked marks l ->
  links_fwd (p_next s) (p_prev s) l None -> p_first s = hd_error l -> p_last s = hd_error (rev l) ->
  exists s', preverse marks s = POk s' /\ links_fwd (p_next s') (p_prev s') (rev l) None
             /\ p_first s' = hd_error (rev l) /\ p_last s' = hd_error l
             /\ (forall a, ~ In a l -> getp (p_next s') a = getp (p_next s) a /\ getp (p_prev s') a = getp (p_prev s) a)
             /\ length (p_next s') = length (p_next s) /\ length (p_prev s') = length (p_prev s).
Proof. exact preverse_reverses_chain. Qed.
Print Assumptions C19_reversal_reverses_the_chain.
Theorem C19_two_reversals_restore_the_links : forall marks s l,
  (2 <= length l)%nat -> NoDup l -> (forall a, In a l -> a < length (p_next s) /\ a < length (p_prev s))%nat -> unmarked marks l ->
  links_fwd (p_next s) (p_prev s) l None -> p_first s = hd_error l -> p_last s = hd_error (rev l) ->
  exists s' s'', preverse marks s = POk s' /\ preverse marks s' = POk s'' /\ links_fwd (p_next s'') (p_prev s'') l None
                 /\ p_first s'' = p_first s /\ p_last s'' = p_last s
                 /\ (forall a, ~ In a l -> getp (p_next s'') a = getp (p_next s) a /\ getp (p_prev s'') a = getp (p_prev s) a).
Proof. exact preverse_twice_restores. Qed.
Print Assumptions C19_two_reversals_restore_the_links.
(* non-vacuity: the second line [4..9 without the mark 9: 4,5,6,7,8] of a two-line state meets the premises *)
Example C19_reversal_premises_hold :
  let nx := [Some 1; Some 2; Some 3; None; Some 5; Some 6; Some 7; Some 8; None]%nat in
  let pv := [None; Some 0; Some 1; Some 2; None; Some 4; Some 5; Some 6; Some 7]%nat in
  let s := mkp nx pv (Some 4%nat) (Some 8%nat) in
  let l := [4; 5; 6; 7; 8]%nat in
  NoDup l /\ links_fwd nx pv l None /\ p_first s = hd_error l /\ p_last s = hd_error (rev l) /\ unmarked [] l.
Proof.
  cbv zeta. split; [repeat constructor; cbn; intuition discriminate|]. split; [cbn; intuition reflexivity|].
  split; [reflexivity|]. split; [reflexivity|]. intros a _. unfold is_mark. destruct a; reflexivity.
Qed.

(* The end-of-line slots a font with line-end contextuals makes Segment::justify add (addLineEnd / delLineEnd, transcribed in
   Model/LinePtrModel.v): put before a slot that heads its chain -- what justify assumes of the line's first slot -- and deleted again,
   a fresh end-of-line slot leaves every link of every other slot, m_first and m_last as they were. *)
Theorem C19_line_end_slot_leaves_no_trace : forall marks s e n,
  length (p_next s) = length (p_prev s) -> (length (p_next s) <= e)%nat -> (n < length (p_next s))%nat -> getp (p_prev s) n = None ->
  p_first s <> Some e -> p_last s <> Some e ->
  exists s1 s2, papply marks s (PAddEnd e (Some n) false) = POk s1 /\ papply marks s1 (PDelEnd e) = POk s2 /\
    (forall i, i <> e -> getp (p_next s2) i = getp (p_next s) i /\ getp (p_prev s2) i = getp (p_prev s) i) /\
    p_first s2 = p_first s /\ p_last s2 = p_last s.
Proof. exact add_del_restores. Qed.
Print Assumptions C19_line_end_slot_leaves_no_trace.
(* ... whereas the recorded defect of right-to-left lines (known_findings.txt: both end-of-line slots linked before ONE slot, the second
   addLineEnd finding a predecessor that it does not relink) is what the same transcription predicts: slots 0 1, end-of-line slots 2 3
   both put before slot 0 and deleted in the order justify deletes them leave slot 0 with a prev pointer to the freed slot 2 *)
Example C19_links_of_the_line_end_defect :
  let s0 := mkp [Some 1; None]%nat [None; Some 0]%nat (Some 0%nat) (Some 1%nat) in
  match papply [] s0 (PAddEnd 2 (Some 0%nat) false) with
  | POk s1 => match papply [] s1 (PAddEnd 3 (Some 0%nat) false) with
              | POk s2 => match papply [] s2 (PDelEnd 2) with
                          | POk s3 => match papply [] s3 (PDelEnd 3) with
                                      | POk s4 => getp (p_prev s4) 0 = Some 2%nat /\ getp (p_next s4) 0 = Some 1%nat
                                      | _ => False end
                          | _ => False end
              | _ => False end
  | _ => False end.
Proof. vm_compute. split; reflexivity. Qed.
