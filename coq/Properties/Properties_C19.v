(* Properties_C19.v — ONLY the property theorems for C19 (line breaking and justification).  Model: Model/LineModel.v *)
From GR Require Import Base.Bytes Model.StreamModel Model.LineModel Proofs.StreamProofs Proofs.LineProofs.
From Coq Require Import Permutation.

(* Any sequence of line breaks and of the first/last bracket that justification installs and restores — i.e. every justify call
   that does not trigger a reversal — leaves every slot in place: the concatenation of the lines is unchanged, lines are only
   ever split where the application cut them. *)
Theorem C19_no_reversal_preserves_lines : forall ops s s', Forall no_reverse ops -> lrun s ops = LOk s' ->
  concat (l_lines s') = concat (l_lines s).
Proof. exact lrun_no_reverse. Qed.
Print Assumptions C19_no_reversal_preserves_lines.

(* A reversal is harmless exactly under its precondition (m_last is the end of the chain headed by m_first): it then permutes
   that one line and touches no other. *)
Theorem C19_reversal_sound_under_precondition : forall s marks s', lapply s (LReverse marks) = LOk s' ->
  Forall2 (@Permutation sid) (l_lines s') (l_lines s).
Proof. exact lapply_reverse_sound. Qed.
Print Assumptions C19_reversal_sound_under_precondition.

(* The unconditional statement is REFUTED: once the stream has been cut, the segment-global reverseSlots that justify (and
   positionSlots) call runs with a stale m_last.  DESIGN.md section 7, F15 / F16; recorded as known findings. *)
Theorem C19_cut_lines_refuted : exists ops, lrun (linit [0%N; 1%N; 2%N]) ops = LErr LStaleLast.
Proof. exact cut_then_reverse_is_unsound. Qed.
Print Assumptions C19_cut_lines_refuted.
