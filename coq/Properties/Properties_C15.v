(* Properties_C15.v — ONLY the property theorems for C15 (final positions are the design-unit positions times the scale).
   Model: Model/PosModel.v (Slot::finalise + the base loop of Segment::positionSlots, exact arithmetic).
   The scale ranges over the positive integers here: on such scales (ppm a multiple of the units per em) every float operation
   of the C++ is exact, so the model equals the implementation digit for digit (correspondence check); single-precision
   rounding at the other sizes is outside the model and bounded by the differential oracle of tools/props/c15.py. *)
From GR Require Import Base.Bytes Model.PosModel Proofs.PosProofs.
From Coq Require Import ZArith.
Local Open Scope Z_scope.

(* One cluster: every position, the advance result and the cluster minimum that Slot::finalise computes at scale k from a
   base point k*b are k times what it computes in design units from b — for every attachment tree, every depth cut-off. *)
Theorem C15_finalise_linear : forall fuel k, 0 < k -> forall t isroot base cmin,
  finalise fuel k t isroot (vscale k base) (k * cmin) = out3 k (finalise fuel 1 t isroot base cmin).
Proof. exact finalise_homogeneous. Qed.
Print Assumptions C15_finalise_linear.

(* The whole segment: every slot origin and the segment advance at scale k are k times the design-unit ones. *)
Theorem C15_segment_linear : forall k, 0 < k -> forall bases,
  position_bases k bases (0, 0) = (let r := position_bases 1 bases (0, 0) in (vscale k (fst r), pscale k (snd r))).
Proof. exact position_from_origin. Qed.
Print Assumptions C15_segment_linear.

(* Which slots are positioned, and in which order, is independent of the scale. *)
Theorem C15_structure_scale_free : forall k, 0 < k -> forall bases,
  map fst (snd (position_bases k bases (0, 0))) = map fst (snd (position_bases 1 bases (0, 0))).
Proof. exact positioned_ids_scale_free. Qed.
Print Assumptions C15_structure_scale_free.

(* Any two sizes are proportional. *)
Theorem C15_sizes_proportional : forall k j, 0 < k -> 0 < j -> forall bases,
  let rk := position_bases k bases (0, 0) in let rj := position_bases j bases (0, 0) in
  vscale j (fst rk) = vscale k (fst rj) /\ pscale j (snd rk) = pscale k (snd rj).
Proof. exact sizes_proportional. Qed.
Print Assumptions C15_sizes_proportional.

(* non-vacuity: a base with a negative-offset attached mark (flood shift branch) and a sibling *)
Example C15_example :
  let m1 := BNode (mksp 1 (-900) 20 0 0 (-300) 400 false) Leaf (BNode (mksp 2 10 0 200 0 50 (-60) true) Leaf Leaf) in
  let b0 := BNode (mksp 0 0 0 600 0 0 0 true) m1 Leaf in
  position_bases 3 [b0; BNode (mksp 3 5 0 500 0 0 0 true) Leaf Leaf] (0, 0)
  = (let r := position_bases 1 [b0; BNode (mksp 3 5 0 500 0 0 0 true) Leaf Leaf] (0, 0) in (vscale 3 (fst r), pscale 3 (snd r)))
  /\ snd (position_bases 1 [b0] (0, 0)) <> [].
Proof. vm_compute. split; [reflexivity | discriminate]. Qed.

(* tie A for the accessor: what gr_slot_advance_X / gr_slot_advance_Y return with an unhinted font (definitions regenerated from their
   bodies in src/gr_slot.cpp) is the value with font = NULL multiplied by the font's scale -- whether or not the caller passes the face. *)
From GR Require Import Gen.GenSlotAdv Proofs.GenAgreeSlotAdv.
Theorem C15_slot_advance_scales : forall res scale face_given, GenSlotAdv.slot_advance_unhinted res scale face_given = (scale * GenSlotAdv.slot_advance_nofont res)%Z.
Proof. exact gen_slot_advance_scales. Qed.
Print Assumptions C15_slot_advance_scales.
