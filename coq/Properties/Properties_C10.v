(* Properties_C10.v — ONLY the property theorems for C10 (face options change resource behaviour, never results).
   Models: Model/MemoModel.v (glyph cache, lazily filled or preloaded), Model/CmapModel.v (direct and cached character maps;
   see Properties_C13.v). *)
From GR Require Import Base.Bytes Model.MemoModel Proofs.MemoProofs.
From Coq Require Import NArith.
Local Open Scope N_scope.

(* gr_face_preloadGlyphs: a preloaded and a lazily filled glyph cache answer every history of lookups alike. *)
Theorem C10_preload_eq_lazy : forall (V : Type) (load : N -> option V) n cl cp gids,
  init_lazy V load n = Some cl -> init_preload V load n = Some cp -> fst (run V load n cl gids) = fst (run V load n cp gids).
Proof. exact lazy_eq_preloaded. Qed.
Print Assumptions C10_preload_eq_lazy.

(* both answer with the cache-free function *)
Theorem C10_both_are_spec : forall (V : Type) (load : N -> option V) n c gids, init_lazy V load n = Some c \/ init_preload V load n = Some c ->
  fst (run V load n c gids) = map (spec V load n) gids.
Proof.
  intros V load n c gids [H|H].
  - exact (proj1 (run_correct V load n gids c (init_lazy_inv V load n c H))).
  - exact (proj1 (run_correct V load n gids c (proj1 (init_preload_inv V load n c H)))).
Qed.
Print Assumptions C10_both_are_spec.

(* preloading fails exactly when some glyph cannot be read; the lazy face then still answers (with glyph 0 standing in): the
   option changes whether the face is made, never what a made face answers — this is the "well-formed font" proviso of C10 *)
Example C10_example :
  let load := fun g => if g =? 2 then None else if g <? 4 then Some (g + 100) else None in
  init_preload N load 4 = None /\
  match init_lazy N load 4 with Some c => fst (run N load 4 c [2; 1]) = [Some 100; Some 101] | None => False end.
Proof. vm_compute. split; reflexivity. Qed.
