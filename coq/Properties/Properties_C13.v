(* Properties_C13.v — ONLY the property theorems for C13 (cmap lookup, direct and cached).
   Model: Model/CmapModel.v, hand-written after src/TtfUtil.cpp (cmap functions) and src/CmapCache.cpp. *)
From GR Require Import Base.Bytes Base.Mem Base.MemFacts Model.CmapModel Proofs.CmapCache Proofs.CmapSafe Proofs.Cmap12Agree Proofs.Cmap4Agree Proofs.CmapWhole.
From Coq Require Import FMapPositive Lia.
Local Open Scope N_scope.

(* The cache fill loop terminates within its fuel for ANY iteration / lookup functions (hence for any table bytes):
   the code point strictly increases up to the limit. *)
Theorem C13_cache_fill_terminates : forall nextf lookf limit m, limit <= 0x10FFFF ->
  cache_subtable nextf lookf limit m <> Some None.
Proof. exact cache_subtable_terminates. Qed.
Print Assumptions C13_cache_fill_terminates.

(* cached = direct on every code point up to the limit, and nothing above the limit is touched — PARTIAL: stated over
   the interface between the fill loop and NextCodepoint / Lookup:
     dl_def      the direct lookup is the keyless lookup;
     next_good   a range key handed out with a code point is valid for that code point;
     next_skips  every code point NextCodepoint steps over is unmapped;
     next_total / first_*  the iteration does not trap.
   Missing for the full statement: these five facts for CmapSubtable4/12NextCodepoint+Lookup on well-formed subtables are
   not proved here (they are exercised by the correspondence and by the exhaustive per-font sweeps). *)
Theorem C13_cached_eq_direct_partial :
  forall (nextf : N -> N -> option (N * N)) (lookf : N -> N -> option N) (limit : N) (dl : N -> N),
    (forall c, c <= limit -> lookf c 0 = Some (dl c)) ->
    (forall c key n k, 0 < c -> c < limit -> good lookf dl c key -> nextf c key = Some (n, k) -> c < n -> n <= limit -> good lookf dl n k) ->
    (forall c key n k, 0 < c -> c < limit -> good lookf dl c key -> nextf c key = Some (n, k) ->
                       forall d, c < d -> d < n -> d <= limit -> dl d = 0) ->
    (forall c key, 0 < c -> c < limit -> good lookf dl c key -> nextf c key <> None) ->
    forall m0, (forall d, d <= limit -> dl d = 0 -> cget m0 d = 0) ->
    (forall c0 k0, nextf 0 0 = Some (c0, k0) -> (c0 <= limit -> good lookf dl c0 k0) /\ (forall d, d < c0 -> d <= limit -> dl d = 0)) ->
    forall m, limit <= 0x10FFFF -> cache_subtable nextf lookf limit m0 = Some (Some m) ->
    (forall d, d <= limit -> cget m d = dl d) /\ (forall d, limit < d -> cget m d = cget m0 d).
Proof. exact cache_subtable_agrees. Qed.
Print Assumptions C13_cached_eq_direct_partial.

(* FULL: the cached and the direct lookup agree on EVERY code point.  For every table (arbitrary bytes) whose BMP subtable
   (format 4) and, when present, supplementary subtable (format 12) CheckCmapSubtable4/12 accept and whose segments / groups are
   well formed in the OpenType sense (wf4: start <= end, sorted, disjoint, last end 0xFFFF; wf12: start <= end <= 0x10FFFF,
   sorted, disjoint), building the cache (gr_face_cacheCmap) succeeds — no trap, terminates — and the cached lookup returns what
   the direct lookup returns: format 4 below U+10000, format 12 above, 0 above U+FFFF on a BMP-only face. *)
Theorem C13_cached_eq_direct : forall (l : bytes) ob smp, let t := mem_of_list l in tlen t < S64 ->
  check4 t (Some ob) = Some true -> wf4 t ob -> smp_ok t smp ->
  exists cc, cached_build t (Some ob) smp = Some (Some cc) /\
             forall c, c <= 0x10FFFF -> direct t (Some ob) smp c = Some (cached cc (match smp with Some _ => false | None => true end) c).
Proof. intros l ob smp. exact (cached_eq_direct (mem_of_list l) ob smp (mem_of_list_wf l)). Qed.
Print Assumptions C13_cached_eq_direct.

(* format 4 alone *)
Theorem C13_cached4_eq_direct : forall (l : bytes) o, let t := mem_of_list l in tlen t < S64 -> check4 t (Some o) = Some true -> wf4 t o ->
  exists m, cache_subtable (next4 t o) (lookup4 t o) 0xFFFF (PositiveMap.empty N) = Some (Some m) /\
            forall d, d <= 0xFFFF -> lookup4 t o d 0 = Some (cget m d).
Proof. intros l o. exact (cached4_eq_direct_checked (mem_of_list l) o (mem_of_list_wf l)). Qed.
Print Assumptions C13_cached4_eq_direct.

(* FULL for format 12: on every subtable that CheckCmapSubtable12 accepts and whose groups are well formed in the OpenType sense
   (start <= end <= 0x10FFFF, sorted, disjoint: wf12), filling the cache through NextCodepoint + keyed Lookup does not trap,
   terminates, and the cache holds for EVERY code point up to 0x10FFFF exactly what the direct (keyless) lookup returns. *)
Theorem C13_cached12_eq_direct : forall (l : bytes) o, let t := mem_of_list l in tlen t < S64 -> check12 t (Some o) = Some true -> wf12 t o ->
  exists m, cache_subtable (next12 t o) (lookup12 t o) 0x10FFFF (PositiveMap.empty N) = Some (Some m) /\
            forall d, d <= 0x10FFFF -> lookup12 t o d 0 = Some (cget m d).
Proof. intros l o. exact (cached12_eq_direct_checked (mem_of_list l) o (mem_of_list_wf l)). Qed.
Print Assumptions C13_cached12_eq_direct.

(* non-vacuity: a two-group format-12 subtable (U+10000..U+10002 -> 5.., U+1F600..U+1F601 -> 9..) is accepted and well formed *)
Definition ex_cmap12 : bytes :=
  [0;12; 0;0; 0;0;0;40; 0;0;0;0; 0;0;0;2;  0;1;0;0; 0;1;0;2; 0;0;0;5;  0;1;0xF6;0; 0;1;0xF6;1; 0;0;0;9].
Example C13_example12 : check12 (mem_of_list ex_cmap12) (Some 0) = Some true /\ wf12 (mem_of_list ex_cmap12) 0 /\
  lookup12 (mem_of_list ex_cmap12) 0 0x1F601 0 = Some 10.
Proof.
  split; [vm_compute; reflexivity|]. split; [|vm_compute; reflexivity].
  exists 2. split; [vm_compute; reflexivity|]. split; [lia|]. split.
  - intros i Hi. assert (H : i = 0 \/ i = 1) by lia. destruct H as [-> | ->]; vm_compute; split; discriminate.
  - intros i j Hij Hj. assert (H : i = 0 /\ j = 1) by lia. destruct H as [-> ->]. vm_compute. reflexivity.
Qed.

(* For ARBITRARY table bytes: once CheckCmapSubtable12 / CheckCmapSubtable4 accepted a subtable, the lookups never read
   outside the table, for every code point and every (in-range) key. *)
Theorem C13_lookup12_arbitrary_bytes_safe : forall (l : bytes) o, let t := mem_of_list l in tlen t < S64 -> check12 t (Some o) = Some true ->
  forall c key, lookup12 t o c key <> None.
Proof. intros l o. exact (lookup12_safe (mem_of_list l) o (mem_of_list_wf l)). Qed.
Print Assumptions C13_lookup12_arbitrary_bytes_safe.

Theorem C13_lookup4_arbitrary_bytes_safe : forall (l : bytes) o, let t := mem_of_list l in tlen t < S64 -> check4 t (Some o) = Some true ->
  forall c key sc, w4 t o 3 = Some sc -> key < sc / 2 -> lookup4 t o c key <> None.
Proof. intros l o. exact (lookup4_safe (mem_of_list l) o (mem_of_list_wf l)). Qed.
Print Assumptions C13_lookup4_arbitrary_bytes_safe.

(* non-vacuity: a two-segment format-4 subtable ([0x41..0x43] delta 3, [0xFFFF] delta 1), direct and cached *)
Definition ex_cmap : mem := mem_of_list
  [0;0; 0;1; 0;3; 0;1; 0;0;0;12;
   0;4; 0;32; 0;0; 0;4; 0;0; 0;0; 0;0;  0;0x43; 0xFF;0xFF; 0;0;  0;0x41; 0xFF;0xFF;  0;3; 0;1;  0;0; 0;0].
Example C13_example :
  bmp_subtable ex_cmap = Some (Some 12) /\ check4 ex_cmap (Some 12) = Some true /\
  direct ex_cmap (Some 12) None 0x42 = Some 0x45 /\ direct ex_cmap (Some 12) None 0x44 = Some 0 /\
  (match cached_build ex_cmap (Some 12) None with Some (Some m) => cached m true 0x42 = 0x45 /\ cached m true 0xFFFF = 0 | _ => False end).
Proof. vm_compute. repeat split; reflexivity. Qed.

(* non-vacuity of wf4: the two-segment subtable of C13_example is well formed *)
Example C13_example_wf4 : wf4 ex_cmap 12 /\ smp_ok ex_cmap None.
Proof.
  split; [|exact I]. exists 4. split; [vm_compute; reflexivity|]. split; [|split].
  - intros i Hi. assert (H : i = 0 \/ i = 1) by (change (4 / 2) with 2 in Hi; lia). destruct H as [-> | ->]; vm_compute; discriminate.
  - intros i j Hij Hj. assert (H : i = 0 /\ j = 1) by (change (4 / 2) with 2 in Hj; lia). destruct H as [-> ->]. vm_compute. reflexivity.
  - vm_compute. reflexivity.
Qed.

(* ---- "... falling back to the Silf pseudo-glyph map" (Model/PseudoModel.v: Silf::findPseudo and its two callers, the text reader that
   gives every slot its initial glyph and gr_face_is_char_supported; their shape is regenerated from the source, Gen/GenPseudo.v).
   The cmap's answer stands whenever it is not 0; only then is the pseudo map asked ... *)
From GR Require Import Model.PseudoModel Proofs.PseudoProofs Gen.GenPseudo.
Theorem C13_pseudo_only_when_unmapped : forall g pm u, (g <> 0 -> initial_glyph g pm u = g) /\ initial_glyph 0 pm u = find_pseudo pm u.
Proof. intros. split; [apply initial_glyph_mapped | apply initial_glyph_unmapped]. Qed.
Print Assumptions C13_pseudo_only_when_unmapped.
(* ... which answers with the glyph listed for that code point -- ANY code point, of any plane -- and with 0 for one it does not list ... *)
Theorem C13_pseudo_lookup : forall pm u, (forall g, NoDup (map fst pm) -> In (u, g) pm -> find_pseudo pm u = g) /\ (~ In u (map fst pm) -> find_pseudo pm u = 0).
Proof. intros. split; [intros g; apply find_pseudo_found | apply find_pseudo_absent]. Qed.
Print Assumptions C13_pseudo_lookup.
(* ... so a character is supported exactly when the cmap maps it or the pseudo map gives it a glyph. *)
Theorem C13_supported_iff : forall g pm u, char_supported g pm u = true <-> (g <> 0 \/ find_pseudo pm u <> 0).
Proof. exact char_supported_iff. Qed.
Print Assumptions C13_supported_iff.
(* "... and hence the initial glyph of each slot": the text reader (its loop regenerated as a whole, Gen/GenPseudo.v) makes one slot per
   character before the first NUL -- a prefix of the text, none of them NUL -- and the i-th slot starts with the initial glyph of the i-th. *)
Theorem C13_initial_glyph_of_each_slot : forall cmapf pm us,
  (exists rest, us = upto_nul us ++ rest /\ (rest = [] \/ hd 1 rest = 0)) /\ Forall (fun u => u <> 0) (upto_nul us) /\
  length (text_glyphs cmapf pm us) = length (upto_nul us) /\
  (forall i u, nth_error (upto_nul us) i = Some u -> nth_error (text_glyphs cmapf pm us) i = Some (initial_glyph (cmapf u) pm u)).
Proof. intros. split; [apply upto_nul_prefix|]. split; [apply upto_nul_nonzero|]. apply text_glyphs_spec. Qed.
Print Assumptions C13_initial_glyph_of_each_slot.
(* tie A: the key of a pseudo entry is wide enough for every Unicode scalar value (nothing is truncated before the comparison) *)
Theorem C13_pseudo_key_tied : forall u, u < 0x110000 -> u mod 2 ^ GenPseudo.pseudo_uid_bits = u.
Proof. exact gen_pseudo_key_holds_every_scalar. Qed.
Print Assumptions C13_pseudo_key_tied.
Example C13_example_pseudo : let pm := [(0xE01, 218); (0xF0000, 66); (0x10FFFF, 7)] in
  initial_glyph 0 pm 0xF0000 = 66 /\ initial_glyph 0 pm 0x10FFFF = 7 /\ initial_glyph 5 pm 0xF0000 = 5 /\ char_supported 0 pm 0xF0001 = false /\ NoDup (map fst pm).
Proof. cbn. repeat split; repeat constructor; cbn; intuition discriminate. Qed.
