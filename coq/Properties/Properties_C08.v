(* Properties_C08.v — ONLY the property theorems for C08 (shaping is history independent).
   Model: Model/MemoModel.v — the only state a face keeps between calls is the lazily filled glyph cache (and the lazily created
   name table, a one-cell instance of the same scheme); segments, slot maps and VM state are created per call.  The table
   reader is an oracle: any pure function of the immutable tables. *)
From GR Require Import Base.Bytes Model.MemoModel Proofs.MemoProofs.
From Coq Require Import NArith.
Local Open Scope N_scope.

(* Whatever was looked up before, a lookup returns what it returns on the freshly made face. *)
Theorem C08_history_independent : forall (V : Type) (load : N -> option V) n c hist probe, Inv V load n c ->
  fst (glyph V load n probe (snd (run V load n c hist))) = fst (glyph V load n probe c).
Proof. exact history_independent. Qed.
Print Assumptions C08_history_independent.

(* Every lookup of every history is the cache-free function [spec]; the face keeps reporting the same (the invariant is kept). *)
Theorem C08_lookups_are_pure : forall (V : Type) (load : N -> option V) n gids c, Inv V load n c ->
  fst (run V load n c gids) = map (spec V load n) gids /\ Inv V load n (snd (run V load n c gids)) /\ (gc_loader V c = false -> snd (run V load n c gids) = c).
Proof. intros V load n gids c. exact (run_correct V load n gids c). Qed.
Print Assumptions C08_lookups_are_pure.

(* both ways of making a face establish the invariant *)
Theorem C08_fresh_face_inv : forall (V : Type) (load : N -> option V) n c, init_lazy V load n = Some c \/ init_preload V load n = Some c -> Inv V load n c.
Proof. intros V load n c [H|H]; [exact (init_lazy_inv V load n c H) | exact (proj1 (init_preload_inv V load n c H))]. Qed.
Print Assumptions C08_fresh_face_inv.

Example C08_example :
  let load := fun g => if g <? 5 then Some (g * 10 + 1) else None in
  match init_lazy N load 5 with
  | Some c => fst (run N load 5 c [3; 9; 3; 0; 4]) = [Some 31; Some 1; Some 31; Some 1; Some 41] /\ gc_slots N (snd (run N load 5 c [3; 9; 3; 0; 4])) = [Some 1; None; None; Some 31; Some 41]
  | None => False
  end.
Proof. vm_compute. split; reflexivity. Qed.
