(* Properties_C02.v — ONLY the property theorems for C02 (bounded work, bounded growth).
   Models: Model/LoopModel.v (control skeleton of the rule loop; insert budget), Model/PosModel.v (depth cut-off of finalise),
   Model/VmModel.v (operand stack; see Properties_C07.v for the interpreter theorems). *)
From GR Require Import Base.Bytes Model.LoopModel Proofs.LoopProofs Gen.GenLoop Proofs.GenAgreeLoop Model.SparseModel Proofs.SparseProofs Model.RuleModel Proofs.LoopBridge Model.PosModel Proofs.PosProofs.
From Coq Require Import List NArith ZArith.
Import ListNotations.
Local Open Scope N_scope.

(* Every run of the rule loop of a pass that the acceptor admits — i.e. in which the measure "slots from the high-water mark
   to the end + remaining insert budget" never increases and decreases at every reset, which is what the loop's control
   guarantees and what the per-iteration hook monitors on the real engine — makes at most maxloop * (mu0 + 1) iterations. *)
Theorem C02_pass_loop_bounded : forall maxloop mu0 os, 1 <= maxloop -> laccept maxloop (mklst mu0 maxloop) os = true ->
  N.of_nat (length os) <= maxloop * (mu0 + 1).
Proof. exact loop_bounded_init. Qed.
Print Assumptions C02_pass_loop_bounded.

(* Whatever the passes insert and delete, the stream never holds more than 65 slots per initial slot, … *)
Theorem C02_growth_always_bounded : forall n0 os st', grun (n0 * growth_factor) (ginit n0) os = Some st' ->
  g_n st' <= n0 + n0 * growth_factor.
Proof. exact growth_always_bounded. Qed.
Print Assumptions C02_growth_always_bounded.

(* … and a run whose last end-of-pass test succeeds (the only way gr_make_seg returns a segment) leaves at most 64. *)
Theorem C02_growth_cap : forall n0 os st', grun (n0 * growth_factor) (ginit n0) (os ++ [GPassEnd]) = Some st' ->
  g_n st' <= growth_factor * n0.
Proof. exact growth_cap_at_pass_end. Qed.
Print Assumptions C02_growth_cap.

(* The number of inserts of a run and the remaining budget add up to the initial budget. *)
Theorem C02_inserts_bounded : forall n0 os st', grun (n0 * growth_factor) (ginit n0) os = Some st' ->
  N.of_nat (length (filter is_insert os)) + Z.to_N (g_b st') = n0 * growth_factor.
Proof. exact inserts_bounded. Qed.
Print Assumptions C02_inserts_bounded.

(* non-vacuity: a loop run with resets and counter expiry is accepted; a run with growth is accepted and one past the cap is not *)
Example C02_example_loop :
  laccept 2 (mklst 3 2) [mkobs 3 1 false true; mkobs 2 2 true true; mkobs 2 1 false true; mkobs 1 2 true true; mkobs 0 2 true false] = true.
Proof. vm_compute. reflexivity. Qed.
Example C02_example_growth :
  grun (1 * growth_factor) (ginit 1) (repeat GInsert 63 ++ [GPassEnd]) <> None /\ grun (1 * growth_factor) (ginit 1) (repeat GInsert 64) = None.
Proof. vm_compute. split; [discriminate | reflexivity]. Qed.

(* tie A: the constants of the models are the ones in the current source *)
Theorem C02_constants_tied : GenLoop.growth_factor = LoopModel.growth_factor /\ 1 <= GenLoop.min_max_loop /\ GenLoop.depth_cutoff + 1 = 101.
Proof. exact gen_loop_consts_agree. Qed.
Print Assumptions C02_constants_tied.

(* The recursion that positions a cluster is cut off along EVERY path, child links and sibling links alike: what finalise computes
   on an attachment tree is what it computes on the tree pruned 101 links from the base — no deeper slot is ever visited, so the
   native stack it uses does not grow with the size of the cluster. *)
Theorem C02_finalise_recursion_bounded : forall fuel k t isroot base cmin,
  finalise fuel k t isroot base cmin = finalise fuel k (prune fuel t) isroot base cmin /\ (link_depth (prune fuel t) <= S fuel)%nat.
Proof. intros. split; [apply finalise_prune | apply prune_depth]. Qed.
Print Assumptions C02_finalise_recursion_bounded.
(* tie A: in the current source both recursive calls of Slot::finalise and of Slot::floodShift pass depth + 1 *)
Theorem C02_recursion_depth_tied : GenLoop.fin_child_depth_inc = 1 /\ GenLoop.fin_sibling_depth_inc = 1 /\ GenLoop.flood_child_depth_inc = 1 /\ GenLoop.flood_sibling_depth_inc = 1.
Proof. exact gen_depth_incs_agree. Qed.
Print Assumptions C02_recursion_depth_tied.

(* The machine's slot-map cursor stays inside SlotMap::m_slot_map for every sequence of NEXT / INSERT steps over a map of any admissible
   size: the extent of the array (regenerated from src/inc/Rule.h), the guard of NEXT (src/inc/opcodes.h) and MAX_SLOTS leave room for
   the position one past a full map, where the interpreter stores the current slot when the action ends. *)
Theorem C02_map_cursor_in_bounds : forall os size i j, size <= GenLoop.max_slots -> i <= size + 1 -> cur_run size i os = Some j ->
  j < GenLoop.max_slots + GenLoop.slot_map_extra.
Proof. exact map_cursor_in_bounds. Qed.
Print Assumptions C02_map_cursor_in_bounds.

(* The glyph-attribute store (graphite2::sparse): whatever (key, value) pairs it was built from, operator[] reads inside its array
   for EVERY 16-bit key — the branch-free arithmetic never indexes outside the chunk table plus the packed values. *)
Theorem C02_sparse_lookup_in_bounds : forall ps s k, build ps = Some s -> lookup s k <> None.
Proof. exact lookup_in_bounds. Qed.
Print Assumptions C02_sparse_lookup_in_bounds.
Theorem C02_sparse_chunk_tied : GenLoop.sparse_chunk_bits = SparseModel.CHUNK.
Proof. exact gen_sparse_chunk_agrees. Qed.
Print Assumptions C02_sparse_chunk_tied.

(* ---- the hypothesis of C02_pass_loop_bounded is not only monitored on the engine, it is PROVED of the reference semantics of the
   rule loop (Model/RuleModel.v: loop_step / loop_run — cursor adjustment, high-water mark, highpassed, loop counter, inserts paid
   from the budget, deletes — the executable definitions that tools/props/c06.py runs against the engine on compiled rule programs):
   for every rule set, stream, budget and both kinds of pass, the observation sequence of the loop is admitted by the acceptor. *)
Theorem C02_reference_loop_accepted : forall adv positioning maxloop rules, (1 <= maxloop)%nat -> forall fuel st, Inv maxloop st ->
  laccept (N.of_nat maxloop) (mklst (mu st) (N.of_nat (ls_lc st))) (loop_obs adv positioning maxloop rules fuel st) = true.
Proof. exact loop_obs_accepted. Qed.
Print Assumptions C02_reference_loop_accepted.

(* Hence a pass over l with a_bud n inserts left makes at most maxloop * (|l| + a_bud n + 1) iterations, whatever the rules do ... *)
Theorem C02_reference_pass_iterations : forall adv positioning maxloop rules l n fuel, (1 <= maxloop)%nat -> l <> [] ->
  (length (loop_obs adv positioning maxloop rules fuel (st_init maxloop l (Some n))) <= maxloop * (length l + a_bud n + 1))%nat.
Proof. exact loop_iterations_bounded. Qed.
Print Assumptions C02_reference_pass_iterations.

(* ... and always stops by itself: with the fuel run_pass_b gives it, the loop ends with a null cursor (fuel is never what stops it). *)
Theorem C02_reference_pass_terminates : forall adv positioning maxloop rules l n, (1 <= maxloop)%nat -> l <> [] ->
  ls_s (loop_run adv positioning maxloop rules (pass_fuel_b maxloop l (Some n)) (st_init maxloop l (Some n))) = None.
Proof. exact pass_terminates. Qed.
Print Assumptions C02_reference_pass_terminates.

(* Shaping with the reference semantics either fails (budget exhausted, or a substitution pass ends above the cap) or returns at
   most 64 slots per input slot. *)
Theorem C02_reference_growth_cap : forall adv nsubst passes l out, run_passes_adj adv nsubst passes l = Some out -> (length out <= 64 * length l)%nat.
Proof. exact reference_growth_cap. Qed.
Print Assumptions C02_reference_growth_cap.

(* non-vacuity: a rule that inserts in front of every 'a' and steps the cursor back onto it loops until the counter runs out at
   each high-water slot; the run is accepted, ends by itself, and with a second such pass the budget of a 1-slot text is used up *)
Example C02_example_reference :
  let adv := fun g : N => 462%Z in
  let r := mkrule0 0 [[67]]%N [[AInsert 67]] None (-1) in
  let st0 := st_init 5 [mkslot 67 462 0; mkslot 67 462 0] (Some (alloc0 2)) in
  Inv 5 st0
  /\ length (loop_obs adv false 5 [r] 1000 st0) = 10%nat
  /\ length (ls_l (loop_run adv false 5 [r] 1000 st0)) = 12%nat
  /\ option_map a_bud (ls_b (loop_run adv false 5 [r] 1000 st0)) = Some 118%nat
  /\ option_map (@length _) (run_passes_adj adv 1 [(8, [r])]%nat [mkslot 67 462 0]) = Some 9%nat
  /\ run_passes_adj adv 2 [(8, [r]); (8, [r])]%nat [mkslot 67 462 0] = None.
Proof. split; [apply st_init_inv; [lia|discriminate]|]. vm_compute. repeat split. Qed.

(* The finite state machine of a pass.  Whatever bytes a pass holds, the tables the loader builds from them when it accepts the pass
   (readRanges: glyph -> column; readStates: start states, transitions, the rules of each success state; the rule map) are well
   formed: every column is below numColumns, every start state and transition names a state, every rule entry names a rule of the
   pass and no state keeps more than MAX_RULES of them ... *)
From GR Require Import Base.Mem Model.FsmModel Proofs.FsmProofs.
Theorem C02_fsm_tables_well_formed : forall (l : bytes) f, read_fsm (mem_of_list l) = FOk f -> f_nrules f <> 0 -> fsm_wf f.
Proof. intros l f. apply read_fsm_wf. Qed.
Print Assumptions C02_fsm_tables_well_formed.
(* ... and over well-formed tables Pass::runFSM, started anywhere in ANY glyph string with any context, indexes no table outside its
   bounds, pushes at most MAX_SLOTS slots into the slot map (whose array has MAX_SLOTS + 2 entries) and accumulates at most MAX_RULES
   rules, each of them a rule of the pass; the limits are the source's (gen_fsm_consts_agree). *)
Theorem C02_fsm_run_in_bounds : forall f ctx gids, fsm_wf f ->
  exists ok n rs, run_fsm f ctx gids = Some (ok, n, rs) /\ (n <= FsmModel.MAX_SLOTS)%nat /\ (length rs <= FsmModel.MAX_RULES)%nat /\ Forall (fun r => r < f_nrules f) rs.
Proof. intros f ctx gids W. destruct (run_fsm_safe f ctx gids W) as (ok & n & rs & H & Hn & Hl & Hf). exists ok, n, rs. auto. Qed.
Print Assumptions C02_fsm_run_in_bounds.
Theorem C02_fsm_limits_tied : GenLoop.max_slots = N.of_nat FsmModel.MAX_SLOTS /\ GenLoop.max_rules = N.of_nat FsmModel.MAX_RULES.
Proof. exact gen_fsm_consts_agree. Qed.
Print Assumptions C02_fsm_limits_tied.
(* non-vacuity: a compiled pass with the rules "5 6 -> ..." (sort key 2) and "5 -> ..." (sort key 1): its tables are accepted; from a slot
   holding 5 6 the machine matches both rules, the longer first, with three slots in the map; from 5 9 the second only; from 9 none *)
Example C02_example_fsm :
  exists f, read_fsm (mem_of_list [0; 1; 2; 0; 0; 2; 0; 0; 0; 0; 0; 162; 0; 0; 0; 162; 0; 0; 0; 162; 0; 0; 0; 0; 0; 3; 0; 2; 0; 2; 0; 2; 0; 2; 0; 0; 0; 0; 0; 0; 0; 5; 0; 5;
      0; 0; 0; 6; 0; 6; 0; 1; 0; 0; 0; 1; 0; 2; 0; 1; 0; 0; 0; 0; 0; 0; 0; 2; 0; 1; 0; 0; 0; 0; 0; 0; 0; 0; 0; 0; 0; 0; 0; 0; 5; 0; 9; 0; 1; 0; 0; 0; 0; 0; 2; 0; 28; 0; 25;
      25; 49; 28; 1; 25; 49]) = FOk f
  /\ f_nrules f = 2 /\ f_nglyphs f = 7
  /\ run_fsm f 0 [5; 6; 5; 9] = Some (true, 3%nat, [0; 1]) /\ run_fsm f 0 [5; 9] = Some (true, 2%nat, [1]) /\ run_fsm f 0 [9] = Some (true, 1%nat, []).
Proof. eexists. split; [vm_compute; reflexivity|]. vm_compute. repeat split. Qed.
