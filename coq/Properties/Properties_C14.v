(* Properties_C14.v — ONLY the property theorems for C14 (LZ4 block decoder).  Model: Model/Lz4Model.v. *)
From GR Require Import Base.Bytes Model.Lz4Model Proofs.Lz4Safe Gen.GenLz4 Proofs.GenAgreeLz4.
Local Open Scope nat_scope.

(* For ARBITRARY input bytes, any announced output size and any initial content of the output array: the decoder
   never reads outside the input, never reads or writes outside the output array (no Trap), and terminates within
   the fuel derived from the input length (no OutOfFuel). *)
Theorem C14_memory_safe : forall src osz out0, length out0 = osz ->
  decompress src osz out0 <> Trap /\ decompress src osz out0 <> OutOfFuel.
Proof. exact decompress_safe. Qed.
Print Assumptions C14_memory_safe.

(* tie A: constants and align() regenerated from src/inc/Compression.h on this run (sizeof(unsigned long) as compiled) *)
Theorem C14_gen_constants_agree :
  GenLz4.MINMATCH = N.of_nat Lz4Model.MINMATCH /\ GenLz4.LASTLITERALS = N.of_nat Lz4Model.LASTLITERALS /\
  GenLz4.MINCODA = N.of_nat Lz4Model.MINCODA /\ GenLz4.MINSRCSIZE = N.of_nat Lz4Model.MINSRCSIZE.
Proof. exact gen_lz4_consts_agree. Qed.
Print Assumptions C14_gen_constants_agree.

Theorem C14_gen_align_agrees : forall p, (p < 2 ^ 60)%N -> GenLz4.align p = N.of_nat (Lz4Model.align (N.to_nat p)).
Proof. exact gen_lz4_align_agrees. Qed.
Print Assumptions C14_gen_align_agrees.

(* A literal or match length never wraps: the extension bytes only add to it, and the sum stops at the largest 32-bit value (with a wrapping
   sum, 16 MiB of 0xff bytes brought a length back to a small value and the decoder accepted a block every LZ4 decoder refuses). *)
Theorem C14_length_extension_never_wraps : forall s l, (l < U32)%N -> (l <= fst (read_ext s l) < U32)%N.
Proof. exact read_ext_monotone. Qed.
Print Assumptions C14_length_extension_never_wraps.
Theorem C14_length_extension_tied : GenLz4.ext_saturates = 1%N.
Proof. exact gen_ext_saturates. Qed.
Print Assumptions C14_length_extension_tied.

(* SOUNDNESS of the fast decoder: whenever lz4::decompress accepts a block -- through its word-wise overrunning copies, its saturating 32-bit
   length sums and its end-of-block guards -- the bytes it produced are exactly the byte-wise reference decoding of that block under the LZ4
   block format.  For every block shorter than 4 GiB, every announced size and every initial content of the output.  (The converse is the
   recorded finding: the reference accepts blocks the decoder refuses.) *)
From GR Require Import Proofs.Lz4Sound.
Theorem C14_decoder_sound : forall src osz out0 n out, (N.of_nat (length src) < U32 - 1)%N ->
  decompress src osz out0 = Ok n out -> lz4_ref src = Some (firstn n out).
Proof. exact decompress_sound. Qed.
Print Assumptions C14_decoder_sound.

(* COMPLETENESS within the block format's margins: every reference encoding of some data that leaves at least MINCODA input bytes after each
   match header and ends with at least LASTLITERALS literals (the LZ4 block format's own end-of-block rules: [margins]), is at least
   MINSRCSIZE bytes long and shorter than the data, is ACCEPTED by the fast decoder and decoded to exactly that data -- whatever the output
   block held before.  With C14_decoder_sound: on such blocks lz4::decompress is the reference decoder.  (Blocks outside these margins are
   the recorded finding.) *)
From GR Require Import Proofs.Lz4Complete.
Theorem C14_decoder_complete : forall src data out0, lz4_ref src = Some data -> margins (S (length src)) src = true ->
  Lz4Model.MINSRCSIZE <= length src -> length src < length data -> (N.of_nat (length data) < U32 - 8)%N -> length out0 = length data ->
  decompress src (length data) out0 = Ok (length data) data.
Proof. exact decompress_complete. Qed.
Print Assumptions C14_decoder_complete.

(* The table-level caller (Face::Table::Table and Face::Table::decompress, Model/DecompModel.v): whatever bytes a table holds and whatever
   size it announces, with a block of exactly the announced size every read and write of the loader and of the decoder stays inside its
   buffer ... *)
From GR Require Import Model.DecompModel Proofs.DecompProofs.
Theorem C14_table_writes_inside_announced_size : forall t vmin heap, length heap = announced t -> table_open t vmin heap <> TTrap.
Proof. exact table_open_safe. Qed.
Print Assumptions C14_table_writes_inside_announced_size.
(* ... a table announcing fewer than the four bytes the loader clears is refused BEFORE the block is touched (true of every block, the empty
   one included) ... *)
Theorem C14_table_small_size_refused : forall t heap, 20 <= length t -> scheme t = 1%N -> announced t < 4 ->
  table_decompress t heap = TReject E_OUTOFMEM.
Proof. exact table_small_size_refused. Qed.
Print Assumptions C14_table_small_size_refused.
(* ... and what replaces the table is the allocated block (of the announced size: the decoder only ever overwrites bytes of it), beginning with
   the table's own version word, under the LZ4 scheme, from an announced size of at least four. *)
Theorem C14_table_accepted_version : forall t heap out, table_decompress t heap = TOk out ->
  be32l out 0 = be32l t 0 /\ scheme t = 1%N /\ 4 <= announced t /\ length out = length heap.
Proof. exact table_ok_version. Qed.
Print Assumptions C14_table_accepted_version.
(* ... and it is the reference decoding of the block behind the header: a compressed table is transparent *)
Theorem C14_table_transparent : forall t heap out, length heap = announced t -> (N.of_nat (length t) < U32 - 1)%N ->
  table_decompress t heap = TOk out -> lz4_ref (skipn 8 t) = Some out.
Proof. exact table_ok_is_reference. Qed.
Print Assumptions C14_table_transparent.
(* ... conversely a table whose block is a margin-respecting encoding of data that begins with the table's version word IS replaced by that data *)
Theorem C14_table_transparent_complete : forall t heap data, 21 <= length t -> scheme t = 1%N -> announced t = length data ->
  lz4_ref (skipn 8 t) = Some data -> margins (S (length (skipn 8 t))) (skipn 8 t) = true -> length (skipn 8 t) < length data ->
  (N.of_nat (length data) < U32 - 8)%N -> be32l data 0 = be32l t 0 -> length heap = length data ->
  table_decompress t heap = TOk data.
Proof. exact table_transparent. Qed.
Print Assumptions C14_table_transparent_complete.
(* non-vacuity: a 24-byte table announcing 3 bytes is refused with an empty block; a valid one is replaced by its data *)
Example C14_example_table :
  table_open ([0;5;0;0; 8;0;0;3] ++ repeat 0 16)%N 0x50000 [] = TReject E_OUTOFMEM /\
  (exists out, table_open [0;5;0;0; 8;0;0;44; 95; 0; 5; 0; 0; 7; 1; 0; 15; 80; 7; 7; 7; 7; 7]%N 0x50000 (repeat 0xCD%N 44) = TOk out /\ length out = 44 /\ nth 43 out 0%N = 7%N).
Proof. split; [vm_compute; reflexivity|]. eexists. split; [vm_compute; reflexivity|]. split; reflexivity. Qed.
(* non-vacuity of C14_decoder_sound: a block with a literal run and an overlapping match of 40 bytes is accepted, and is the reference decoding *)
Example C14_example_sound :
  let blk := [95; 0; 5; 0; 0; 7; 1; 0; 15; 80; 7; 7; 7; 7; 7]%N in
  (exists out, decompress blk 44 (repeat 0xCD%N 44) = Ok 44 out /\ lz4_ref blk = Some out) /\ lz4_ref blk = Some ([0; 5; 0; 0] ++ repeat 7 40)%N /\
  margins (S (length blk)) blk = true.
Proof. split; [eexists; split; vm_compute; reflexivity | split; vm_compute; reflexivity]. Qed.
