(* Properties_C14.v — ONLY the property theorems for C14 (LZ4 block decoder).  Model: Model/Lz4Model.v. *)
From GR Require Import Base.Bytes Model.Lz4Model Proofs.Lz4Safe Gen.GenLz4 Proofs.GenAgreeLz4.
Local Open Scope nat_scope.

(* For ARBITRARY input bytes, any announced output size and any initial content of the output array: the decoder
   never reads outside the input, never reads or writes outside the output array (no Trap), and terminates within
   the fuel derived from the input length (no OutOfFuel). *)
Theorem C14_memory_safe : forall src osz out0, length out0 = osz ->
  decompress src osz out0 <> Trap /\ decompress src osz out0 <> OutOfFuel.
Proof. exact decompress_safe. Qed.
Print Assumptions C14_memory_safe.

(* tie A: constants and align() regenerated from src/inc/Compression.h on this run (sizeof(unsigned long) as compiled) *)
Theorem C14_gen_constants_agree :
  GenLz4.MINMATCH = N.of_nat Lz4Model.MINMATCH /\ GenLz4.LASTLITERALS = N.of_nat Lz4Model.LASTLITERALS /\
  GenLz4.MINCODA = N.of_nat Lz4Model.MINCODA /\ GenLz4.MINSRCSIZE = N.of_nat Lz4Model.MINSRCSIZE.
Proof. exact gen_lz4_consts_agree. Qed.
Print Assumptions C14_gen_constants_agree.

Theorem C14_gen_align_agrees : forall p, (p < 2 ^ 60)%N -> GenLz4.align p = N.of_nat (Lz4Model.align (N.to_nat p)).
Proof. exact gen_lz4_align_agrees. Qed.
Print Assumptions C14_gen_align_agrees.

(* A literal or match length never wraps: the extension bytes only add to it, and the sum stops at the largest 32-bit value (with a wrapping
   sum, 16 MiB of 0xff bytes brought a length back to a small value and the decoder accepted a block every LZ4 decoder refuses). *)
Theorem C14_length_extension_never_wraps : forall s l, (l < U32)%N -> (l <= fst (read_ext s l) < U32)%N.
Proof. exact read_ext_monotone. Qed.
Print Assumptions C14_length_extension_never_wraps.
Theorem C14_length_extension_tied : GenLz4.ext_saturates = 1%N.
Proof. exact gen_ext_saturates. Qed.
Print Assumptions C14_length_extension_tied.
