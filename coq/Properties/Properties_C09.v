(* Properties_C09.v — ONLY the property theorems for C09 (a preloaded face can be shared by concurrent shapers).
   Model: Model/MemoModel.v.  What the model can carry: after gr_face_preloadAll the face state is never written, so every
   schedule of lookups by any number of threads returns the single-threaded answers.  What it cannot exhibit: the memory model
   (data races proper), which the check decides with ThreadSanitizer on the real library. *)
From GR Require Import Base.Bytes Model.MemoModel Proofs.MemoProofs.
From Coq Require Import NArith.
Local Open Scope N_scope.

(* ANY schedule (sequence of (thread, glyph) lookups) on a preloaded cache: every lookup returns the cache-free answer and the
   cache is left exactly as it was — lookups are reads only, hence they commute and no interleaving can be observed. *)
Theorem C09_preloaded_schedule_free : forall (V : Type) (load : N -> option V) n cp (sched : list (nat * N)), init_preload V load n = Some cp ->
  run V load n cp (map snd sched) = (map (spec V load n) (map snd sched), cp).
Proof. exact preloaded_schedule_free. Qed.
Print Assumptions C09_preloaded_schedule_free.

(* a preloaded cache has dropped its loader: no table is consulted after construction *)
Theorem C09_preloaded_no_loader : forall (V : Type) (load : N -> option V) n cp, init_preload V load n = Some cp -> gc_loader V cp = false.
Proof. intros V load n cp H. exact (proj2 (init_preload_inv V load n cp H)). Qed.
Print Assumptions C09_preloaded_no_loader.

(* preloading is all or nothing: a face asked to preload its glyphs is refused exactly when it has no glyphs or some glyph below the
   glyph count cannot be read -- it is never handed out in on-demand mode (which would write to the shared cache under threads) *)
Theorem C09_preload_refused_iff : forall (V : Type) (load : N -> option V) n,
  init_preload V load n = None <-> n = 0 \/ exists g, g < n /\ load g = None.
Proof. exact init_preload_refused_iff. Qed.
Print Assumptions C09_preload_refused_iff.

Example C09_example :
  let load := fun g => if g <? 3 then Some (g + 7) else None in
  match init_preload N load 3 with
  | Some c => run N load 3 c (map snd [(0%nat, 2); (1%nat, 0); (0%nat, 5); (1%nat, 2)]) = ([Some 9; Some 7; Some 7; Some 9], c)
  | None => False
  end.
Proof. vm_compute. reflexivity. Qed.
