(* Properties_C20.v — ONLY the property theorems for C20 (tag/string conversions), each closed by
   [exact lemma] and followed by Print Assumptions.  Models: Model/TagModel.v (hand-written after
   src/gr_face.cpp), tied to the source by Gen/GenTag.v (tie A) and the correspondence harness (tie B). *)
From GR Require Import Base.Bytes Model.TagModel Proofs.TagProofs Gen.GenTag Proofs.GenAgreeTag.
Local Open Scope N_scope.

(* gr_str_to_tag on the region holding exactly the C string and its terminator: no trap (no read beyond
   the NUL) and the result is the big-endian tag of the first min(4,len) characters, zero padded. *)
Theorem C20_str_to_tag : forall s, nonzero_bytes s -> str_to_tag (s ++ [0]) = Some (tag_spec s).
Proof. exact str_to_tag_exact_region. Qed.
Print Assumptions C20_str_to_tag.

(* ... and whatever lies after the terminator does not influence the result *)
Theorem C20_str_to_tag_ignores_tail : forall s rest, nonzero_bytes s ->
  str_to_tag (s ++ 0 :: rest) = Some (tag_spec s).
Proof. exact str_to_tag_correct. Qed.
Print Assumptions C20_str_to_tag_ignores_tail.

(* gr_tag_to_str stores exactly at offsets 0..3, the four tag bytes, most significant first *)
Theorem C20_tag_to_str : forall t,
  tag_to_str t = [ (0%nat, byte3 t); (1%nat, byte2 t); (2%nat, byte1 t); (3%nat, byte0 t) ].
Proof. exact tag_to_str_bytes. Qed.
Print Assumptions C20_tag_to_str.

(* hence in a caller buffer everything after the first four bytes is untouched *)
Theorem C20_tag_to_str_nothing_after : forall t a b c d rest,
  apply_writes (a :: b :: c :: d :: rest) (tag_to_str t) = Some (byte3 t :: byte2 t :: byte1 t :: byte0 t :: rest).
Proof. exact tag_to_str_leaves_rest. Qed.
Print Assumptions C20_tag_to_str_nothing_after.

(* inverse on four-character tags, into a buffer of exactly four bytes *)
Theorem C20_inverse_str : forall c0 c1 c2 c3 buf4, nonzero_bytes [c0; c1; c2; c3] -> length buf4 = 4%nat ->
  exists t, str_to_tag ([c0; c1; c2; c3] ++ [0]) = Some t /\ apply_writes buf4 (tag_to_str t) = Some [c0; c1; c2; c3].
Proof. exact inverse_4. Qed.
Print Assumptions C20_inverse_str.

Theorem C20_inverse_tag : forall s, nonzero_bytes s -> (length s <= 4)%nat ->
  let t := be32_of (pad_to4 0 s) in
  exists out, apply_writes [0; 0; 0; 0] (tag_to_str t) = Some out /\ str_to_tag (out ++ [0]) = Some t.
Proof. exact inverse_tag. Qed.
Print Assumptions C20_inverse_tag.

(* space-padded and zero-padded forms of the same short tag normalise to the same value (zeropad is what
   gr_face_find_fref / gr_face_featureval_for_lang apply; the script entry point applies the same strip) *)
Theorem C20_padding : forall s, all_bytes s -> (length s <= 4)%nat -> last s 0 <> 32 -> Forall (fun b => b <> 0) s ->
  zeropad (be32_of (pad_to4 32 s)) = zeropad (be32_of (pad_to4 0 s)).
Proof. exact padding_agree. Qed.
Print Assumptions C20_padding.

(* tie A: the functions regenerated from the source on this run are the model's *)
Theorem C20_gen_zeropad_agrees : forall x, GenTag.zeropad x = TagModel.zeropad x.
Proof. exact gen_zeropad_agrees. Qed.
Print Assumptions C20_gen_zeropad_agrees.

Theorem C20_gen_script_strip_agrees : forall x, GenTag.script_strip x = TagModel.zeropad x.
Proof. exact gen_script_strip_agrees. Qed.
Print Assumptions C20_gen_script_strip_agrees.

(* ... and at the API: the key gr_face_find_fref looks a feature up by, and the key gr_face_featureval_for_lang looks a language up by
   (both regenerated from the bodies of those functions in src/gr_face.cpp), are the same for the space-padded and the zero-padded
   spelling of a tag -- so the two spellings select the same feature and the same language's values in EVERY Feat / Sill table. *)
From GR Require Import Model.FeatModel.
Theorem C20_feature_padding : forall s, all_bytes s -> (length s <= 4)%nat -> last s 0 <> 32 -> Forall (fun b => b <> 0) s ->
  forall fm, find_fref fm (GenTag.find_fref_key (be32_of (pad_to4 32 s))) = find_fref fm (GenTag.find_fref_key (be32_of (pad_to4 0 s))).
Proof. intros s H1 H2 H3 H4 fm. rewrite !gen_find_fref_key_agrees, (padding_agree s H1 H2 H3 H4). reflexivity. Qed.
Print Assumptions C20_feature_padding.
Theorem C20_language_padding : forall s, all_bytes s -> (length s <= 4)%nat -> last s 0 <> 32 -> Forall (fun b => b <> 0) s ->
  forall fm langs, clone_for_lang fm langs (GenTag.lang_key (be32_of (pad_to4 32 s))) = clone_for_lang fm langs (GenTag.lang_key (be32_of (pad_to4 0 s))).
Proof. intros s H1 H2 H3 H4 fm langs. rewrite !gen_lang_key_agrees, (padding_agree s H1 H2 H3 H4). reflexivity. Qed.
Print Assumptions C20_language_padding.

(* non-vacuity: the hypotheses are met by concrete strings *)
Example C20_example : str_to_tag ([0x6C; 0x61; 0x74] ++ [0]) = Some 0x6C617400
                      /\ zeropad 0x6C612020 = 0x6C610000 /\ nonzero_bytes [0x6C; 0x61; 0x74].
Proof. repeat split; try reflexivity. repeat constructor. Qed.
