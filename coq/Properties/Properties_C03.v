(* Properties_C03.v — ONLY the property theorems for C03 (well-formed glyph stream).  Model: Model/StreamModel.v, the
   list-level model of every primitive operation that edits the stream; the harness's abstraction function (walk of the real
   next/prev/first/last links with consistency checks) relates the pointer structure to the list on every snapshot. *)
From GR Require Import Base.Bytes Model.StreamModel Proofs.StreamProofs.
From Coq Require Import ZArith Permutation.
Local Open Scope Z_scope.

(* Whatever sequence of primitive operations rules, bytecode and text drive (append, INSERT, DELETE, PUT_COPY, TEMP_COPY,
   free, attach / detach, ASSOC, reversal, associateChars, linkClusters), the stream never contains a slot twice. *)
Theorem C03_stream_no_repeats : forall nchars rtl ops st, run_ops (st0 nchars rtl) ops = Ok st -> NoDup (st_stream st).
Proof. exact segment_stream_wf. Qed.
Print Assumptions C03_stream_no_repeats.

(* one-step form: every primitive preserves it from any state *)
Theorem C03_step_preserves : forall st o st', NoDup (st_stream st) -> apply_op st o = Ok st' -> NoDup (st_stream st').
Proof. exact apply_op_wf_stream. Qed.
Print Assumptions C03_step_preserves.

(* reverseSlots (marks stay after their bases) keeps exactly the same slots: the slot count and the set of indices survive *)
Theorem C03_reverse_same_slots : forall st marks st', apply_op st (OReverse marks) = Ok st' -> Permutation (st_stream st') (st_stream st).
Proof. exact reverse_same_slots. Qed.
Print Assumptions C03_reverse_same_slots.

(* PARTIAL: not proved here — that gr_slot_index values form a permutation of 0..n-1 (associateChars numbers the stream in
   order before any final reversal), finiteness of positions, and the glyph-id clause; these are checked on the implementation by
   the structural oracle and, for indices, by the correspondence (the model computes them and they are compared). *)

Example C03_example :
  match run_ops (st0 3 false) [OAppend 0%N 0; OAppend 1%N 1; OAppend 2%N 2; OInsert 3%N (Some 1%N); ODelete 2%N; OReverse [false; false; true]] with
  | Ok st => st_stream st = [3%N; 1%N; 0%N] | Err _ => False end.
Proof. vm_compute. reflexivity. Qed.
