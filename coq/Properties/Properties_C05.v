(* Properties_C05.v — ONLY the property theorems for C05 (characters and slots stay validly associated).
   Models: Model/StreamModel.v (associations through every stream operation) and Model/UtfModel.v (char-infos of the input). *)
From GR Require Import Base.Bytes Model.StreamModel Proofs.StreamProofs Model.UtfModel Proofs.UtfGeneric Proofs.UtfSweep8 Proofs.UtfSweep16 Proofs.UtfProofs.
From Coq Require Import ZArith Lia.
Local Open Scope Z_scope.

(* For a segment of n > 0 characters, after ANY sequence of primitive operations (insertions, deletions, copies, ASSOC with
   arbitrary references, reorderings, attachments, associateChars), every slot's before, after and original are char-info
   indices in [0, n). *)
Theorem C05_slot_ranges : forall nchars rtl ops st, 0 < nchars -> Forall (op_ok nchars) ops ->
  run_ops (st0 nchars rtl) ops = Ok st ->
  forall s a, aget (st_attr st) s = Some a -> 0 <= a_before a < nchars /\ 0 <= a_after a < nchars /\ 0 <= a_orig a < nchars.
Proof. exact segment_assoc_in_range. Qed.
Print Assumptions C05_slot_ranges.

(* the char-infos of the input: characters in order with their code-unit offsets, one per character consumed (canonical text,
   any nChars) — from the text-reading model shared with C11 / C12 *)
Theorem C05_cinfo_chars_utf8 : forall us n pos rest, Forall (fun u => ((u < 0x110000)%N /\ ~ (0xD800 <= u <= 0xDFFF)%N) /\ u <> 0%N) us ->
  read_text get8 n (enc_all put8 us ++ 0%N :: rest) pos = Some (firstn n (combine us (bases put8 pos us))).
Proof. exact (read_text_exact get8 put8 valid8 get8_nul_zero get8_put8). Qed.
Print Assumptions C05_cinfo_chars_utf8.

(* PARTIAL: not proved — that every character index is covered by some slot's [before, after] and that every char-info's
   before/after are slot indices in [0, n_slots) after associateChars.  The model computes both (assoc_pass1/2) and they are
   compared with the implementation on every run; the implementation-side oracle evaluates the two clauses directly. *)

(* After associateChars a char-info never has just one side set: a character whose slot was deleted without ASSOC is reached
   from one neighbouring slot only, and takes both its before and after from it (the loop added by the fix recorded in
   known_findings.txt; before it, such a character kept before = -1 — the former witness C05_cinfo_slot_indices_refuted). *)
Theorem C05_cinfo_sides_together : forall st st', do_assocchars st = Ok st' ->
  forall c, In c (st_cinfo st') -> (c_before c < 0 <-> c_after c < 0).
Proof. exact assocchars_sides_together. Qed.
Print Assumptions C05_cinfo_sides_together.

(* the former counterexample: two characters, the second slot deleted without ASSOC — both sides of char 1 are now slot 0 *)
Example C05_deleted_without_assoc :
  match run_ops (st0 2 false) [OAppend 0%N 0; OAppend 1%N 1; ODelete 1%N; OAssocChars] with
  | Ok st => map (fun c => (c_before c, c_after c)) (st_cinfo st) = [(0, 0); (0, 0)] | Err _ => False end.
Proof. vm_compute. reflexivity. Qed.

Example C05_example :
  match run_ops (st0 2 false) [OAppend 0%N 0; OAppend 1%N 1; OInsert 2%N (Some 1%N); OAssoc 2%N [Some 0%N; Some 1%N]; OAssocChars] with
  | Ok st => map (fun c => (c_before c, c_after c)) (st_cinfo st) = [(0, 1); (1, 2)] | Err _ => False end.
Proof. vm_compute. reflexivity. Qed.

(* tie A for the representation the theorems above assume: associations are character / slot INDICES kept as unbounded numbers in the
   models; in the code they live in fields whose narrowest width is regenerated from src/inc/Slot.h and src/inc/CharInfo.h -- wide enough
   that every index below 2^31 (the accessors return int) is stored and read back unchanged, whatever the length of the text. *)
From GR Require Import Gen.GenAssoc Proofs.GenAgreeAssoc.
Theorem C05_association_fields_hold_every_index : forall i : N, (i < 2 ^ 31)%N -> (i mod 2 ^ GenAssoc.assoc_index_bits = i)%N /\ (31 < GenAssoc.assoc_index_bits)%N.
Proof. exact gen_assoc_index_roundtrip. Qed.
Print Assumptions C05_association_fields_hold_every_index.
