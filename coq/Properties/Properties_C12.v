(* Properties_C12.v — ONLY the property theorems for C12 (gr_make_seg's text consumption).
   Model: read_text in Model/UtfModel.v, after process_utf_data / Segment::read_text (src/Segment.cpp). *)
From GR Require Import Base.Bytes Model.UtfModel Proofs.UtfGeneric Proofs.UtfSweep8 Proofs.UtfSweep16 Proofs.UtfProofs.
Local Open Scope N_scope.

(* For memory holding exactly the text and its terminating NUL unit (any text, well-formed or not): reading never
   traps — no unit beyond the NUL is read — and for every nChars = n the char-infos produced are the first n of
   the full decode l of the text: one per character actually consumed, never more than there are units. *)
Theorem C12_utf8_stops_at_nul : forall t, exists l, (length l <= length t)%nat /\
  forall n, read_text get8 n (t ++ [0]) 0 = Some (firstn n l).
Proof. exact (read_text_stops_at_nul get8 get8_len get8_nul_some get8_nul_len get8_nul_zero). Qed.
Print Assumptions C12_utf8_stops_at_nul.

Theorem C12_utf16_stops_at_nul : forall t, exists l, (length l <= length t)%nat /\
  forall n, read_text get16 n (t ++ [0]) 0 = Some (firstn n l).
Proof. exact (read_text_stops_at_nul get16 get16_len get16_nul_some get16_nul_len get16_nul_zero). Qed.
Print Assumptions C12_utf16_stops_at_nul.

Theorem C12_utf32_stops_at_nul : forall t, exists l, (length l <= length t)%nat /\
  forall n, read_text get32 n (t ++ [0]) 0 = Some (firstn n l).
Proof. exact (read_text_stops_at_nul get32 get32_len get32_nul_some get32_nul_len get32_nul_zero). Qed.
Print Assumptions C12_utf32_stops_at_nul.

(* on canonical text the consumed characters and their code-unit offsets are exactly the text's, whatever
   lies after the terminator and however large nChars is *)
Theorem C12_utf8_exact : forall us n pos rest, Forall (fun u => (u < 0x110000 /\ ~ (0xD800 <= u <= 0xDFFF)) /\ u <> 0) us ->
  read_text get8 n (enc_all put8 us ++ 0 :: rest) pos = Some (firstn n (combine us (bases put8 pos us))).
Proof. exact (read_text_exact get8 put8 valid8 get8_nul_zero get8_put8). Qed.
Print Assumptions C12_utf8_exact.

Theorem C12_utf16_exact : forall us n pos rest, Forall (fun u => valid16 u /\ u <> 0) us ->
  read_text get16 n (enc_all put16 us ++ 0 :: rest) pos = Some (firstn n (combine us (bases put16 pos us))).
Proof. exact (read_text_exact get16 put16 valid16 get16_nul_zero get16_put16). Qed.
Print Assumptions C12_utf16_exact.

Theorem C12_utf32_exact : forall us n pos rest, Forall (fun u => (u < 0x110000 /\ ~ (0xD800 <= u <= 0xDFFF)) /\ u <> 0) us ->
  read_text get32 n (enc_all put32 us ++ 0 :: rest) pos = Some (firstn n (combine us (bases put32 pos us))).
Proof. exact (read_text_exact get32 put32 valid32 get32_nul_zero get32_put32). Qed.
Print Assumptions C12_utf32_exact.

Example C12_example : read_text get8 10 ([0x61; 0x62] ++ [0]) 0 = Some [(0x61, 0%nat); (0x62, 1%nat)]
  /\ read_text get8 1 ([0x61; 0x62] ++ [0]) 0 = Some [(0x61, 0%nat)].
Proof. vm_compute. split; reflexivity. Qed.
