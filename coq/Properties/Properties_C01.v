(* Properties_C01.v — ONLY the property theorems for C01 (font loading is total and memory-safe on arbitrary table bytes).
   Models: Model/SfntModel.v (container / file face), Model/CmapModel.v, Model/Lz4Model.v, Model/VmModel.v (bytecode loader),
   each hand-written after the parser it names; Model/GlatModel.v (Gloc / Glat reader), Model/PassModel.v (pass header), Model/SilfModel.v (Silf directory and subtable headers).  The rest of the pass parser and the name parser are not modelled:
   DESIGN.md section 6/C01 lists them as covered by the sanitizer oracle only. *)
From GR Require Import Base.Bytes Base.MemFacts Model.SfntModel Proofs.SfntProofs Model.CmapModel Proofs.CmapSafe Model.Lz4Model Proofs.Lz4Safe
                       Model.VmModel Proofs.VmProofs Base.Mem Model.GlatModel Proofs.GlatProofs Model.ClassMapModel Proofs.ClassMapProofs.
From Coq Require Import NArith.

(* The file face: for ARBITRARY file bytes, a table handed out is a slice of the file (offset + length inside the file) … *)
Theorem C01_file_table_inside : forall f tag t, file_table f tag = Some t ->
  exists off len, (off + len <= flen f)%N /\ t = firstn (N.to_nat len) (skipn (N.to_nat off) f) /\ length t = N.to_nat len.
Proof. exact file_table_inside. Qed.
Print Assumptions C01_file_table_inside.

(* tie A for the test that decides it: the bounds test of FileFace::get_table_fn (regenerated from its body in src/FileFace.cpp, together
   with the fact that exactly the directory's length is allocated, read and reported) lets through exactly the pairs inside the file, and
   is the test the model above uses. *)
From GR Require Import Gen.GenFile Proofs.GenAgreeFile.
Theorem C01_file_table_bounds_tied : forall off len fl, (GenFile.file_table_refused off len fl = false <-> (off + len <= fl)%N) /\
  GenFile.file_table_refused off len fl = ((fl <? off) || (fl - off <? len))%N.
Proof. intros. split; [apply gen_file_table_bounds | reflexivity]. Qed.
Print Assumptions C01_file_table_bounds_tied.

(* … and opening reads exactly the 12-byte header and num_tables 16-byte entries, all inside the file. *)
Theorem C01_open_file_inside : forall f ff, open_file f = Some ff ->
  length (ff_header ff) = 12%nat /\ length (ff_dir ff) = N.to_nat (ff_ntables ff * 16) /\ (12 + ff_ntables ff * 16 <= flen f)%N.
Proof. exact open_file_inside. Qed.
Print Assumptions C01_open_file_inside.

(* cmap: for ARBITRARY table bytes, once the subtable checks accepted, no lookup reads outside the table. *)
Theorem C01_cmap12_safe : forall (l : bytes) o, let t := mem_of_list l in (tlen t < S64)%N -> check12 t (Some o) = Some true ->
  forall c key, lookup12 t o c key <> None.
Proof. intros l o. exact (lookup12_safe (mem_of_list l) o (mem_of_list_wf l)). Qed.
Print Assumptions C01_cmap12_safe.
Theorem C01_cmap4_safe : forall (l : bytes) o, let t := mem_of_list l in (tlen t < S64)%N -> check4 t (Some o) = Some true ->
  forall c key sc, w4 t o 3 = Some sc -> (key < sc / 2)%N -> lookup4 t o c key <> None.
Proof. intros l o. exact (lookup4_safe (mem_of_list l) o (mem_of_list_wf l)). Qed.
Print Assumptions C01_cmap4_safe.

(* compressed tables: for ARBITRARY compressed bytes and any announced size the decoder stays inside both buffers and terminates. *)
Theorem C01_decompress_safe : forall src osz out0, length out0 = osz ->
  decompress src osz out0 <> Trap /\ decompress src osz out0 <> OutOfFuel.
Proof. exact decompress_safe. Qed.
Print Assumptions C01_decompress_safe.

(* rule bytecode: whatever the loader accepts (over the modelled opcode subset) never underflows the stack nor runs off its end. *)
Theorem C01_bytecode_loader_sound : forall bc c, load bc = LLoaded c -> run c [] <> RUnderflow /\ run c [] <> RRanOff.
Proof. exact loader_stack_sound. Qed.
Print Assumptions C01_bytecode_loader_sound.

(* non-vacuity: a 44-byte file with one table entry pointing at its last 4 bytes; the same file with the length field raised by one *)
Example C01_example :
  let hdr := [0;1;0;0; 0;1; 0;0;0;0;0;0]%N in
  let ent len := [0x54;0x45;0x53;0x54; 0;0;0;0; 0;0;0;40; 0;0;0;len]%N in
  let body := repeat 0%N 12 ++ [0xDE;0xAD;0xBE;0xEF]%N in
  file_table (hdr ++ ent 4%N ++ body) 0x54455354 = Some [0xDE;0xAD;0xBE;0xEF]%N /\ file_table (hdr ++ ent 5%N ++ body) 0x54455354 = None.
Proof. vm_compute. split; reflexivity. Qed.

(* Pass::readPass: for ARBITRARY pass bytes (any length, any header values, any subtable base) the loader never reads outside
   the pass, and every array and code block it goes on to read — ranges, rule map, start states, sort keys, pre-contexts,
   constraint / action offsets, transition table, pass constraint, each rule's constraint and action code — lies inside it. *)
From GR Require Import Base.Mem Model.PassModel Proofs.PassProofs.
Theorem C01_read_pass_safe : forall (l : bytes) base coll_ok,
  match read_pass (mem_of_list l) base coll_ok with
  | PTrap => False
  | PReject => True
  | PAccept rs => Forall (fun r => (0 <= fst r /\ 0 <= snd r /\ fst r + snd r <= Z.of_N (tlen (mem_of_list l)))%Z) rs
  end.
Proof. exact read_pass_arbitrary_bytes. Qed.
Print Assumptions C01_read_pass_safe.

(* ... and the two models of readPass meet: on EVERY pass whose offsets the model above accepts, the reads that build the state
   machine's tables (Model/FsmModel.v: ranges, rule-map offsets and rule map, pre-context bounds, start states, sort keys, the
   transition table) all fall inside the pass — the second model, which repeats the first one's offset arithmetic, never traps. *)
From GR Require Import Model.FsmModel Proofs.PassFsm.
Theorem C01_pass_tables_read_in_bounds : forall (l : bytes) base coll_ok rs,
  read_pass (mem_of_list l) base coll_ok = PAccept rs -> read_fsm (mem_of_list l) <> FTrap.
Proof. exact read_pass_accept_fsm_no_trap_bytes. Qed.
Print Assumptions C01_pass_tables_read_in_bounds.
(* non-vacuity: the compiled two-rule pass of C02_example_fsm, at subtable offset 66, is accepted by both *)
Example C01_example_pass_tables :
  let p := mem_of_list [0; 1; 2; 0; 0; 2; 0; 0; 0; 0; 0; 162; 0; 0; 0; 162; 0; 0; 0; 162; 0; 0; 0; 0; 0; 3; 0; 2; 0; 2; 0; 2; 0; 2; 0; 0; 0; 0; 0; 0; 0; 5; 0; 5;
      0; 0; 0; 6; 0; 6; 0; 1; 0; 0; 0; 1; 0; 2; 0; 1; 0; 0; 0; 0; 0; 0; 0; 2; 0; 1; 0; 0; 0; 0; 0; 0; 0; 0; 0; 0; 0; 0; 0; 0; 5; 0; 9; 0; 1; 0; 0; 0; 0; 0; 2; 0; 28; 0; 25;
      25; 49; 28; 1; 25; 49]%N in
  (exists rs, read_pass p 66 true = PAccept rs /\ length rs = 15%nat) /\ (exists f, read_fsm p = FOk f /\ f_nrules f = 2%N).
Proof. split; eexists; (split; [vm_compute; reflexivity|]); vm_compute; reflexivity. Qed.

(* The glyph-attribute reader (GlyphCache::Loader, read_glyph, the Glat run iterators): for ARBITRARY Gloc and Glat bytes the header
   checks never read outside the tables, and once they accepted the pair, reading the attributes of ANY glyph below the
   attributed-glyph count never reads outside either table and ends by itself (fuel is not what stops the iterator). *)
Theorem C01_glat_loader_total : forall (gloc glat : bytes) ng, glat_loader (mem_of_list gloc) (mem_of_list glat) ng <> None.
Proof. intros. apply glat_loader_total; apply mem_of_list_wf. Qed.
Print Assumptions C01_glat_loader_total.
Theorem C01_glat_reads_in_bounds : forall (gloc glat : bytes) ng l, glat_loader (mem_of_list gloc) (mem_of_list glat) ng = Some (Some l) ->
  forall gid, (gid < gl_nglyphs l)%N -> read_attrs l (mem_of_list gloc) (mem_of_list glat) gid <> GTrap.
Proof. intros gloc glat ng l. apply read_attrs_safe; apply mem_of_list_wf. Qed.
Print Assumptions C01_glat_reads_in_bounds.
(* non-vacuity: two glyphs, version-1 Glat; glyph 0 has attributes 1 -> 7, 2 -> 9; glyph 1's block claims a run of 2 with room for one
   value and a stray byte: the iterator stops at the stray byte instead of reading past the table *)
Example C01_example_glat :
  let gloc := [0;1;0;0; 0;0; 0;8;  0;4; 0;10; 0;15]%N in
  let glat := [0;1;0;0;  1;2;0;7;0;9;  0;2;0;5;3]%N in
  match glat_loader (mem_of_list gloc) (mem_of_list glat) 2 with
  | Some (Some l) => gl_nglyphs l = 2%N /\ read_attrs l (mem_of_list gloc) (mem_of_list glat) 0 = GAttrs [(1, 7); (2, 9)]%N
                     /\ read_attrs l (mem_of_list gloc) (mem_of_list glat) 1 = GAttrs [(0, 5)]%N
  | _ => False
  end.
Proof. vm_compute. repeat split. Qed.

(* The class map of a Silf subtable (Silf::readClassMap / readClassOffsets): for ARBITRARY bytes, any Silf version and any position and
   length inside the table, the reader never reads outside the data_len bytes it is given (with the class-map header size kept in 32 bits,
   as repaired: kept in 16 bits it wrapped from 32766 classes on and the class data was read past the table). *)
Theorem C01_class_map_reads_in_bounds : forall (l : bytes) start dlen version, (start + dlen <= tlen (mem_of_list l))%N ->
  read_class_map (mem_of_list l) start dlen version <> CTrap.
Proof. intros l start dlen version. apply read_class_map_safe. apply mem_of_list_wf. Qed.
Print Assumptions C01_class_map_reads_in_bounds.
(* non-vacuity: one linear class {5, 9} and one lookup class of one pair, 16-bit offsets: accepted *)
Example C01_example_classmap :
  read_class_map (mem_of_list [0;2; 0;1;  0;10; 0;14; 0;26;  0;5; 0;9;  0;1; 0;1; 0;0; 0;0; 0;7; 0;3]%N) 0 26 0x20000
  = COk 2 1 [0; 2; 8]%N [5; 9; 1; 1; 0; 0; 7; 3]%N.
Proof. vm_compute. reflexivity. Qed.

From GR Require Import Model.SilfModel Proofs.SilfProofs.
From Coq Require Import List.
Import ListNotations.
(* The Silf table directory and the subtable headers (Face::readGraphite, Silf::readGraphite): for ARBITRARY table bytes, any glyph
   and attribute counts, no read falls outside the table -- in the directory loop (which reads entry i without looking at the table
   length: every subtable accepted before it is at least 31 bytes long and the offsets increase), in the header fields, the
   justification levels, the pseudo-glyph map, the class map, the pass offset array, or any pass handed to Pass::readPass as the slice
   [pass_start, pass_end) of its subtable. *)
Theorem C01_silf_reads_in_bounds : forall (l : bytes) ng na boxes j, snd (read_silf_table (mem_of_list l) ng na boxes) <> Some (j, STrap).
Proof. intros l ng na boxes j. apply read_silf_table_safe. apply mem_of_list_wf. Qed.
Print Assumptions C01_silf_reads_in_bounds.
(* ... and every subtable the loader accepted has its glyph-attribute numbers below numAttrs, its pass numbers ordered
   (substitution <= positioning <= justification <= numPasses <= 128, the bidi pass absent or between the last two), at most 127
   ligature components, as many pass slices as passes, and each slice inside the subtable after the passes' start *)
Theorem C01_silf_accepted_headers_consistent : forall (l : bytes) ng na boxes,
  Forall (fun h => exists len, (len <= tlen (mem_of_list l))%N /\ hdr_ok len na h) (fst (read_silf_table (mem_of_list l) ng na boxes)).
Proof. intros l ng na boxes. apply read_silf_table_ok. apply mem_of_list_wf. Qed.
Print Assumptions C01_silf_accepted_headers_consistent.
(* non-vacuity: a compiled one-rule font's Silf table (version 2, one subtable, one substitution pass) is accepted whole *)
Example C01_example_silf :
  let t := mem_of_list [0; 2; 0; 0; 0; 1; 0; 0; 0; 0; 0; 12; 0; 219; 0; 0; 0; 0; 1; 0; 1; 1; 255; 0; 2; 8; 0; 1; 2; 3; 0; 0; 0; 0; 2; 0; 1; 0; 0; 0; 0; 0; 0; 0; 0; 0;
    0; 0; 0; 62; 0; 0; 0; 139; 0; 0; 0; 0; 0; 0; 0; 0; 0; 1; 0; 1; 0; 8; 0; 10; 0; 6; 0; 0; 0; 1; 1; 0; 0; 1; 0; 0; 0; 0; 0; 135; 0; 0; 0; 135; 0; 0; 0; 135;
    0; 0; 0; 0; 0; 2; 0; 1; 0; 1; 0; 1; 0; 1; 0; 0; 0; 0; 0; 0; 0; 5; 0; 5; 0; 0; 0; 0; 0; 1; 0; 0; 0; 0; 0; 0; 0; 1; 0; 0; 0; 0; 0; 0; 0; 0; 0; 0; 0; 4; 0; 1;
    0; 28; 0; 25; 49]%N in
  match read_silf_table t 220 8 false with
  | ([h], None) => h_npass h = 1%N /\ h_passes h = [(62, 139, 1)]%N /\ h_nclass h = 1%N /\ have_passes [h] = true
  | _ => False
  end.
Proof. vm_compute. repeat split. Qed.
