(* Properties_C06.v — ONLY the property theorems for C06 (passes apply rules with the documented matching and precedence).
   Model: Model/RuleModel.v — the reference semantics of a pass over the GDL-lite subset.  The theorems establish that the
   executable reference IS the documented semantics (selection = highest precedence among the matching rules, pass-through,
   termination, composition); that the engine computes the same function is the correspondence check of tools/props/c06.py,
   which compiles random rule programs to fonts and compares the engine's output with the extracted reference. *)
From GR Require Import Base.Bytes Model.RuleModel Proofs.RuleProofs Proofs.LoopBridge.
From Coq Require Import NArith ZArith.

(* At each position the rule that fires is a rule of the pass, matches the stream around the position, and no matching rule
   has higher precedence (longer sort key, or equal sort key and earlier in the pass). *)
Theorem C06_selection_is_highest_precedence : forall rules l i kr r, select rules l i 0 None = Some (kr, r) ->
  nth_error rules kr = Some r /\ rule_matches r l i = true /\
  (forall j r', nth_error rules j = Some r' -> rule_matches r' l i = true -> better kr r j r').
Proof. exact select_sound. Qed.
Print Assumptions C06_selection_is_highest_precedence.

(* No rule fires exactly when no rule matches. *)
Theorem C06_no_rule_iff_none_matches : forall rules l i, select rules l i 0 None = None <-> forall r, In r rules -> rule_matches r l i = false.
Proof. exact select_none. Qed.
Print Assumptions C06_no_rule_iff_none_matches.

(* Where no rule applies the glyphs pass through unchanged. *)
Theorem C06_pass_through : forall adv positioning rules fuel l i, (forall j r, In r rules -> rule_matches r l j = false) -> run_pass adv positioning fuel rules l i = l.
Proof. exact pass_through. Qed.
Print Assumptions C06_pass_through.

(* The pass terminates: length + 1 steps always suffice (more fuel changes nothing). *)
Theorem C06_pass_terminates : forall adv positioning rules extra fuel l i, (length l - i < fuel)%nat ->
  run_pass adv positioning (fuel + extra) rules l i = run_pass adv positioning fuel rules l i.
Proof. exact run_pass_fuel_enough. Qed.
Print Assumptions C06_pass_terminates.

(* Passes run in font order over the previous pass's output. *)
Theorem C06_passes_compose : forall adv p1 p2 k ns l,
  run_passes_from adv k ns (p1 ++ p2) l = run_passes_from adv (k + length p1) ns p2 (run_passes_from adv k ns p1 l).
Proof. exact run_passes_app. Qed.
Print Assumptions C06_passes_compose.

(* A positioning pass changes attributes and attachments only: the number of slots stays. *)
Theorem C06_positioning_keeps_length : forall adv rules fuel l i, length (run_pass adv true fuel rules l i) = length l.
Proof. exact positioning_keeps_length. Qed.
Print Assumptions C06_positioning_keeps_length.

(* The full loop semantics (cursor adjustment, high-water mark, loop counter, insert budget — the definitions the correspondence
   check runs against the engine): a pass always ends by itself, the fuel of run_pass_b is never what stops it, so the stream it
   returns is the one the loop really ends with. *)
Theorem C06_loop_pass_terminates : forall adv positioning maxloop rules l n, (1 <= maxloop)%nat -> l <> nil ->
  ls_s (loop_run adv positioning maxloop rules (pass_fuel_b maxloop l (Some n)) (st_init maxloop l (Some n))) = None.
Proof. exact pass_terminates. Qed.
Print Assumptions C06_loop_pass_terminates.

(* non-vacuity: "ab" -> c (deleting b), "d" -> a inserted before it with advance 1234; the longer rule wins over the shorter *)
Example C06_example :
  let adv := fun g : N => 462%Z in
  let sl := fun g => mkslot g 462 0 in
  let r1 := mkrule 0 [[67]; [68]]%N [[APutGlyph 69]; [ADelete]] None in
  let r2 := mkrule 0 [[70]]%N [[AInsert 67; ASetAdv 1234]] None in
  let r3 := mkrule 0 [[67]]%N [[APutGlyph 71]] (Some (mkcon 0 CLt 1000)) in
  map s_gid (run_passes adv 1 [[r3; r1; r2]] (map sl [67; 68; 70; 67; 67; 68]%N)) = [69; 67; 70; 71; 69]%N
  /\ origins (run_passes adv 1 [[r3; r1; r2]] (map sl [67; 68; 70]%N)) 0 = [0; 462; 924]%Z
  (* a positioning pass: the second glyph attaches to the first at (100, 300) with its own point (10, 20) *)
  /\ snd (positions (run_passes adv 0 [[mkrule 0 [[67]; [68]]%N [[]; [AAttach (-1); AAttPt 100 300; AWithPt 10 20]] None]] (map sl [67; 68; 70]%N)))
     = [(0%N, (0, 0)); (1%N, (90, 280)); (2%N, (552, 0))]%Z.
Proof. vm_compute. repeat split. Qed.

(* At the level of the font's tables: the rule list Pass::runFSM hands to findNDoRule -- which tries the rules in list order and applies
   the first whose constraint holds -- is in precedence order (no rule is preceded by one of lower precedence: higher sort key first, then
   the lower rule number) and holds only rules of states of the machine, for the tables the loader builds from ARBITRARY pass bytes and
   any glyph string and context.  (Which states the machine goes through is the font compiler's business; the correspondence of C02 runs
   the real runFSM against this model.) *)
From GR Require Import Base.Mem Model.FsmModel Proofs.FsmProofs Proofs.FsmOrder.
From Coq Require Import Sorted.
Theorem C06_fsm_rules_in_precedence_order : forall (l : bytes) f ctx gids ok n rs,
  read_fsm (mem_of_list l) = FOk f -> run_fsm f ctx gids = Some (ok, n, rs) ->
  StronglySorted (fun a b => rule_lt (f_sort f) b a = false) rs /\ (forall x, In x rs -> exists sr, In sr (f_rules f) /\ In x sr).
Proof. intros l f ctx gids ok n rs Hr Hf. exact (run_fsm_rules_in_precedence_order f ctx gids ok n rs (read_fsm_sorted _ _ Hr) Hf). Qed.
Print Assumptions C06_fsm_rules_in_precedence_order.
