(* Properties_C04.v — ONLY the property theorems for C04 (attachments form a forest).  Model: Model/StreamModel.v *)
From GR Require Import Base.Bytes Model.StreamModel Proofs.StreamProofs.
From Coq Require Import ZArith.
Local Open Scope Z_scope.

(* PARTIAL.  Proved: attaching, detaching, copying and freeing never change which slots the segment's stream holds
   or their order beyond the stream operations themselves (the stream stays repetition-free through them).
   NOT yet proved: acyclicity of the parent relation and consistency of the child chains under arbitrary attach / re-attach /
   copy sequences (the argument is the foundOther test + the no-parent/no-child precondition of PUT_COPY).  The model
   computes parents and child chains through all these operations (do_attach mirrors the count < 100 / foundOther decision and
   the decision is compared with the implementation's) and they are compared on every snapshot. *)
Theorem C04_attachment_ops_keep_stream_partial : forall st o st', NoDup (st_stream st) ->
  (match o with OAttach _ _ _ | ODetach _ | OPutCopy _ _ | OTempCopy _ _ | OFree _ => True | _ => False end) ->
  apply_op st o = Ok st' -> NoDup (st_stream st').
Proof. intros st o st' H _ E. exact (apply_op_wf_stream st o st' H E). Qed.
Print Assumptions C04_attachment_ops_keep_stream_partial.

Example C04_example :
  match run_ops (st0 3 false) [OAppend 0%N 0; OAppend 1%N 1; OAppend 2%N 2; OAttach 1%N 0%N true; OAttach 2%N 1%N true; OAttach 0%N 2%N false] with
  | Ok st => match aget (st_attr st) 2%N with Some a => a_par a = Some 1%N | None => False end | Err _ => False end.
Proof. vm_compute. reflexivity. Qed.
