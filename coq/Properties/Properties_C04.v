(* Properties_C04.v — ONLY the property theorems for C04 (attachments form a forest).  Model: Model/StreamModel.v *)
From GR Require Import Base.Bytes Model.StreamModel Proofs.StreamProofs Proofs.ForestProofs.
From Coq Require Import ZArith.
Local Open Scope Z_scope.

(* The parent relation never closes a cycle: for ANY sequence of appends, insertions, deletions, associations, reversals,
   associateChars, attachments (accepted or refused, re-attachments, attempts to attach an ancestor to its descendant) and
   detachments, no slot is its own n-th ancestor for any n > 0.  Slot::setAttr(gr_slatAttTo) refuses exactly the attachments
   that would close a cycle (the foundOther test over a parent chain that ended before its bound).
   PARTIAL: the copying operations (PUT_COPY, TEMP_COPY, freeSlot) are not covered by this theorem — PUT_COPY is safe only under
   its no-parent / no-child precondition, which needs the child-chain consistency invariant, not proved; the model computes
   parents and child chains through those too and they are compared with the implementation on every snapshot. *)
Theorem C04_parents_acyclic : forall ops n rtl st, Forall forest_op ops -> run_ops (st0 n rtl) ops = Ok st -> acyclic (st_attr st).
Proof. intros ops n rtl st Hf H. exact (forest_ops_keep_acyclic ops (st0 n rtl) st Hf (st0_acyclic n rtl) H). Qed.
Print Assumptions C04_parents_acyclic.

(* the single step: an accepted attachment keeps the relation acyclic; a refused one changes nothing *)
Theorem C04_attach_keeps_acyclic : forall st s other acc st', acyclic (st_attr st) -> do_attach st s other acc = Ok st' -> acyclic (st_attr st').
Proof. exact attach_keeps_acyclic. Qed.
Print Assumptions C04_attach_keeps_acyclic.

(* attaching, detaching, copying and freeing never change which slots the segment's stream holds or their order beyond the
   stream operations themselves (the stream stays repetition-free through them) *)
Theorem C04_attachment_ops_keep_stream_partial : forall st o st', NoDup (st_stream st) ->
  (match o with OAttach _ _ _ | ODetach _ | OPutCopy _ _ | OTempCopy _ _ | OFree _ => True | _ => False end) ->
  apply_op st o = Ok st' -> NoDup (st_stream st').
Proof. intros st o st' H _ E. exact (apply_op_wf_stream st o st' H E). Qed.
Print Assumptions C04_attachment_ops_keep_stream_partial.

(* non-vacuity: 2 attached to 1 attached to 0; attaching 0 to 2 is refused (it would close the cycle 0 -> 2 -> 1 -> 0) *)
Example C04_example :
  match run_ops (st0 3 false) [OAppend 0%N 0; OAppend 1%N 1; OAppend 2%N 2; OAttach 1%N 0%N true; OAttach 2%N 1%N true; OAttach 0%N 2%N false] with
  | Ok st => match aget (st_attr st) 2%N with Some a => a_par a = Some 1%N | None => False end | Err _ => False end.
Proof. vm_compute. reflexivity. Qed.

(* REFUTED for the copying operations (the recorded findings c04:ghost-...): "every child of a slot of the stream is itself in the
   stream" does not survive TEMP_COPY + DELETE — the rule's garbage collection frees the temp copy and leaves the deleted original in
   its parent's child chain.  The witness is the operation history of the recorded finding (a slot attached, temp-copied, deleted;
   the copy freed), replayed on the engine from corpus/vmslot.txt; the model reproduces it. *)
Definition children_in_stream (st : sstate) : Prop :=
  forall p a k, In p (st_stream st) -> aget (st_attr st) p = Some a -> In k (a_kids a) -> In k (st_stream st).
Theorem C04_children_in_stream_refuted : exists n rtl ops st, run_ops (st0 n rtl) ops = Ok st /\ ~ children_in_stream st.
Proof.
  exists 3, false, [OAppend 0%N 0; OAppend 1%N 1; OAppend 2%N 2; OAttach 1%N 0%N true; OTempCopy 3%N 1%N; ODelete 1%N; OFree 3%N].
  eexists. split; [vm_compute; reflexivity|].
  intros H. specialize (H 0%N _ 1%N (or_introl eq_refl) eq_refl (or_introl eq_refl)).
  vm_compute in H. destruct H as [H|[H|H]]; try discriminate; contradiction.
Qed.
Print Assumptions C04_children_in_stream_refuted.
