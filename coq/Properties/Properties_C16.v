(* Properties_C16.v — ONLY the property theorems for C16 (table callbacks follow strict borrow discipline).
   Models: Model/TableModel.v — the life cycle of Face::Table and the ledger of get / release / milestone events. *)
From GR Require Import Base.Bytes Model.TableModel Proofs.TableProofs.
From Coq Require Import NArith.
Local Open Scope N_scope.

(* A trace of table callbacks and API milestones that the ledger accepts satisfies the discipline in its declarative form:
   every buffer handed out is released exactly once and identifiers are never reused; no release precedes its get; the trace
   ends with gr_face_destroy (or a failed gr_make_face) with nothing outstanding and nothing after it; and with
   gr_face_preloadAll no table is fetched once gr_make_face has returned. *)
Theorem C16_ledger_sound : forall preload tr, ledger_ok preload tr = true ->
  (forall h, cnt_rel h tr = cnt_get h tr /\ (cnt_get h tr <= 1)%nat) /\
  (forall a b h, tr = a ++ b -> (cnt_rel h a <= cnt_get h a)%nat) /\
  (exists a, tr = a ++ [EDestroyed] \/ tr = a ++ [EFailed]) /\
  (preload = true -> forall a b h, tr = a ++ EMade :: b -> cnt_get h b = 0%nat).
Proof. exact ledger_sound. Qed.
Print Assumptions C16_ledger_sound.

(* Face::Table, the only place where the library touches the callbacks.  Constructor: whatever the table bytes are, the
   buffer obtained is owned by the new object or has been handed back before the constructor returns. *)
Theorem C16_table_constructor : forall w c, w_bad w = false ->
  let '(w', t) := construct true w c in
  w_bad w' = false /\
  match t_p t with
  | None => w_lent w' = w_lent w /\ w_heap w' = w_heap w
  | Some (App h) => t_comp t = false /\ w_lent w' = h :: w_lent w /\ w_heap w' = w_heap w /\ h = w_next w
  | Some (Heap b) => t_comp t = true /\ w_lent w' = w_lent w /\ w_heap w' = b :: w_heap w /\ b = w_next w + 1
  end.
Proof. exact construct_contract. Qed.
Print Assumptions C16_table_constructor.

(* release: exactly the owned buffer goes back, exactly once; a moved-from or failed object can be destroyed at will. *)
Theorem C16_table_release : forall w h, w_bad w = false -> (0 < occ h (w_lent w))%nat ->
  let '(w', t') := release true w (mktvar (Some (App h)) false) in
  t_p t' = None /\ w_bad w' = false /\ w_heap w' = w_heap w /\ (forall y, occ y (w_lent w) = ((if N.eqb y h then 1 else 0) + occ y (w_lent w'))%nat).
Proof. exact release_app. Qed.
Print Assumptions C16_table_release.
Theorem C16_table_release_null : forall has_rel w c, release has_rel w (mktvar None c) = (w, mktvar None c).
Proof. exact release_null. Qed.
Print Assumptions C16_table_release_null.

(* non-vacuity: a real log (Padauk, default options: create, a label query, destroy) is accepted; the same log without one release is not *)
Example C16_example :
  ledger_ok false [EGet 1; EGet 2; ERel 2; EMade; EGet 3; ERel 3; ERel 1; EDestroyed] = true /\
  ledger_ok false [EGet 1; EGet 2; ERel 2; EMade; EGet 3; ERel 3; EDestroyed] = false /\
  ledger_ok true [EGet 1; ERel 1; EMade; EGet 2; ERel 2; EDestroyed] = false.
Proof. vm_compute. repeat split. Qed.

(* With gr_face_preloadAll, once gr_make_face has returned, get_table is not called at all — not even for a table that is absent. *)
Theorem C16_preload_no_call : forall tr, ledger_ok true tr = true -> forall a b, tr = a ++ EMade :: b -> ~ In ENull b /\ (forall h, ~ In (EGet h) b).
Proof. exact ledger_preload_no_call. Qed.
Print Assumptions C16_preload_no_call.
