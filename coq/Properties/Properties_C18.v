(* Properties_C18.v — ONLY the property theorems for C18 (feature values).  Model: Model/FeatModel.v. *)
From GR Require Import Base.Bytes Model.FeatModel Proofs.FeatProofs Model.TagModel Proofs.TagProofs Gen.GenFeat Proofs.GenAgreeFeat.
Local Open Scope N_scope.

(* gr_fref_set_feature_value succeeds exactly when v does not exceed the feature's largest defined setting
   (0xffffffff, i.e. any 16-bit value, when it defines none) *)
Theorem C18_set_succeeds_iff : forall f v fv, (exists fv', set_val f v fv = Some fv') <-> v <= f_max f.
Proof. exact set_succeeds_iff. Qed.
Print Assumptions C18_set_succeeds_iff.

(* after a failure nothing is produced: the caller's vector is untouched *)
Theorem C18_set_fails_unchanged : forall f v fv, f_max f < v -> set_val f v fv = None.
Proof. exact set_fails_unchanged. Qed.
Print Assumptions C18_set_fails_unchanged.

(* The same with several faces in play (a Features object carries the identity of the feature map it belongs to; gr_featureval_clone(NULL)
   hands out an unbound one): a write succeeds exactly when the value is in range AND the object is unbound or already belongs to the
   writer's face; only a SUCCESSFUL write binds it; a refused write returns nothing — the object, its binding included, is untouched. *)
Theorem C18_set_on_succeeds_iff : forall face f v x,
  (exists x', set_val_on face f v x = Some x') <-> (v <= f_max f /\ (fv_map x = None \/ fv_map x = Some face)).
Proof. exact set_on_succeeds_iff. Qed.
Print Assumptions C18_set_on_succeeds_iff.
Theorem C18_set_on_fails_unchanged : forall face f v x, f_max f < v \/ (exists m, fv_map x = Some m /\ m <> face) -> set_val_on face f v x = None.
Proof. exact set_on_fails_unchanged. Qed.
Print Assumptions C18_set_on_fails_unchanged.
Theorem C18_get_set_on_same : forall face f v x x', field_ok f -> set_val_on face f v x = Some x' -> get_val_on face f x' = v.
Proof. exact get_set_on_same. Qed.
Print Assumptions C18_get_set_on_same.
Theorem C18_get_set_on_other : forall face f g v x x', field_ok f -> field_ok g -> disjoint f g -> fv_map x = Some face ->
  set_val_on face f v x = Some x' -> get_val_on face g x' = get_val_on face g x.
Proof. exact get_set_on_other. Qed.
Print Assumptions C18_get_set_on_other.
Theorem C18_get_set_on_foreign : forall face other f g v x x', other <> face -> fv_map x = None \/ fv_map x = Some face ->
  set_val_on face f v x = Some x' -> get_val_on other g x' = 0 /\ get_val_on other g x = 0.
Proof. exact get_set_on_foreign. Qed.
Print Assumptions C18_get_set_on_foreign.
(* non-vacuity: an out-of-range write to an unbound object leaves it unbound, so a feature of ANOTHER face can still be written *)
Example C18_example_unbound_after_refusal :
  let f := fst (ctor 0 3 1 0 0 []) in
  set_val_on 1 f 4 blank = None /\ (exists x', set_val_on 2 f 1 blank = Some x' /\ get_val_on 2 f x' = 1 /\ get_val_on 1 f x' = 0 /\ set_val_on 1 f 1 x' = None).
Proof. vm_compute. split; [reflexivity|]. eexists. repeat split. Qed.

(* every Feat table the loader accepts allocates well-formed, pairwise disjoint bit fields (any number of features,
   any maxima below 2^32: widths straddling word boundaries included) *)
Theorem C18_alloc_disjoint : forall maxvals l, Forall (fun m => m < W32) maxvals -> alloc maxvals 0 = Some l ->
  Forall field_ok l /\ map f_max l = maxvals /\ ForallOrdPairs disjoint l.
Proof.
  intros maxvals l Hm H. destruct (alloc_spec maxvals 0 l ltac:(unfold MAX_BITS; lia) Hm H) as (A & _ & C & D).
  repeat split; assumption.
Qed.
Print Assumptions C18_alloc_disjoint.

(* after success the feature reads back v ... *)
Theorem C18_get_set_same : forall f v fv fv', field_ok f -> set_val f v fv = Some fv' -> get_val f fv' = v.
Proof. exact get_set_same. Qed.
Print Assumptions C18_get_set_same.

(* ... and every other feature's value is unchanged, whatever the vector held (any history of earlier operations) *)
Theorem C18_get_set_other : forall f g v fv fv', field_ok f -> field_ok g -> disjoint f g ->
  set_val f v fv = Some fv' -> get_val g fv' = get_val g fv.
Proof. exact get_set_other. Qed.
Print Assumptions C18_get_set_other.

(* language selection: the default vector for language 0 and for unknown languages, the Sill entry's vector otherwise;
   space-padded and zero-padded tags select the same entry (zeropad is applied by gr_face_featureval_for_lang) *)
Theorem C18_lang_default : forall fm langs t, (t = 0 \/ Forall (fun lf => fst lf <> t) langs) ->
  clone_for_lang fm langs t = fm_defaults fm.
Proof. exact lang_default. Qed.
Print Assumptions C18_lang_default.

Theorem C18_lang_known : forall fm langs t fv rest1 rest2, t <> 0 -> langs = rest1 ++ (t, fv) :: rest2 ->
  Forall (fun lf => fst lf <> t) rest1 -> clone_for_lang fm langs t = fv.
Proof. exact lang_known. Qed.
Print Assumptions C18_lang_known.

Theorem C18_lang_padding : forall s, all_bytes s -> (length s <= 4)%nat -> last s 0 <> 32 -> Forall (fun b => b <> 0) s ->
  forall fm langs, clone_for_lang fm langs (zeropad (be32_of (pad_to4 32 s))) = clone_for_lang fm langs (zeropad (be32_of (pad_to4 0 s))).
Proof. intros s H1 H2 H3 H4 fm langs. rewrite (padding_agree s H1 H2 H3 H4). reflexivity. Qed.
Print Assumptions C18_lang_padding.

(* tie A *)
Theorem C18_gen_constants_agree : GenFeat.storage_limit = FeatModel.MAX_BITS /\ GenFeat.chunk_bits = FeatModel.CHUNK /\
  (GenFeat.storage_limit + 64) / GenFeat.chunk_bits < 2 ^ GenFeat.index_bits.
Proof. exact gen_feat_consts_agree. Qed.
Print Assumptions C18_gen_constants_agree.

(* non-vacuity: three features with maxima 1, 0xffffffff (no settings) and 300: the 32-bit one is moved to its own word *)
Example C18_example :
  match alloc [1; 0xffffffff; 300] 0 with
  | Some [a; b; c] => f_index a = 0 /\ f_index b = 1 /\ f_index c = 2 /\ f_bits c = 0 /\
                      (match set_val c 299 [0; 0; 0] with Some fv => get_val c fv = 299 /\ get_val b fv = 0 | None => False end) /\
                      set_val c 301 [0; 0; 0] = None
  | _ => False end.
Proof. vm_compute. repeat split; reflexivity. Qed.
