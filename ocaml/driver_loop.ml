(* driver_loop.ml — model side of the C02 correspondence: feeds the per-iteration observations of the rule loop and the
   insert/delete/pass-end trace recorded by the GRAPHITE2_VERIF hooks to the extracted acceptors of Model/LoopModel.v *)
open Loop_model
let rec pos_of_int i = if i = 1 then XH else if i land 1 = 0 then XO (pos_of_int (i lsr 1)) else XI (pos_of_int (i lsr 1))
let n_of_int (i : int) : n = if i <= 0 then N0 else Npos (pos_of_int i)
let z_of_int (i : int) : z = if i = 0 then Z0 else if i > 0 then Zpos (pos_of_int i) else Zneg (pos_of_int (-i))
let rec int_of_pos = function XH -> 1 | XO p -> 2 * int_of_pos p | XI p -> 2 * int_of_pos p + 1
let int_of_n = function N0 -> 0 | Npos p -> int_of_pos p
let split c s = String.split_on_char c s
let section line tag =
  match Str.search_forward (Str.regexp_string (" | " ^ tag ^ " ")) line 0 with
  | exception Not_found -> None
  | i -> let st = i + String.length tag + 4 in
         let body = String.sub line st (String.length line - st) in
         Some (match Str.search_forward (Str.regexp_string " | ") body 0 with exception Not_found -> body | j -> String.sub body 0 j)
let () =
  try while true do
    let line = input_line stdin in
    let id = (match split ' ' line with x :: _ -> x | [] -> "?") in
    let returned = not (List.mem "NULLSEG" (split ' ' line)) in
    let lres =
      (match section line "L" with
       | None -> "L none"
       | Some "-" -> "L ok passes=0 worst=0/1"
       | Some body ->
         (try
           let recs = List.filter (fun s -> s <> "") (split '/' (String.trim body)) in
           let worst = ref (0, 1) and bad = ref "" and np = ref 0 in
           List.iteri (fun pi r ->
             match split ':' r with
             | [hd; obs] ->
               (match split ',' hd with
                | [ml; mu0] ->
                  let ml = int_of_string ml and mu0 = int_of_string mu0 in
                  let os = List.filter (fun s -> s <> "") (split ';' obs) in
                  let os = List.map (fun o -> match split ',' o with
                     | [mu; lc; rs; lv] -> { o_mu = n_of_int (int_of_string mu); o_lc = n_of_int (int_of_string lc); o_reset = (rs = "1"); o_live = (lv = "1") }
                     | _ -> failwith "obs") os in
                  (* a pass that died mid-iteration ends with a live observation: still a prefix of an accepted run *)
                  incr np;
                  let st = { l_mu = n_of_int mu0; l_lc = n_of_int ml } in
                  (match lreject_at (n_of_int ml) st os N0 with
                   | Some i -> (match os with
                                | [] -> ()
                                | _ -> let last_live = (List.nth os (List.length os - 1)).o_live in
                                       (* lreject_at reports index = length when the only complaint is a live last observation *)
                                       if int_of_n i = List.length os && last_live then () else
                                       if !bad = "" then bad := Printf.sprintf "reject@pass%d:iter%d(maxloop=%d,mu0=%d,obs=%s)" pi (int_of_n i) ml mu0 (try List.nth (split ';' obs) (int_of_n i) with _ -> "?"))
                   | None -> ());
                  let n = List.length os and bound = ml * (mu0 + 1) in
                  if n > bound && !bad = "" then bad := Printf.sprintf "overbound@pass%d(iters=%d,bound=%d)" pi n bound;
                  let (wn, wd) = !worst in if n * wd > wn * (max bound 1) then worst := (n, max bound 1)
                | _ -> failwith "hd")
             | _ -> failwith "rec") recs;
           if !bad = "" then Printf.sprintf "L ok passes=%d worst=%d/%d" !np (fst !worst) (snd !worst) else "L " ^ !bad
         with Failure m -> "L unparsable:" ^ m)) in
    let gres =
      (match section line "G" with
       | None -> "G none"
       | Some body ->
         (try
           (match split ':' (String.trim body) with
            | [n0; ops] ->
              let n0 = int_of_string n0 in
              let ops = List.init (String.length ops) (fun i -> match ops.[i] with 'i' -> GInsert | 'd' -> GDelete | _ -> GPassEnd) in
              let maxsize = n_of_int (n0 * int_of_n growth_factor) in
              (match grun maxsize (ginit (n_of_int n0)) ops with
               | Some st -> Printf.sprintf "G ok n=%d inserts=%d" (int_of_n st.g_n) (List.length (List.filter (fun o -> o = GInsert) ops))
               | None -> if returned then "G reject-but-returned" else "G died")
            | _ -> "G unparsable")
         with Failure _ -> "G unparsable")) in
    Printf.printf "%s %s %s\n" id lres gres
  done with End_of_file -> ()
