(* driver_sfnt.ml — model side of the file-face correspondence (C01): <id> sfnt <hexfile> <tmpdir> <taghex> ... *)
open Sfnt_model
let rec pos_of_int i = if i = 1 then XH else if i land 1 = 0 then XO (pos_of_int (i lsr 1)) else XI (pos_of_int (i lsr 1))
let n_of_int (i : int) : n = if i <= 0 then N0 else Npos (pos_of_int i)
let rec int_of_pos = function XH -> 1 | XO p -> 2 * int_of_pos p | XI p -> 2 * int_of_pos p + 1
let int_of_n = function N0 -> 0 | Npos p -> int_of_pos p
let split c s = String.split_on_char c s
let () =
  try while true do
    let line = input_line stdin in
    (match List.filter (fun s -> s <> "") (split ' ' line) with
     | id :: "sfnt" :: hex :: _ :: tags ->
       let hex = if hex = "-" then "" else hex in
       let bytes = List.init (String.length hex / 2) (fun i -> n_of_int (int_of_string ("0x" ^ String.sub hex (2 * i) 2))) in
       let opened = (match open_file bytes with Some _ -> true | None -> false) in
       let outs = List.map (fun t ->
         match file_table bytes (n_of_int (int_of_string ("0x" ^ t))) with
         | None -> "NULL"
         | Some l -> let h = List.fold_left (fun h b -> ((h lxor (int_of_n b)) * 16777619) land 0xFFFFFFFF) 1469598103 l in
                     Printf.sprintf "%d:%d" (List.length l) h) tags in
       Printf.printf "%s SFNT %s %s\n" id (if opened then "open" else "closed") (String.concat " " outs)
     | id :: _ -> Printf.printf "%s BAD\n" id
     | [] -> print_endline "? BAD")
  done with End_of_file -> ()
