(* driver_cmap.ml — model side of the C13 correspondence *)
open Cmap_model
let rec pos_of_int i = if i = 1 then XH else if i land 1 = 0 then XO (pos_of_int (i lsr 1)) else XI (pos_of_int (i lsr 1))
let n_of_int (i : int) : n = if i = 0 then N0 else Npos (pos_of_int i)
let rec int_of_pos = function XH -> 1 | XO p -> 2 * int_of_pos p | XI p -> 2 * int_of_pos p + 1
let int_of_n = function N0 -> 0 | Npos p -> int_of_pos p
(* array-backed accessor: the model is parametric in the memory it reads through *)
let mem_of_hex s : mem =
  let n = if s = "-" then 0 else String.length s / 2 in
  let a = Array.init n (fun i -> n_of_int (int_of_string ("0x" ^ String.sub s (2 * i) 2))) in
  { m_len = n_of_int n; m_rd = (fun i -> let k = int_of_n i in if k < n then Some a.(k) else None) }
let is_empty (t : mem) = (t.m_len = N0)
let offs = function None -> "-1" | Some o -> string_of_int (int_of_n o)
let () =
  try while true do
    let line = input_line stdin in
    match String.split_on_char ' ' (String.trim line) |> List.filter (fun s -> s <> "") with
    | id :: "pseudo" :: pm :: qs ->
        (* <id> pseudo <u:g,u:g,...|-> <u:cmapgid> ... : the initial glyph / support of each queried character *)
        let ents = if pm = "-" then [] else List.map (fun e -> match String.split_on_char ':' e with
                     | [u; g] -> (n_of_int (int_of_string ("0x" ^ u)), n_of_int (int_of_string g)) | _ -> (N0, N0)) (String.split_on_char ',' pm) in
        let buf = Buffer.create 256 in
        List.iter (fun q -> match String.split_on_char ':' q with
          | [u; g] -> let u' = n_of_int (int_of_string ("0x" ^ u)) and g' = n_of_int (int_of_string g) in
                      Buffer.add_string buf (Printf.sprintf " %s:%d:%d" u (int_of_n (initial_glyph g' ents u')) (if char_supported g' ents u' then 1 else 0))
          | _ -> Buffer.add_string buf " ?") qs;
        Printf.printf "%s PS%s\n" id (Buffer.contents buf)
    | id :: "tbl" :: h :: cps ->
        let t = (match cmap_view (mem_of_hex h) with Some v -> v | None -> mem_of_hex "-") in
        let cps = List.map (fun s -> n_of_int (int_of_string ("0x" ^ s))) cps in
        (match (if is_empty t then Some (None, None) else
                match bmp_subtable t, smp_subtable t with Some b, Some s -> Some (b, s) | _ -> None) with
         | None -> Printf.printf "%s TRAP\n" id
         | Some (b, s) ->
             let buf = Buffer.create 256 in
             Buffer.add_string buf (Printf.sprintf " bmp=%s smp=%s D" (offs b) (offs s));
             let trap = ref false in
             if b = None || is_empty t then Buffer.add_string buf " NA"
             else List.iter (fun c -> match direct t b s c with Some g -> Buffer.add_string buf (Printf.sprintf " %x" (int_of_n g)) | None -> trap := true) cps;
             Buffer.add_string buf " C";
             if is_empty t || b = None then Buffer.add_string buf " NA" else      (* no BMP subtable: no cache, no face *)
             (match cached_build t b s with
              | None -> trap := true
              | Some None -> Buffer.add_string buf " OUTOFFUEL"
              | Some (Some m) -> List.iter (fun c -> Buffer.add_string buf (Printf.sprintf " %x" (int_of_n (cached m (s = None) c)))) cps);
             if !trap then Printf.printf "%s TRAP\n" id else Printf.printf "%s%s\n" id (Buffer.contents buf))
    | id :: _ -> Printf.printf "%s SKIP\n" id
    | [] -> ()
  done with End_of_file -> ()
