(* driver_pos.ml — model side of the C15 correspondence: rebuilds the attachment trees from the harness dump, runs the exact
   positioning model at scale 1, 2 and 3 and compares with the implementation's origins / segment advance (font = NULL and
   unhinted fonts of 2 and 3 times the units per em, where every float operation is exact on integral design units) *)
open Pos_model
let rec pos_of_int i = if i = 1 then XH else if i land 1 = 0 then XO (pos_of_int (i lsr 1)) else XI (pos_of_int (i lsr 1))
let n_of_int (i : int) : n = if i = 0 then N0 else Npos (pos_of_int i)
let z_of_int (i : int) : z = if i = 0 then Z0 else if i > 0 then Zpos (pos_of_int i) else Zneg (pos_of_int (-i))
let rec int_of_pos = function XH -> 1 | XO p -> 2 * int_of_pos p | XI p -> 2 * int_of_pos p + 1
let int_of_n = function N0 -> 0 | Npos p -> int_of_pos p
let int_of_z = function Z0 -> 0 | Zpos p -> int_of_pos p | Zneg p -> - (int_of_pos p)
let split c s = String.split_on_char c s
exception Nonint
let iof s = let f = float_of_string s in if Float.is_integer f && Float.abs f < 4000000. then int_of_float f else raise Nonint
let () =
  try while true do
    let line = input_line stdin in
    let id = (match split ' ' line with x :: _ -> x | [] -> "?") in
    (match Str.search_forward (Str.regexp_string " | X ") line 0 with
     | exception Not_found -> Printf.printf "%s X none\n" id
     | i ->
       let body = String.sub line (i + 5) (String.length line - i - 5) in
       let body = (match Str.search_forward (Str.regexp_string " | ") body 0 with exception Not_found -> body | j -> String.sub body 0 j) in
       let toks = List.filter (fun s -> s <> "") (split ' ' body) in
       (try
         let rtl = ref false and adv1 = ref (0, 0) and rev = ref false in
         let slots = ref [] and ks = ref [] and cur = ref 0 in
         List.iter (fun t ->
           if String.length t > 4 && String.sub t 0 4 = "rtl=" then rtl := (t = "rtl=1")
           else if String.length t > 4 && String.sub t 0 4 = "dir=" then rev := (t = "dir=1")
           else if String.length t > 5 && String.sub t 0 5 = "upem=" then ()
           else if String.length t > 4 && String.sub t 0 4 = "adv=" then
             (match split ',' (String.sub t 4 (String.length t - 4)) with
              | [a; b] -> if !cur = 0 then adv1 := (iof a, iof b) else (match !ks with (k, _, l) :: r -> ks := (k, (iof a, iof b), l) :: r | [] -> ())
              | _ -> ())
           else if t = "S" then ()
           else if t = "K2" then (cur := 2; ks := (2, (0, 0), []) :: !ks)
           else if t = "K3" then (cur := 3; ks := (3, (0, 0), []) :: !ks)
           else if !cur = 0 then slots := (Array.of_list (split ',' t)) :: !slots
           else (match split ',' t, !ks with
                 | [x; y; _], (k, a, l) :: r -> ks := (k, a, (iof x, iof y) :: l) :: r
                 | _ -> ())) toks;
         if !rev <> !rtl then raise Exit;     (* the final stream was reversed again (marks kept after their bases): the visiting order is not recoverable from the dump *)
         let slots = Array.of_list (List.rev !slots) in
         let n = Array.length slots in
         let fld i j = slots.(i).(j) in
         let mk i =
           let sgn = if !rtl then -1 else 1 in
           let just = iof (fld i 11) in
           let cx = iof (fld i 12) and cy = iof (fld i 13) and ck = (fld i 14 = "1") in
           let usecoll = (not ck) || !rtl in
           let advx = float_of_string (fld i 5) in
           { p_id = n_of_int i;
             p_shx = z_of_int (iof (fld i 3) * sgn + just + (if usecoll then cx else 0));
             p_shy = z_of_int (iof (fld i 4) + (if usecoll then cy else 0));
             p_tadv = z_of_int (iof (fld i 5) + just); p_advy = z_of_int (iof (fld i 6));
             p_atx = z_of_int (iof (fld i 7) - iof (fld i 9)); p_aty = z_of_int (iof (fld i 8) - iof (fld i 10));
             p_advpos = (advx >= 0.5) } in
         let rec tree i depth = if i < 0 || depth > 300 then Leaf else BNode (mk i, tree (int_of_string (fld i 1)) (depth + 1), tree (int_of_string (fld i 2)) (depth + 1)) in
         (* a base's own sibling pointer links bases (linkClusters): it is not part of its attachment tree *)
         let base_tree i = (match tree i 0 with BNode (p, c, _) -> BNode (p, c, Leaf) | Leaf -> Leaf) in
         let bases = List.filter (fun i -> int_of_string (fld i 0) = -1) (List.init n (fun i -> i)) in
         (* the bases in the order positionSlots visits them: the dumped stream is the positioning-time stream, reversed again at the end
            when the requested direction differs from the font's; right-to-left fonts are walked from the end *)
         let bases = if !rev then List.rev bases else bases in
         let trees = List.map base_tree bases in
         let check k (eadv, eorig) =
           let (fin, ps) = position_bases (z_of_int k) trees (Z0, Z0) in
           let tbl = Hashtbl.create 16 in
           List.iter (fun (i, (x, y)) -> Hashtbl.replace tbl (int_of_n i) (int_of_z x, int_of_z y)) ps;
           let bad = ref [] in
           List.iteri (fun i (ex, ey) -> match Hashtbl.find_opt tbl i with
             | Some (mx, my) -> if mx <> ex || my <> ey then bad := Printf.sprintf "slot%d:model=%d,%d impl=%d,%d" i mx my ex ey :: !bad
             | None -> if (ex, ey) <> (0, 0) then bad := Printf.sprintf "slot%d:never-positioned-in-model impl=%d,%d" i ex ey :: !bad) eorig;   (* deeper than the cut-off: keeps its initial (0,0) *)
           let (ax, ay) = (int_of_z (fst fin), int_of_z (snd fin)) in
           if (ax, ay) <> eadv then bad := Printf.sprintf "advance:model=%d,%d impl=%d,%d" ax ay (fst eadv) (snd eadv) :: !bad;
           !bad in
         let orig1 = List.init n (fun i -> (iof (fld i 15), iof (fld i 16))) in
         let b1 = check 1 (!adv1, orig1) in
         let bk = List.concat (List.map (fun (k, a, l) -> let l = List.rev l in if List.length l = n then List.map (fun s -> Printf.sprintf "k%d:%s" k s) (check k (a, l)) else [Printf.sprintf "k%d:slot-count-differs" k]) !ks) in
         (* does the exact computation compare two equal quantities (then single-precision rounding of scaled values may decide a branch)? *)
         let tie = bases_tie trees (Z0, Z0) in
         (match b1 @ bk with
          | [] -> Printf.printf "%s X ok n=%d tie=%d\n" id n (if tie then 1 else 0)
          | l -> Printf.printf "%s X MISMATCH tie=%d %s\n" id (if tie then 1 else 0) (String.concat " " (List.filteri (fun i _ -> i < 4) l)))
       with Nonint -> Printf.printf "%s X nonintegral\n" id
          | Exit -> Printf.printf "%s X skip-reversed\n" id
          | Failure _ | Invalid_argument _ -> Printf.printf "%s X unparsable\n" id))
  done with End_of_file -> ()
