(* driver_stream.ml — model side of the stream correspondence (C03/C04/C05): replays the event trace the instrumented
   library emitted and compares the model's stream / attachment / association state with every snapshot in it. *)
open Stream_model
let rec pos_of_int i = if i = 1 then XH else if i land 1 = 0 then XO (pos_of_int (i lsr 1)) else XI (pos_of_int (i lsr 1))
let n_of_int (i : int) : n = if i = 0 then N0 else Npos (pos_of_int i)
let z_of_int (i : int) : z = if i = 0 then Z0 else if i > 0 then Zpos (pos_of_int i) else Zneg (pos_of_int (-i))
let rec int_of_pos = function XH -> 1 | XO p -> 2 * int_of_pos p | XI p -> 2 * int_of_pos p + 1
let int_of_n = function N0 -> 0 | Npos p -> int_of_pos p
let int_of_z = function Z0 -> 0 | Zpos p -> int_of_pos p | Zneg p -> - (int_of_pos p)
let sid_opt s = if s = "-1" || s = "-" then None else Some (n_of_int (int_of_string s))
let split c s = String.split_on_char c s

let snap (st : sstate) : string =
  "[" ^ String.concat "," (List.map (fun s ->
      match aget st.st_attr s with
      | None -> Printf.sprintf "%d:?" (int_of_n s)
      | Some a -> Printf.sprintf "%d:%d:%d:%d:%d:%s" (int_of_n s) (int_of_z a.a_before) (int_of_z a.a_after) (int_of_z a.a_orig)
                    (match a.a_par with None -> -1 | Some p -> int_of_n p)
                    (String.concat "." (List.map (fun k -> string_of_int (int_of_n k)) a.a_kids))) st.st_stream) ^ "]"
let cinfos (st : sstate) = "{" ^ String.concat "," (List.map (fun c -> Printf.sprintf "%d:%d" (int_of_z c.c_before) (int_of_z c.c_after)) st.st_cinfo) ^ "}"
let indices (st : sstate) = "<" ^ String.concat "," (List.map (fun s -> match aget st.st_attr s with Some a -> string_of_int (int_of_z a.a_index) | None -> "?") st.st_stream) ^ ">"

let errs = function EUnknownSlot s -> Printf.sprintf "unknown-slot-%d" (int_of_n s) | ENotFresh s -> Printf.sprintf "not-fresh-%d" (int_of_n s)
  | ENotInStream s -> Printf.sprintf "not-in-stream-%d" (int_of_n s) | EAttachDecision (s, m) -> Printf.sprintf "attach-decision-%d-model-%b" (int_of_n s) m | EMarks -> "marks-length"

let () =
  try while true do
    let line = input_line stdin in
    let id = (match split ' ' line with x :: _ -> x | [] -> "?") in
    (match Str.search_forward (Str.regexp_string " | T ") line 0 with
     | exception Not_found -> Printf.printf "%s T none\n" id
     | i ->
       let rest = String.sub line (i + 5) (String.length line - i - 5) in
       let rest = (match String.index_opt rest ' ' with
                   | Some j -> let hdr = String.sub rest 0 j in let body = String.sub rest (j + 1) (String.length rest - j - 1) in (hdr, body)
                   | None -> (rest, "")) in
       let (hdr, body) = rest in
       let body = (match String.index_opt body ' ' with Some j -> String.sub body 0 j | None -> body) in
       let nc = ref 0 and rtl = ref false in
       List.iter (fun kv -> match split '=' kv with ["nc"; v] -> nc := int_of_string v | ["rtl"; v] -> rtl := (v = "1") | _ -> ()) (split ',' hdr);
       let st = ref (st0 (z_of_int !nc) !rtl) in
       let toks = List.filter (fun s -> s <> "" && s <> "-") (split ';' body) in
       let nops = ref 0 and nsnaps = ref 0 and verdict = ref "" in
       let apply o = (match apply_op !st o with Ok s -> st := s; incr nops | Err e -> if !verdict = "" then verdict := Printf.sprintf "ERR %s @op%d" (errs e) !nops) in
       List.iteri (fun k tok ->
         if !verdict = "" then begin
           let n = String.length tok in
           let arg p = String.sub tok p (n - p) in
           if tok.[0] = 'P' then begin
             incr nsnaps;
             let m = snap !st in if m <> arg 1 then verdict := Printf.sprintf "MISMATCH @tok%d model=%s impl=%s" k m (arg 1)
           end else if tok.[0] = 'F' then begin
             incr nsnaps;
             let m = snap !st ^ cinfos !st ^ indices !st in
             if m <> arg 1 then verdict := Printf.sprintf "MISMATCH @final model=%s impl=%s" m (arg 1)
           end else if n >= 2 && String.sub tok 0 2 = "pc" then (match split ',' (arg 2) with [a; b] -> apply (OPutCopy (n_of_int (int_of_string a), n_of_int (int_of_string b))) | _ -> ())
           else if n >= 2 && String.sub tok 0 2 = "tc" then (match split ',' (arg 2) with [a; b] -> apply (OTempCopy (n_of_int (int_of_string a), n_of_int (int_of_string b))) | _ -> ())
           else if n >= 2 && String.sub tok 0 2 = "dt" then apply (ODetach (n_of_int (int_of_string (arg 2))))
           else if n >= 2 && String.sub tok 0 2 = "at" then (match split ',' (arg 2) with [a; b; c] -> apply (OAttach (n_of_int (int_of_string a), n_of_int (int_of_string b), c = "1")) | _ -> ())
           else if n >= 2 && String.sub tok 0 2 = "as" then (match split ',' (arg 2) with
                  | [a; refs] -> apply (OAssoc (n_of_int (int_of_string a), if refs = "-" then [] else List.map sid_opt (split '.' refs)))
                  | _ -> ())
           else if tok = "ac" then apply OAssocChars
           else if tok = "lc" then apply OLinkClusters
           else if n >= 2 && String.sub tok 0 2 = "lb" then ()
           else if tok.[0] = 'a' then (match split ',' (arg 1) with [a; c] -> apply (OAppend (n_of_int (int_of_string a), z_of_int (int_of_string c))) | _ -> ())
           else if tok.[0] = 'i' then (match split ',' (arg 1) with [a; b] -> apply (OInsert (n_of_int (int_of_string a), sid_opt b)) | _ -> ())
           else if tok.[0] = 'd' then apply (ODelete (n_of_int (int_of_string (arg 1))))
           else if tok.[0] = 'f' then apply (OFree (n_of_int (int_of_string (arg 1))))
           else if tok.[0] = 'r' then apply (OReverse (if arg 1 = "-" then [] else List.init (n - 1) (fun j -> tok.[j + 1] = '1')))
           else verdict := "UNKNOWN-TOKEN " ^ tok
         end) toks;
       if !verdict = "" then Printf.printf "%s T ok ops=%d snaps=%d\n" id !nops !nsnaps
       else Printf.printf "%s T %s\n" id !verdict)
  done with End_of_file -> ()
