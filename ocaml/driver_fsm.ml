(* driver_fsm.ml — model side of the pass FSM correspondence (C02 / C06): <id> fsm <pass bytes hex> <gid,gid,...|->
   prints  <id> FSM T <tables> R<k>:<ok>,<context>,<map size>,<rules> ...   in the format of harness/impl_fsm.cpp *)
open Fsm_model
let rec pos_of_int i = if i = 1 then XH else if i land 1 = 0 then XO (pos_of_int (i lsr 1)) else XI (pos_of_int (i lsr 1))
let n_of_int (i : int) : n = if i <= 0 then N0 else Npos (pos_of_int i)
let rec int_of_pos = function XH -> 1 | XO p -> 2 * int_of_pos p | XI p -> 2 * int_of_pos p + 1
let int_of_n = function N0 -> 0 | Npos p -> int_of_pos p
let rec int_of_nat = function O -> 0 | S k -> 1 + int_of_nat k
let split c s = String.split_on_char c s
let hstep h x = ((h lxor x) * 16777619) land 0xFFFFFFFF
let hash l = List.fold_left hstep 1469598103 l
let rec drop k l = if k <= 0 then l else match l with [] -> [] | _ :: r -> drop (k - 1) r
let () =
  try while true do
    let line = input_line stdin in
    (match List.filter (fun s -> s <> "") (split ' ' line) with
     | [id; "fsm"; hex; gs] ->
       let hex = if hex = "-" then "" else hex in
       let a = Array.init (String.length hex / 2) (fun i -> n_of_int (int_of_string ("0x" ^ String.sub hex (2 * i) 2))) in
       let t = { m_len = n_of_int (Array.length a); m_rd = (fun i -> let k = int_of_n i in if k < Array.length a then Some a.(k) else None) } in
       (match read_fsm t with
        | FTrap -> Printf.printf "%s FSM TRAP\n" id
        | FReject c -> Printf.printf "%s FSM REJ %d\n" id (int_of_n c)
        | FOk f ->
          let i = int_of_n in
          let hr = List.fold_left (fun h rl -> List.fold_left (fun h r -> hstep h (i r)) (hstep h 0xFFFFFF) rl) 1469598103 f.f_rules in
          let norules = i f.f_nrules = 0 in
          let b = Buffer.create 256 in
          Buffer.add_string b (Printf.sprintf " T %d %d %d %d %d %d %d %d %d %d %d %d" (i f.f_nglyphs) (i f.f_nrules) (i f.f_nstates) (i f.f_ntrans) (i f.f_nsucc) (i f.f_ncols)
            (i f.f_minpre) (i f.f_maxpre) (hash (List.map i f.f_cols)) (hash (List.map i f.f_starts)) (hash (List.map i f.f_trans)) (if norules then 1469598103 else hr));
          let gids = if gs = "-" then [] else List.map (fun s -> n_of_int (int_of_string s)) (split ',' gs) in
          if not norules && gids <> [] then begin
            Buffer.add_string b (" G " ^ gs);
            List.iteri (fun k _ ->
              let ctx = min k (i f.f_maxpre) in
              (match run_fsm f (n_of_int ctx) (drop (k - ctx) gids) with
               | None -> Buffer.add_string b (Printf.sprintf " R%d:TRAP" k)
               | Some ((ok, n), rs) ->
                 (* when the context is too short runFSM returns before anything is pushed: the map is as reset left it *)
                 let rl = String.concat "." (List.map (fun r -> string_of_int (i r)) rs) in
                 Buffer.add_string b (Printf.sprintf " R%d:%d,%d,%d,%s" k (if ok then 1 else 0) ctx (int_of_nat n) (if rl = "" then "-" else rl)))) gids
          end;
          Printf.printf "%s FSM%s\n" id (Buffer.contents b))
     | id :: _ -> Printf.printf "%s FSM BAD\n" id
     | [] -> print_endline "? FSM BAD")
  done with End_of_file -> ()
