(* driver_vm.ml — model side of the C07 component correspondence *)
open Vm_model
let rec pos_of_int i = if i = 1 then XH else if i land 1 = 0 then XO (pos_of_int (i lsr 1)) else XI (pos_of_int (i lsr 1))
let n_of_int (i : int) : n = if i = 0 then N0 else Npos (pos_of_int i)
let rec int_of_pos = function XH -> 1 | XO p -> 2 * int_of_pos p | XI p -> 2 * int_of_pos p + 1
let int_of_z = function Z0 -> 0 | Zpos p -> int_of_pos p | Zneg p -> - (int_of_pos p)
let unhex s = if s = "-" then [] else List.init (String.length s / 2) (fun i -> n_of_int (int_of_string ("0x" ^ String.sub s (2 * i) 2)))
let lmsg = function Loaded -> "loaded" | Alloc_failed -> "alloc_failed" | Invalid_opcode -> "invalid_opcode"
  | Unimplemented_opcode_used -> "unimplemented_opcode_used" | Out_of_range_data -> "out_of_range_data" | Jump_past_end -> "jump_past_end"
  | Arguments_exhausted -> "arguments_exhausted" | Missing_return -> "missing_return" | Nested_context_item -> "nested_context_item"
  | Underfull_stack -> "underfull_stack"
let rmsg = function Finished -> "finished" | Stack_underflow -> "stack_underflow" | Stack_not_empty -> "stack_not_empty"
  | Stack_overflow -> "stack_overflow" | Slot_offset_out_bounds -> "slot_offset_out_bounds" | Died_early -> "died_early"
let () =
  try while true do
    let line = input_line stdin in
    match String.split_on_char ' ' (String.trim line) |> List.filter (fun s -> s <> "") with
    | id :: _c :: h :: _ ->
        (match load (unhex h) with
         | LEmpty -> Printf.printf "%s L empty\n" id
         | LFailed s -> Printf.printf "%s L %s\n" id (lmsg s)
         | LUnsupported _ -> Printf.printf "%s UNSUPPORTED\n" id
         | LLoaded c ->
             (match run c [] with
              | RDone (st, v) -> Printf.printf "%s R %s %d\n" id (rmsg st) (int_of_z v)
              | RUnderflow -> Printf.printf "%s UNDERFLOW\n" id
              | RRanOff -> Printf.printf "%s RANOFF\n" id))
    | id :: _ -> Printf.printf "%s SKIP\n" id
    | [] -> ()
  done with End_of_file -> ()
