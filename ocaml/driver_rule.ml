(* driver_rule.ml — model side of the C06 correspondence: parses the text form of a GDL-lite program (tools/props/fontkit.py),
   runs the extracted reference semantics on the input glyph string and prints gid, advance and origin of every slot.
   Input:  <id> gdl <program> <advances: a0,a1,...> <input gids: g,g,...>
   Output: <id> R <gid,adv,origin;...> *)
open Rule_model
let rec pos_of_int i = if i = 1 then XH else if i land 1 = 0 then XO (pos_of_int (i lsr 1)) else XI (pos_of_int (i lsr 1))
let n_of_int (i : int) : n = if i <= 0 then N0 else Npos (pos_of_int i)
let z_of_int (i : int) : z = if i = 0 then Z0 else if i > 0 then Zpos (pos_of_int i) else Zneg (pos_of_int (-i))
let rec int_of_pos = function XH -> 1 | XO p -> 2 * int_of_pos p | XI p -> 2 * int_of_pos p + 1
let int_of_n = function N0 -> 0 | Npos p -> int_of_pos p
let int_of_z = function Z0 -> 0 | Zpos p -> int_of_pos p | Zneg p -> - (int_of_pos p)
let rec nat_of_int i = if i <= 0 then O else S (nat_of_int (i - 1))
let split c s = String.split_on_char c s
let gids s = List.map (fun x -> n_of_int (int_of_string x)) (List.filter (fun x -> x <> "") (split '.' s))
let nglyphs = ref 0
let parse_act a =
  match a.[0] with
  | 'G' -> APutGlyph (n_of_int (int_of_string (String.sub a 1 (String.length a - 1))))
  | 'D' -> ADelete
  | 'I' -> AInsert (n_of_int (int_of_string (String.sub a 1 (String.length a - 1))))
  | 'A' -> ASetAdv (z_of_int (int_of_string (String.sub a 1 (String.length a - 1))))
  | 'X' -> ASetShift (z_of_int (int_of_string (String.sub a 1 (String.length a - 1))))
  | 'Y' -> ASetShiftY (z_of_int (int_of_string (String.sub a 1 (String.length a - 1))))
  | 'C' -> APutCopy (z_of_int (int_of_string (String.sub a 1 (String.length a - 1))))
  | 'U' -> let u = String.index a '_' in
           ASetUser (nat_of_int (int_of_string (String.sub a 1 (u - 1))), z_of_int (int_of_string (String.sub a (u + 1) (String.length a - u - 1))))
  | 'T' -> AAttach (z_of_int (int_of_string (String.sub a 1 (String.length a - 1))))
  | 'P' | 'W' -> let u = String.index a '_' in
           let x = z_of_int (int_of_string (String.sub a 1 (u - 1))) and y = z_of_int (int_of_string (String.sub a (u + 1) (String.length a - u - 1))) in
           if a.[0] = 'P' then AAttPt (x, y) else AWithPt (x, y)
  | 'O' -> AAssoc (List.map (fun x -> z_of_int (int_of_string x)) (List.filter (fun x -> x <> "") (split '_' (String.sub a 1 (String.length a - 1)))))
  | 'S' -> let i = String.index a 'i' and o = String.index a 'o' in
           APutSubs (z_of_int (int_of_string (String.sub a 1 (i - 1))), gids (String.sub a (i + 1) (o - i - 1)), gids (String.sub a (o + 1) (String.length a - o - 1)))
  | _ -> failwith "act"
let parse_rule r =
  match split '~' r with
  | pre :: items :: acts :: rest ->
    { r_pre = nat_of_int (int_of_string pre);
      r_pat = List.map gids (split ',' items);
      r_acts = List.map (fun al -> if al = "-" then [] else List.map parse_act (split '&' al)) (split ',' acts);
      r_ret = (match List.filter (fun c -> String.length c > 1 && c.[0] = 'r') rest with
               | [c] -> z_of_int (int_of_string (String.sub c 1 (String.length c - 1)))
               | _ -> Z0);
      r_con = (match List.filter (fun c -> String.length c > 2 && c.[0] = 'c') rest with
               | [c] ->
                 (* c<item><l|g|e><value> *)
                 (* c<item><l|g|e><value>[u<user attr>] *)
                 let k = ref 1 in while !k < String.length c && c.[!k] >= '0' && c.[!k] <= '9' do incr k done;
                 (* optional suffix: u<user attr> | a<glyph attr> | k<constant (a feature value of the segment)> *)
                 let suf = ref None in
                 String.iteri (fun i ch -> if i > !k + 1 && !suf = None && (ch = 'u' || ch = 'a' || ch = 'k') then suf := Some (i, ch)) c;
                 let (vs, tail) = (match !suf with
                                   | Some (i, ch) -> (String.sub c (!k + 1) (i - !k - 1), Some (ch, String.sub c (i + 1) (String.length c - i - 1)))
                                   | None -> (String.sub c (!k + 1) (String.length c - !k - 1), None)) in
                 let col attr = List.init !nglyphs (fun g -> (n_of_int g, z_of_int (if attr >= 4 && attr < 8 then ((g * 7 + attr * 13) mod 23) - 5 else 0))) in
                 Some { c_item = nat_of_int (int_of_string (String.sub c 1 (!k - 1)));
                        c_cmp = (match c.[!k] with 'l' -> CLt | 'g' -> CGt | _ -> CEq);
                        c_val = z_of_int (int_of_string vs);
                        c_user = (match tail with Some ('u', x) -> Some (nat_of_int (int_of_string x)) | _ -> None);
                        c_gattr = (match tail with Some ('a', x) -> Some (col (int_of_string x)) | _ -> None);
                        c_const = (match tail with Some ('k', x) -> Some (z_of_int (int_of_string x)) | _ -> None) }
               | _ -> None) }
  | _ -> failwith "rule"
let parse_pass p = match split ':' p with [ml; rs] -> (nat_of_int (int_of_string ml), List.map parse_rule (split ';' rs)) | _ -> failwith "pass"
let () =
  try while true do
    let line = input_line stdin in
    (match List.filter (fun s -> s <> "") (split ' ' line) with
     | [id; "gdl"; nsub; prog; advs; input] ->
       (try
         let at = Array.of_list (List.map int_of_string (split ',' advs)) in
         nglyphs := Array.length at;
         let passes = List.map parse_pass (split '/' prog) in
         let adv g = let i = int_of_n g in z_of_int (if i < Array.length at then at.(i) else 0) in
         let l0 = List.map (fun x -> let g = n_of_int (int_of_string x) in mkslot g (adv g) Z0) (List.filter (fun x -> x <> "") (split ',' input)) in
         (* "<n>r": right to left on a left-to-right font.  Pass::runGraphite reverses the stream before the first pass (no glyph of the compiled
            fonts is a mark for reverseSlots: a plain reversal), the passes and the final positioning run on the reversed stream, and
            Segment::finalise reverses the result back: slot i of the result is slot n-1-i of the passes' output *)
         let rtl = String.length nsub > 0 && nsub.[String.length nsub - 1] = 'r' in
         let nsub = if rtl then String.sub nsub 0 (String.length nsub - 1) else nsub in
         let l0 = if rtl then List.rev l0 else l0 in
         (match run_passes_adj adv (nat_of_int (int_of_string nsub)) passes l0 with
          | None -> Printf.printf "%s R DIED\n" id
          | Some out ->
         let (fin, ps) = positions out in
         let tbl = Hashtbl.create 16 in
         List.iter (fun (i, (x, y)) -> Hashtbl.replace tbl (int_of_n i) (int_of_z x, int_of_z y)) ps;
         let rec idx i = function [] -> [] | s :: r -> (i, s) :: idx (i + 1) r in
         let n = List.length out in
         let shown = if rtl then List.rev (idx 0 out) else idx 0 out in
         Printf.printf "%s R adv=%d %s\n" id (int_of_z (fst fin)) (String.concat ";" (List.map (fun (i, s) ->
           let (x, y) = (try Hashtbl.find tbl i with Not_found -> (0, 0)) in
           let rec nat_to_int = function O -> 0 | S n -> 1 + nat_to_int n in
           Printf.sprintf "%d,%d,%d,%d,%d,%s" (int_of_n s.s_gid) (int_of_z s.s_adv) x y (match s.s_par with Some p -> (if rtl then n - 1 - nat_to_int p else nat_to_int p) | None -> -1)
             (String.concat "/" (List.map (fun u -> string_of_int (int_of_z u)) s.s_user))) shown)))
       with Failure m -> Printf.printf "%s R UNPARSABLE %s\n" id m | Not_found -> Printf.printf "%s R UNPARSABLE\n" id)
     | [id; "gdlL"; nsub; prog; advs; input] ->
       (* the loop trace: per executed pass  /maxloop,mu0:  then  mu,lc,reset,live;  per iteration (the iteration in which the machine died is not reported: the engine returns before its hook) *)
       (try
         let at = Array.of_list (List.map int_of_string (split ',' advs)) in
         nglyphs := Array.length at;
         let passes = List.map parse_pass (split '/' prog) in
         let adv g = let i = int_of_n g in z_of_int (if i < Array.length at then at.(i) else 0) in
         let l0 = List.map (fun x -> let g = n_of_int (int_of_string x) in mkslot g (adv g) Z0) (List.filter (fun x -> x <> "") (split ',' input)) in
         let rec nat_to_int = function O -> 0 | S n -> 1 + nat_to_int n in
         let tr = run_trace adv (nat_of_int (int_of_string nsub)) passes l0 in
         let b = Buffer.create 256 in
         List.iter (fun (((ml, mu0), os), dead) ->
           Buffer.add_string b (Printf.sprintf "/%d,%d:" (nat_to_int ml) (int_of_n mu0));
           let os = if dead then (match List.rev os with _ :: r -> List.rev r | [] -> []) else os in
           List.iter (fun o -> Buffer.add_string b (Printf.sprintf "%d,%d,%d,%d;" (int_of_n o.o_mu) (int_of_n o.o_lc) (if o.o_reset then 1 else 0) (if o.o_live then 1 else 0))) os) tr;
         Printf.printf "%s T %s\n" id (if Buffer.length b = 0 then "-" else Buffer.contents b)
       with Failure m -> Printf.printf "%s T UNPARSABLE %s\n" id m | Not_found -> Printf.printf "%s T UNPARSABLE\n" id)
     | id :: _ -> Printf.printf "%s R BAD\n" id
     | [] -> print_endline "? R BAD")
  done with End_of_file -> ()
