(* driver_lz4.ml — model side of the C14 component correspondence *)
open Lz4_model
let rec pos_of_int i = if i = 1 then XH else if i land 1 = 0 then XO (pos_of_int (i lsr 1)) else XI (pos_of_int (i lsr 1))
let n_of_int (i : int) : n = if i = 0 then N0 else Npos (pos_of_int i)
let rec int_of_pos = function XH -> 1 | XO p -> 2 * int_of_pos p | XI p -> 2 * int_of_pos p + 1
let int_of_n = function N0 -> 0 | Npos p -> int_of_pos p
let rec nat_of_int i = if i = 0 then O else S (nat_of_int (i - 1))
let rec int_of_nat = function O -> 0 | S n -> 1 + int_of_nat n
let unhex s = if s = "-" then [] else List.init (String.length s / 2) (fun i -> n_of_int (int_of_string ("0x" ^ String.sub s (2 * i) 2)))
let rec take k l = if k = 0 then [] else match l with [] -> [] | x :: r -> x :: take (k - 1) r
let hex l = if l = [] then "-" else String.concat "" (List.map (fun b -> Printf.sprintf "%02x" (int_of_n b)) l)
let () =
  try while true do
    let line = input_line stdin in
    match String.split_on_char ' ' (String.trim line) |> List.filter (fun s -> s <> "") with
    | id :: "table" :: vmin :: h :: _ ->
        (* Face::Table over these bytes: plain / dropped / replaced by the decoded data *)
        let t = unhex h in
        let a = int_of_nat (announced t) in
        if a > 200000 then Printf.printf "%s T SKIP\n" id else
        let heap = List.init a (fun _ -> n_of_int 0xCD) in
        (match table_open t (n_of_int (int_of_string vmin)) heap with
         | TPlain -> Printf.printf "%s T P\n" id
         | TReject _ -> Printf.printf "%s T R\n" id
         | TTrap -> Printf.printf "%s TRAP\n" id
         | TOk out -> Printf.printf "%s T K %d %s\n" id (List.length out) (hex out))
    | id :: osz :: "wrap" :: _ -> Printf.printf "%s F\n" id
    | id :: osz :: h :: _ ->
        let src = unhex h in
        let o = int_of_string osz in
        let out0 = List.init o (fun _ -> n_of_int 0xCD) in
        let refs = (match lz4_ref src with None -> "err" | Some l -> "ok:" ^ string_of_int (List.length l)) in
        (match decompress src (nat_of_int o) out0 with
         | Trap -> Printf.printf "%s TRAP\n" id
         | OutOfFuel -> Printf.printf "%s OUTOFFUEL\n" id
         | Fail -> Printf.printf "%s F\n" id
         | Ok (n, out) -> Printf.printf "%s R %d %s\n" id (int_of_nat n) (hex (take (int_of_nat n) out)))
    | id :: _ -> Printf.printf "%s SKIP\n" id
    | [] -> ()
  done with End_of_file -> ()
