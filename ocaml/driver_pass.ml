(* driver_pass.ml — model side of the readPass correspondence (C01): <id> pass <base> <coll_ok 0|1> <hex bytes of the pass>
   Output: <id> P accept <nregions> | reject | trap *)
open Pass_model
let rec pos_of_int i = if i = 1 then XH else if i land 1 = 0 then XO (pos_of_int (i lsr 1)) else XI (pos_of_int (i lsr 1))
let n_of_int (i : int) : n = if i <= 0 then N0 else Npos (pos_of_int i)
let z_of_int (i : int) : z = if i = 0 then Z0 else if i > 0 then Zpos (pos_of_int i) else Zneg (pos_of_int (-i))
let rec int_of_pos = function XH -> 1 | XO p -> 2 * int_of_pos p | XI p -> 2 * int_of_pos p + 1
let int_of_n = function N0 -> 0 | Npos p -> int_of_pos p
let split c s = String.split_on_char c s
let () =
  try while true do
    let line = input_line stdin in
    (match List.filter (fun s -> s <> "") (split ' ' line) with
     | [id; "pass"; base; coll; hex] ->
       let hex = if hex = "-" then "" else hex in
       let arr = Array.init (String.length hex / 2) (fun i -> n_of_int (int_of_string ("0x" ^ String.sub hex (2 * i) 2))) in
       let t = { m_len = n_of_int (Array.length arr); m_rd = (fun i -> let k = int_of_n i in if k < Array.length arr then Some arr.(k) else None) } in
       (match read_pass t (z_of_int (int_of_string base)) (coll = "1") with
        | PTrap -> Printf.printf "%s P trap\n" id
        | PReject -> Printf.printf "%s P reject\n" id
        | PAccept rs -> Printf.printf "%s P accept %d\n" id (List.length rs))
     | id :: _ -> Printf.printf "%s P BAD\n" id
     | [] -> print_endline "? P BAD")
  done with End_of_file -> ()
