(* driver_line.ml — model side of the C19 correspondence: replays linebreak / reverse / set-ends events and compares the
   model's lines and first/last with every snapshot the harness took *)
open Line_model
let rec pos_of_int i = if i = 1 then XH else if i land 1 = 0 then XO (pos_of_int (i lsr 1)) else XI (pos_of_int (i lsr 1))
let n_of_int (i : int) : n = if i = 0 then N0 else Npos (pos_of_int i)
let rec int_of_pos = function XH -> 1 | XO p -> 2 * int_of_pos p | XI p -> 2 * int_of_pos p + 1
let int_of_n = function N0 -> 0 | Npos p -> int_of_pos p
let split c s = String.split_on_char c s
let opt s = if s = "-1" then None else Some (n_of_int (int_of_string s))
let parse_snap tok =            (* L[a,b|c]f,l *)
  let i = String.index tok ']' in
  let body = String.sub tok 2 (i - 2) in
  let fl = String.sub tok (i + 1) (String.length tok - i - 1) in
  let lines = List.map (fun l -> if l = "" then [] else List.map (fun x -> n_of_int (int_of_string x)) (split ',' l)) (split '|' body) in
  (match split ',' fl with [f; l] -> (lines, opt f, opt l) | _ -> (lines, None, None))
let show (s : lstate) =
  "L[" ^ String.concat "|" (List.map (fun l -> String.concat "," (List.map (fun x -> string_of_int (int_of_n x)) l)) s.l_lines) ^ "]"
  ^ (match s.l_first with None -> "-1" | Some x -> string_of_int (int_of_n x)) ^ "," ^ (match s.l_last with None -> "-1" | Some x -> string_of_int (int_of_n x))
let () =
  try while true do
    let line = input_line stdin in
    let id = (match split ' ' line with x :: _ -> x | [] -> "?") in
    (match Str.search_forward (Str.regexp_string " | J ") line 0 with
     | exception Not_found -> Printf.printf "%s J none\n" id
     | i ->
       let body = String.sub line (i + 5) (String.length line - i - 5) in
       let body = (match String.index_opt body ' ' with Some j -> String.sub body 0 j | None -> body) in
       let toks = List.filter (fun s -> s <> "") (split ';' body) in
       (match toks with
        | [] -> Printf.printf "%s J none\n" id
        | t0 :: rest ->
          if String.length t0 > 8 && (try ignore (Str.search_forward (Str.regexp_string "CYCLE") t0 0); true with Not_found -> false) then Printf.printf "%s J none\n" id else
          let (lines, f, l) = parse_snap t0 in
          let st = ref { l_lines = lines; l_first = f; l_last = l } in
          let verdict = ref "" and nops = ref 0 and nsnap = ref 0 in
          (* the pointer-level model (Model/LinePtrModel.v), replayed over the same events and compared with the Q snapshots *)
          let rec nat_of_int i = if i <= 0 then O else S (nat_of_int (i - 1)) in
          let rec int_of_nat = function O -> 0 | S n -> 1 + int_of_nat n in
          let popt x = let v = int_of_string x in if v < 0 then None else Some (nat_of_int v) in
          let pshow = function None -> "-1" | Some n -> string_of_int (int_of_nat n) in
          let marks = ref [] and pst = ref None and pverdict = ref "" and psnaps = ref 0 in
          let parse_q tok =
            let body = String.sub tok 1 (String.length tok - 1) in
            (match split '/' body with
             | [links; ends] ->
               let prs = List.map (fun x -> match split '.' x with [a; b] -> (popt a, popt b) | _ -> (None, None)) (List.filter (fun x -> x <> "") (split ',' links)) in
               (match split '.' ends with
                | [f; l] -> Some { p_next = List.map fst prs; p_prev = List.map snd prs; p_first = popt f; p_last = popt l }
                | _ -> None)
             | _ -> None) in
          (* the snapshots show the slots the segment had at the start; end-of-line slots made by justify are numbered after them *)
          let n0 = ref 0 in
          let rec take k l = if k <= 0 then [] else match l with [] -> [] | x :: r -> x :: take (k - 1) r in
          let qshow s = "Q" ^ String.concat "," (List.map2 (fun a b -> pshow a ^ "." ^ pshow b) (take !n0 s.p_next) (take !n0 s.p_prev)) ^ "/" ^ pshow s.p_first ^ "." ^ pshow s.p_last in
          (* the control of justify over m_dir: expected reversal skeleton per call, checked against the recorded events *)
          let dword = ref None and fdir = ref false and bidi = ref false and jpass = ref false in
          let jtoks = ref [] and injust = ref false in
          (* the bracket of a call: the second set-ends must put back exactly the ends that were in force when the first one was made
             (justify keeps them in oldFirst / oldLast, taken right before it installs the line's ends) *)
          let jsaved = ref None and jse = ref 0 in
          let rec n_of_i i = if i <= 0 then N0 else Npos (pos_of_i i) and pos_of_i i = if i = 1 then XH else if i land 1 = 0 then XO (pos_of_i (i lsr 1)) else XI (pos_of_i (i lsr 1)) in
          let close_just k =
            (if !injust then (match !dword with
               | Some d when !pverdict = "" ->
                 let got = List.rev !jtoks in
                 if got <> [] then begin
                   let exp = just_skeleton d !fdir !bidi in
                   let okp = if not !jpass then got = exp else
                     (* justification passes run between the brackets: only the outer decisions are compared *)
                     (let rec upto l = match l with [] -> [] | false :: _ -> [] | x :: r -> x :: upto r in
                      upto got = upto exp && upto (List.rev got) = upto (List.rev exp)) in
                   if not okp then pverdict := Printf.sprintf "CONTROL @tok%d expected=%s got=%s" k (String.concat "" (List.map (fun b -> if b then "r" else "e") exp)) (String.concat "" (List.map (fun b -> if b then "r" else "e") got));
                   List.iter (fun b -> if b then dword := (match !dword with Some x -> Some (toggle_dir x) | None -> None)) got
                 end
               | _ -> ()));
            injust := false; jtoks := [] in
          let papp k o = (match !pst with
                          | Some s when !pverdict = "" ->
                            (match papply !marks s o with
                             | POk s' -> pst := Some s'
                             | PNull -> pverdict := Printf.sprintf "NULL @tok%d" k
                             | PHang -> pverdict := Printf.sprintf "HANG @tok%d" k)
                          | _ -> ()) in
          List.iteri (fun k tok ->
            begin
              let n = String.length tok in
              let apply o = if !verdict <> "" then () else (match lapply !st o with
                             | LOk s -> st := s; incr nops
                             | LErr LStaleLast -> verdict := Printf.sprintf "STALE-LAST @tok%d" k
                             | LErr _ -> verdict := Printf.sprintf "ERR @tok%d" k) in
              if tok.[0] = 'M' then marks := List.init (n - 1) (fun j -> tok.[j + 1] = '1')
              else if tok.[0] = 'D' then (match split ',' (String.sub tok 1 (n - 1)) with
                                          | d :: f :: b :: jp :: _ -> dword := Some (n_of_i (int_of_string d)); fdir := (f <> "0"); bidi := (b = "1"); jpass := (jp = "1")
                                          | _ -> ())
              else if tok.[0] = 'Q' then begin
                (match !pst with
                 | None -> pst := parse_q tok; (match !pst with Some s0 -> n0 := List.length s0.p_next | None -> ())
                 | Some s -> if !pverdict = "" then begin incr psnaps; if qshow s <> tok then pverdict := Printf.sprintf "MISMATCH @tok%d model=%s impl=%s" k (qshow s) tok end)
              end
              else if tok.[0] = 'L' then begin
                close_just k;
                if !verdict = "" then begin incr nsnap;
                if (try ignore (Str.search_forward (Str.regexp_string "CYCLE") tok 0); true with Not_found -> false) then verdict := Printf.sprintf "MISMATCH @tok%d impl-cycle" k
                else if show !st <> tok then verdict := Printf.sprintf "MISMATCH @tok%d model=%s impl=%s" k (show !st) tok end
              end
              else if n >= 2 && String.sub tok 0 2 = "lb" then begin papp k (PBreak (nat_of_int (int_of_string (String.sub tok 2 (n - 2))))); apply (LBreak (n_of_int (int_of_string (String.sub tok 2 (n - 2))))) end
              else if n >= 2 && String.sub tok 0 2 = "se" then begin
                (if !injust then jtoks := false :: !jtoks);
                (match split ',' (String.sub tok 2 (n - 2)) with
                 | [a; b] ->
                   (if !injust then begin
                      (match !pst with
                       | Some s0 when !pverdict = "" ->
                         if !jse = 0 then jsaved := Some (s0.p_first, s0.p_last)
                         else if !jse = 1 then (match !jsaved with
                                                | Some (f0, l0) when (f0, l0) <> (popt a, popt b) ->
                                                  pverdict := Printf.sprintf "RESTORE @tok%d expected=%s,%s got=%s,%s" k (pshow f0) (pshow l0) a b
                                                | _ -> ())
                       | _ -> ());
                      incr jse
                    end);
                   papp k (PSetEnds (popt a, popt b)); apply (LSetEnds (opt a, opt b))
                 | _ -> ())
              end
              else if n >= 3 && String.sub tok 0 2 = "ae" then (match split ',' (String.sub tok 2 (n - 2)) with
                                                               | [e; nn; x] -> papp k (PAddEnd (nat_of_int (int_of_string e), popt nn, x = "1"))
                                                               | _ -> ())
              else if n >= 3 && String.sub tok 0 2 = "de" then papp k (PDelEnd (nat_of_int (int_of_string (String.sub tok 2 (n - 2)))))
              else if tok.[0] = 'r' then begin (if !injust then jtoks := true :: !jtoks); papp k PReverse; apply (LReverse (if tok = "r-" then [] else List.init (n - 1) (fun j -> tok.[j + 1] = '1'))) end
              else if tok.[0] = 'j' then begin close_just k; injust := true; jsaved := None; jse := 0 end
              else ()      (* events of justification passes (attach etc.) do not concern the line structure *)
            end) rest;
          let pv = (match !pst with None -> "none" | Some _ -> if !pverdict = "" then Printf.sprintf "ok snaps=%d" !psnaps else !pverdict) in
          if !verdict = "" then Printf.printf "%s J ok ops=%d snaps=%d | P %s\n" id !nops !nsnap pv else Printf.printf "%s J %s | P %s\n" id !verdict pv))
  done with End_of_file -> ()
