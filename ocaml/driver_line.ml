(* driver_line.ml — model side of the C19 correspondence: replays linebreak / reverse / set-ends events and compares the
   model's lines and first/last with every snapshot the harness took *)
open Line_model
let rec pos_of_int i = if i = 1 then XH else if i land 1 = 0 then XO (pos_of_int (i lsr 1)) else XI (pos_of_int (i lsr 1))
let n_of_int (i : int) : n = if i = 0 then N0 else Npos (pos_of_int i)
let rec int_of_pos = function XH -> 1 | XO p -> 2 * int_of_pos p | XI p -> 2 * int_of_pos p + 1
let int_of_n = function N0 -> 0 | Npos p -> int_of_pos p
let split c s = String.split_on_char c s
let opt s = if s = "-1" then None else Some (n_of_int (int_of_string s))
let parse_snap tok =            (* L[a,b|c]f,l *)
  let i = String.index tok ']' in
  let body = String.sub tok 2 (i - 2) in
  let fl = String.sub tok (i + 1) (String.length tok - i - 1) in
  let lines = List.map (fun l -> if l = "" then [] else List.map (fun x -> n_of_int (int_of_string x)) (split ',' l)) (split '|' body) in
  (match split ',' fl with [f; l] -> (lines, opt f, opt l) | _ -> (lines, None, None))
let show (s : lstate) =
  "L[" ^ String.concat "|" (List.map (fun l -> String.concat "," (List.map (fun x -> string_of_int (int_of_n x)) l)) s.l_lines) ^ "]"
  ^ (match s.l_first with None -> "-1" | Some x -> string_of_int (int_of_n x)) ^ "," ^ (match s.l_last with None -> "-1" | Some x -> string_of_int (int_of_n x))
let () =
  try while true do
    let line = input_line stdin in
    let id = (match split ' ' line with x :: _ -> x | [] -> "?") in
    (match Str.search_forward (Str.regexp_string " | J ") line 0 with
     | exception Not_found -> Printf.printf "%s J none\n" id
     | i ->
       let body = String.sub line (i + 5) (String.length line - i - 5) in
       let body = (match String.index_opt body ' ' with Some j -> String.sub body 0 j | None -> body) in
       let toks = List.filter (fun s -> s <> "") (split ';' body) in
       (match toks with
        | [] -> Printf.printf "%s J none\n" id
        | t0 :: rest ->
          if String.length t0 > 8 && (try ignore (Str.search_forward (Str.regexp_string "CYCLE") t0 0); true with Not_found -> false) then Printf.printf "%s J none\n" id else
          let (lines, f, l) = parse_snap t0 in
          let st = ref { l_lines = lines; l_first = f; l_last = l } in
          let verdict = ref "" and nops = ref 0 and nsnap = ref 0 in
          List.iteri (fun k tok ->
            if !verdict = "" then begin
              let n = String.length tok in
              let apply o = (match lapply !st o with
                             | LOk s -> st := s; incr nops
                             | LErr LStaleLast -> verdict := Printf.sprintf "STALE-LAST @tok%d" k
                             | LErr _ -> verdict := Printf.sprintf "ERR @tok%d" k) in
              if tok.[0] = 'L' then begin
                incr nsnap;
                if (try ignore (Str.search_forward (Str.regexp_string "CYCLE") tok 0); true with Not_found -> false) then verdict := Printf.sprintf "MISMATCH @tok%d impl-cycle" k
                else if show !st <> tok then verdict := Printf.sprintf "MISMATCH @tok%d model=%s impl=%s" k (show !st) tok
              end
              else if n >= 2 && String.sub tok 0 2 = "lb" then apply (LBreak (n_of_int (int_of_string (String.sub tok 2 (n - 2)))))
              else if n >= 2 && String.sub tok 0 2 = "se" then (match split ',' (String.sub tok 2 (n - 2)) with [a; b] -> apply (LSetEnds (opt a, opt b)) | _ -> ())
              else if tok.[0] = 'r' then apply (LReverse (if tok = "r-" then [] else List.init (n - 1) (fun j -> tok.[j + 1] = '1')))
              else if tok.[0] = 'j' then ()
              else ()      (* events of justification passes (attach etc.) do not concern the line structure *)
            end) rest;
          if !verdict = "" then Printf.printf "%s J ok ops=%d snaps=%d\n" id !nops !nsnap else Printf.printf "%s J %s\n" id !verdict))
  done with End_of_file -> ()
