(* driver_sparse.ml — model side of the graphite2::sparse correspondence: <id> sparse <k:v,...|-> <key,...> *)
open Sparse_model
let rec pos_of_int i = if i = 1 then XH else if i land 1 = 0 then XO (pos_of_int (i lsr 1)) else XI (pos_of_int (i lsr 1))
let n_of_int (i : int) : n = if i <= 0 then N0 else Npos (pos_of_int i)
let rec int_of_pos = function XH -> 1 | XO p -> 2 * int_of_pos p | XI p -> 2 * int_of_pos p + 1
let int_of_n = function N0 -> 0 | Npos p -> int_of_pos p
let split c s = String.split_on_char c s
let () =
  try while true do
    let line = input_line stdin in
    (match List.filter (fun s -> s <> "") (split ' ' line) with
     | [id; "sparse"; ps; keys] ->
       let pairs = if ps = "-" then [] else List.map (fun x -> match split ':' x with [k; v] -> (n_of_int (int_of_string k), n_of_int (int_of_string v)) | _ -> failwith "pair") (split ',' ps) in
       (match build pairs with
        | None -> Printf.printf "%s SP null\n" id
        | Some s ->
          let vals = List.map (fun k -> match lookup s (n_of_int (int_of_string k)) with Some v -> string_of_int (int_of_n v) | None -> "TRAP") (split ',' keys) in
          Printf.printf "%s SP ok cap=%d %s\n" id (int_of_n (capacity s)) (String.concat ";" vals))
     | id :: _ -> Printf.printf "%s SP BAD\n" id
     | [] -> print_endline "? SP BAD")
  done with End_of_file -> ()
