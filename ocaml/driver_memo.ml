(* driver_memo.ml — model side of the glyph-cache correspondence (C08 C09 C10).
   Input:  <id> memo <lazy|pre> <n> <table: d0;d1;...  ('x' = unreadable)> <gid,gid,...>
   Output: <id> M <result per lookup, ';' separated ('null' = no glyph)>  or  <id> M NOFACE *)
open Memo_model
let rec pos_of_int i = if i = 1 then XH else if i land 1 = 0 then XO (pos_of_int (i lsr 1)) else XI (pos_of_int (i lsr 1))
let n_of_int (i : int) : n = if i <= 0 then N0 else Npos (pos_of_int i)
let rec int_of_pos = function XH -> 1 | XO p -> 2 * int_of_pos p | XI p -> 2 * int_of_pos p + 1
let int_of_n = function N0 -> 0 | Npos p -> int_of_pos p
let split c s = String.split_on_char c s
let () =
  try while true do
    let line = input_line stdin in
    (match List.filter (fun s -> s <> "") (split ' ' line) with
     | [id; "memo"; mode; nn; tab; gids] ->
       (try
         let tbl = Array.of_list (split ';' tab) in
         let load g = let i = int_of_n g in if i < Array.length tbl && tbl.(i) <> "x" then Some tbl.(i) else None in
         let nn = n_of_int (int_of_string nn) in
         let c = if mode = "pre" then init_preload load nn else init_lazy load nn in
         (match c with
          | None -> Printf.printf "%s M NOFACE\n" id
          | Some c ->
            let gl = List.map (fun s -> n_of_int (int_of_string s)) (List.filter (fun s -> s <> "") (split ',' gids)) in
            let (vs, _) = run load nn c gl in
            Printf.printf "%s M %s\n" id (String.concat ";" (List.map (function Some d -> d | None -> "null") vs)))
       with Failure _ -> Printf.printf "%s M UNPARSABLE\n" id)
     | id :: _ -> Printf.printf "%s M BAD\n" id
     | [] -> print_endline "? M BAD")
  done with End_of_file -> ()
