(* driver_table.ml — model side of the C16 correspondence.
   "table" cases: the same program over Face::Table variables run through the extracted life-cycle model, state printed after
   every operation in the harness's format.  "API" result lines: the get/release/milestone log fed to the extracted ledger. *)
open Table_model
let rec pos_of_int i = if i = 1 then XH else if i land 1 = 0 then XO (pos_of_int (i lsr 1)) else XI (pos_of_int (i lsr 1))
let n_of_int (i : int) : n = if i <= 0 then N0 else Npos (pos_of_int i)
let rec int_of_pos = function XH -> 1 | XO p -> 2 * int_of_pos p | XI p -> 2 * int_of_pos p + 1
let int_of_n = function N0 -> 0 | Npos p -> int_of_pos p
let rec nat_of_int i = if i <= 0 then O else S (nat_of_int (i - 1))
let split c s = String.split_on_char c s
let state (w, vars) =
  let lent = List.sort compare (List.map int_of_n w.w_lent) in
  let rank h = let rec go i = function [] -> -1 | x :: r -> if x = h then i else go (i + 1) r in go 0 lent in
  Printf.sprintf " L%d;%s" (List.length lent)
    (String.concat "" (List.map (fun t -> (match t.t_p with None -> "0" | Some (App h) -> "A" ^ string_of_int (rank (int_of_n h)) | Some (Heap _) -> "H") ^ ",") vars))
let () =
  try while true do
    let line = input_line stdin in
    let f = List.filter (fun s -> s <> "") (split ' ' line) in
    (match f with
     | id :: "table" :: hr :: nv :: ops ->
       (try
         let has_rel = (hr = "1") and nv = int_of_string nv in
         let st = ref (winit, List.init nv (fun _ -> tnull)) in
         let out = Buffer.create 128 in
         Buffer.add_string out (id ^ " T" ^ state !st);
         List.iter (fun o ->
           let op = (match split ':' o with
             | ["n"; d; c] -> Some (TNew (nat_of_int (int_of_string d), (match c with "a" -> CAbsent | "b" -> CBadCheck | "p" -> CPlain | "z1" -> CLz4 true | _ -> CLz4 false)))
             | ["m"; d; s] -> Some (TMove (nat_of_int (int_of_string d), nat_of_int (int_of_string s)))
             | ["c"; d] -> Some (TClear (nat_of_int (int_of_string d)))
             | _ -> None) in
           (match op with Some op -> st := tstep has_rel !st op | None -> ());
           Buffer.add_string out (" |" ^ state !st)) ops;
         let (w, vars) = !st in
         (* destroy every variable, as the harness does *)
         let fin = List.fold_left (fun s i -> tstep has_rel s (TClear (nat_of_int i))) !st (List.init nv (fun i -> i)) in
         let (wf, _) = fin in
         Printf.printf "%s | END lent=%d heap=%d bad=%b\n" (Buffer.contents out) (List.length wf.w_lent) (List.length wf.w_heap) (w.w_bad || wf.w_bad)
       with Failure _ -> Printf.printf "%s UNPARSABLE\n" id)
     | id :: "API" :: _ ->
       (match Str.search_forward (Str.regexp_string " | LOG") line 0 with
        | exception Not_found -> Printf.printf "%s LEDGER none\n" id
        | i ->
          let body = String.sub line (i + 6) (String.length line - i - 6) in
          let body = (match Str.search_forward (Str.regexp_string " | ") body 0 with exception Not_found -> body | j -> String.sub body 0 j) in
          let toks = List.filter (fun s -> s <> "" && s <> "-") (split ' ' body) in
          (* the preload flag and the mode are passed by the harness wrapper as the last fields: P=<0|1> *)
          let preload = (try ignore (Str.search_forward (Str.regexp_string " P=1") line 0); true with Not_found -> false) in
          (try
            let evs = List.map (fun t ->
              if t = "M" then EMade else if t = "F" then EFailed else if t = "D" then EDestroyed
              else if t.[0] = 'N' then ENull
              else if t.[0] = 'R' then (if t = "R?" then ERel (n_of_int 999999999) else ERel (n_of_int (1 + int_of_string (String.sub t 1 (String.length t - 1)))))
              else if t.[0] = 'G' then (match split ':' t with [_; k] -> EGet (n_of_int (1 + int_of_string k)) | _ -> failwith "get")
              else failwith "tok") toks in
            (match lbad_at preload lg0 evs N0 with
             | Some i -> Printf.printf "%s LEDGER reject@%d:%s\n" id (int_of_n i) (try List.nth toks (int_of_n i) with _ -> "?")
             | None -> if ledger_ok preload evs then Printf.printf "%s LEDGER ok events=%d\n" id (List.length evs) else Printf.printf "%s LEDGER open\n" id)
          with Failure m -> Printf.printf "%s LEDGER unparsable:%s\n" id m))
     | id :: _ -> Printf.printf "%s BAD\n" id
     | [] -> print_endline "? BAD")
  done with End_of_file -> ()
