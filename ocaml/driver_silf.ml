(* driver_silf.ml — model side of the Silf header correspondence (C01): <id> silf <ng> <na> <bx> <Silf table hex>
   prints  <id> SILF <TRAP s= | REJ code s= | REJCM s= | REJPASS s= i= | NOPASS | OK> then the fields of every subtable read *)
open Silf_model
let rec pos_of_int i = if i = 1 then XH else if i land 1 = 0 then XO (pos_of_int (i lsr 1)) else XI (pos_of_int (i lsr 1))
let n_of_int (i : int) : n = if i <= 0 then N0 else Npos (pos_of_int i)
let rec int_of_pos = function XH -> 1 | XO p -> 2 * int_of_pos p | XI p -> 2 * int_of_pos p + 1
let int_of_n = function N0 -> 0 | Npos p -> int_of_pos p
let split c s = String.split_on_char c s
let hash l = List.fold_left (fun h x -> ((h lxor x) * 16777619) land 0xFFFFFFFF) 1469598103 l
let () =
  try while true do
    let line = input_line stdin in
    (match List.filter (fun s -> s <> "") (split ' ' line) with
     | [id; "silf"; ng; na; bx; hex] ->
       let hex = if hex = "-" then "" else hex in
       let a = Array.init (String.length hex / 2) (fun i -> n_of_int (int_of_string ("0x" ^ String.sub hex (2 * i) 2))) in
       let t = { m_len = n_of_int (Array.length a); m_rd = (fun i -> let k = int_of_n i in if k < Array.length a then Some a.(k) else None) } in
       let (hs, fin) = read_silf_table t (n_of_int (int_of_string ng)) (n_of_int (int_of_string na)) (bx = "1") in
       let verdict = match fin with
         | Some (s, STrap) -> Printf.sprintf "TRAP s=%d" (int_of_n s)
         | Some (s, SRej c) -> Printf.sprintf "REJ %d s=%d" (int_of_n c) (int_of_n s)
         | Some (s, SRejCM) -> Printf.sprintf "REJCM s=%d" (int_of_n s)
         | Some (s, SRejPass i) -> Printf.sprintf "REJPASS s=%d i=%d" (int_of_n s) (int_of_n i)
         | Some (s, SOk _) -> "BAD"
         | None -> if have_passes hs then "OK" else "NOPASS" in
       let b = Buffer.create 256 in
       List.iter (fun h ->
         let i = int_of_n in
         let hj = hash (List.concat_map (fun (((x, y), z), w) -> [i x; i y; i z; i w]) h.h_justs) in
         let hp = hash (List.concat_map (fun (u, g) -> [i u; i g]) h.h_pseudos) in
         Buffer.add_string b (Printf.sprintf " | %d %d %d %d %d %d %d %d %d %d %d %d:%d %d %d %d %d %d %d %d:%d %d %d"
           (i h.h_npass) (i h.h_spass) (i h.h_ppass) (i h.h_jpass) (i h.h_bpass) (i h.h_flags)
           (i h.h_apseudo) (i h.h_abreak) (i h.h_abidi) (i h.h_amirror) (i h.h_apassbits)
           (List.length h.h_justs) hj (i h.h_alig) (i h.h_auser) (i h.h_maxcomp) (i h.h_dir) (i h.h_acoll) (i h.h_gendline)
           (List.length h.h_pseudos) hp (i h.h_nclass) (i h.h_nlinear));
         Buffer.add_string b (" T" ^ String.concat "" (List.map (fun ((_, _), ty) -> string_of_int (i ty)) h.h_passes))) hs;
       Printf.printf "%s SILF %s%s\n" id verdict (Buffer.contents b)
     | id :: _ -> Printf.printf "%s SILF BAD\n" id
     | [] -> print_endline "? SILF BAD")
  done with End_of_file -> ()
