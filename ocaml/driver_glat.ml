(* driver_glat.ml — model side of the glyph-attribute reader correspondence (C01):
   <id> glat <numGlyphs (maxp)> <gloc hex> <glat hex> <gid,gid,...>
   -> <id> GL <refused | ok nattrs nglyphs> then per gid:  T (a read outside a table)  |  R (read_glyph returns 0)  |  k=v,... (the non-zero attributes) *)
open Glat_model
let rec pos_of_int i = if i = 1 then XH else if i land 1 = 0 then XO (pos_of_int (i lsr 1)) else XI (pos_of_int (i lsr 1))
let n_of_int (i : int) : n = if i <= 0 then N0 else Npos (pos_of_int i)
let rec int_of_pos = function XH -> 1 | XO p -> 2 * int_of_pos p | XI p -> 2 * int_of_pos p + 1
let int_of_n = function N0 -> 0 | Npos p -> int_of_pos p
let split c s = String.split_on_char c s
let mem_of_hex hex =
  let hex = if hex = "-" then "" else hex in
  let a = Array.init (String.length hex / 2) (fun i -> n_of_int (int_of_string ("0x" ^ String.sub hex (2 * i) 2))) in
  { m_len = n_of_int (Array.length a); m_rd = (fun i -> let k = int_of_n i in if k < Array.length a then Some a.(k) else None) }
let () =
  try while true do
    let line = input_line stdin in
    (match List.filter (fun s -> s <> "") (split ' ' line) with
     | [id; "glat"; ng; gloc; glat; gids] ->
       let gl = mem_of_hex gloc and ga = mem_of_hex glat in
       (match glat_loader gl ga (n_of_int (int_of_string ng)) with
        | None -> Printf.printf "%s GL TRAP\n" id
        | Some None -> Printf.printf "%s GL refused\n" id
        | Some (Some l) ->
          let na = int_of_n l.gl_nattrs in
          let per g =
            let gid = int_of_string g in
            if gid >= int_of_n l.gl_nglyphs then "-"
            else match read_attrs l gl ga (n_of_int gid) with
              | GTrap -> "T"
              | GReject -> "R"
              | GAttrs ps ->
                (match build ps with
                 | None -> "R"
                 | Some s -> if int_of_n (capacity s) > na then "R" else
                     let vs = List.filter_map (fun k -> match lookup s (n_of_int k) with Some v when int_of_n v <> 0 -> Some (Printf.sprintf "%d=%d" k (int_of_n v)) | Some _ -> None | None -> Some (Printf.sprintf "%d=TRAP" k))
                                (List.init (min na 48) (fun k -> k)) in
                     if vs = [] then "0" else String.concat "," vs) in
          (* with gr_face_preloadGlyphs every glyph is read when the face is made and one failure refuses the face *)
          let all_ok = List.for_all (fun g -> per (string_of_int g) <> "R" && per (string_of_int g) <> "T") (List.init (int_of_n l.gl_nglyphs) (fun g -> g)) in
          Printf.printf "%s GL ok %d %d %s %s\n" id na (int_of_n l.gl_nglyphs) (if all_ok then "ALL=ok" else "ALL=R") (String.concat " " (List.map per (split ',' gids))))
     | id :: _ -> Printf.printf "%s GL BAD\n" id
     | [] -> print_endline "? GL BAD")
  done with End_of_file -> ()
