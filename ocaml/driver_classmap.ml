(* driver_classmap.ml — model side of the class-map correspondence (C01): <id> classmap <silf version hex> <bytes hex> *)
open Classmap_model
let rec pos_of_int i = if i = 1 then XH else if i land 1 = 0 then XO (pos_of_int (i lsr 1)) else XI (pos_of_int (i lsr 1))
let n_of_int (i : int) : n = if i <= 0 then N0 else Npos (pos_of_int i)
let rec int_of_pos = function XH -> 1 | XO p -> 2 * int_of_pos p | XI p -> 2 * int_of_pos p + 1
let int_of_n = function N0 -> 0 | Npos p -> int_of_pos p
let split c s = String.split_on_char c s
let () =
  try while true do
    let line = input_line stdin in
    (match List.filter (fun s -> s <> "") (split ' ' line) with
     | [id; "classmap"; ver; hex] ->
       let hex = if hex = "-" then "" else hex in
       let a = Array.init (String.length hex / 2) (fun i -> n_of_int (int_of_string ("0x" ^ String.sub hex (2 * i) 2))) in
       let t = { m_len = n_of_int (Array.length a); m_rd = (fun i -> let k = int_of_n i in if k < Array.length a then Some a.(k) else None) } in
       (match read_class_map t N0 (n_of_int (Array.length a)) (n_of_int (int_of_string ("0x" ^ ver))) with
        | CTrap -> Printf.printf "%s CM TRAP\n" id
        | CReject -> Printf.printf "%s CM REJ\n" id
        | COk (nc, nl, offs, data) ->
          let h l = List.fold_left (fun h x -> ((h lxor (int_of_n x)) * 16777619) land 0xFFFFFFFF) 1469598103 l in
          Printf.printf "%s CM OK %d %d %d %d %d\n" id (int_of_n nc) (int_of_n nl) (List.length data) (h offs) (h data))
     | id :: _ -> Printf.printf "%s CM BAD\n" id
     | [] -> print_endline "? CM BAD")
  done with End_of_file -> ()
