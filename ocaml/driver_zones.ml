(* driver_zones.ml — model side of the C17 correspondence: runs the extracted Zones model on the same operation sequence *)
open Zones_model
let rec pos_of_int i = if i = 1 then XH else if i land 1 = 0 then XO (pos_of_int (i lsr 1)) else XI (pos_of_int (i lsr 1))
let z_of_int (i : int) : z = if i = 0 then Z0 else if i > 0 then Zpos (pos_of_int i) else Zneg (pos_of_int (-i))
let rec int_of_pos = function XH -> 1 | XO p -> 2 * int_of_pos p | XI p -> 2 * int_of_pos p + 1
let int_of_z = function Z0 -> 0 | Zpos p -> int_of_pos p | Zneg p -> - (int_of_pos p)
let split c s = String.split_on_char c s
let zi s = z_of_int (int_of_string s)
let dump zn =
  match zn.z_excl with
  | [] -> "-"
  | l -> String.concat "" (List.map (fun e -> Printf.sprintf "%d,%d,%d,%d,%d,%s;" (int_of_z e.ex) (int_of_z e.exm) (int_of_z e.ec) (int_of_z e.esm) (int_of_z e.esmx) (if e.eopen then "1" else "0")) l)
let () =
  try while true do
    let line = input_line stdin in
    let f = List.filter (fun s -> s <> "") (split ' ' line) in
    (match f with
     | id :: "zones" :: sd :: xmin :: xmax :: ml :: mw :: a0 :: ops ->
       (try
         let exact = ref true in
         let sdb = (sd = "1") in
         let zn = ref (initialise sdb (zi xmin) (zi xmax) (zi ml) (zi mw) (zi a0)) in
         let out = Buffer.create 256 in
         Buffer.add_string out (id ^ " Z " ^ dump !zn);
         List.iter (fun o ->
           match split ':' o with
           | ["x"; a; b] -> zn := zapply !zn (ZExclude (zi a, zi b)); Buffer.add_string out (" | " ^ dump !zn)
           | ["m"; a; b; ax] ->
             (* the margins are weighted inserts with f = 0, m = margin weight, xi = the far end: exact for XY; for SD when divisible *)
             let mlz = !zn.z_mlen and mwz = !zn.z_mwt in
             let axz = zi ax in
             ignore mlz; ignore mwz;
             if (int_of_string ax >= 2) <> sdb then exact := false;
             zn := zapply !zn (ZExcludeM (zi a, zi b, axz)); Buffer.add_string out (" | " ^ dump !zn)
           | ["w"; ax; a; b; ff; a0'; m; xi; ai; c; ng] ->
             if (int_of_string ax >= 2) <> sdb then exact := false;
             zn := zapply !zn (ZWeighted (zi ax, zi a, zi b, zi ff, zi a0', zi m, zi xi, zi ai, zi c, ng = "1")); Buffer.add_string out (" | " ^ dump !zn)
           | ["c"; _] -> Buffer.add_string out " | C"
           | _ -> Buffer.add_string out " | ?") ops;
         if !exact then print_endline (Buffer.contents out) else Printf.printf "%s MIXED\n" id
       with Failure _ -> Printf.printf "%s UNPARSABLE\n" id)
     | id :: _ -> Printf.printf "%s BAD\n" id
     | [] -> print_endline "? BAD")
  done with End_of_file -> ()
