(* driver_tag.ml — model side of the C20 correspondence: same case lines as harness/impl_tag.cpp *)
open Tag_model

let rec n_of_int (i : int) : n = if i = 0 then N0 else Npos (pos_of_int i)
and pos_of_int i = if i = 1 then XH else if i land 1 = 0 then XO (pos_of_int (i lsr 1)) else XI (pos_of_int (i lsr 1))
let rec int_of_pos = function XH -> 1 | XO p -> 2 * int_of_pos p | XI p -> 2 * int_of_pos p + 1
let int_of_n = function N0 -> 0 | Npos p -> int_of_pos p
let rec nat_of_int i = if i = 0 then O else S (nat_of_int (i - 1))
let rec int_of_nat = function O -> 0 | S n -> 1 + int_of_nat n

let unhex s = if s = "-" then [] else
  List.init (String.length s / 2) (fun i -> n_of_int (int_of_string ("0x" ^ String.sub s (2 * i) 2)))

let () =
  try while true do
    let line = input_line stdin in
    match String.split_on_char ' ' (String.trim line) |> List.filter (fun s -> s <> "") with
    | id :: "s2t" :: h :: _ ->
        let m = unhex h @ [N0] in
        (match str_to_tag m with
         | Some t -> Printf.printf "%s T %08x\n" id (int_of_n t)
         | None -> Printf.printf "%s OOB\n" id)
    | id :: "t2s" :: h :: _ ->
        let t = n_of_int (int_of_string ("0x" ^ h)) in
        let ws = tag_to_str t in
        Printf.printf "%s W%s\n" id
          (String.concat "" (List.map (fun (o, v) -> Printf.sprintf " %d:%02x" (int_of_nat o) (int_of_n v)) ws))
    | id :: "pad" :: h :: _ ->
        let t = n_of_int (int_of_string ("0x" ^ h)) in
        Printf.printf "%s P %08x\n" id (int_of_n (zeropad t))
    | id :: _ -> Printf.printf "%s SKIP\n" id
    | [] -> ()
  done with End_of_file -> ()
