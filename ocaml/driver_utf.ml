(* driver_utf.ml — model side of the C11/C12 correspondence *)
open Utf_model

let rec pos_of_int i = if i = 1 then XH else if i land 1 = 0 then XO (pos_of_int (i lsr 1)) else XI (pos_of_int (i lsr 1))
let n_of_int (i : int) : n = if i = 0 then N0 else Npos (pos_of_int i)
let rec int_of_pos = function XH -> 1 | XO p -> 2 * int_of_pos p | XI p -> 2 * int_of_pos p + 1
let int_of_n = function N0 -> 0 | Npos p -> int_of_pos p
let rec nat_of_int i = if i = 0 then O else S (nat_of_int (i - 1))
let rec int_of_nat = function O -> 0 | S n -> 1 + int_of_nat n

let parse_units h enc =
  if h = "-" then [] else
  let w = if enc = 8 then 2 else if enc = 16 then 4 else 8 in
  List.init (String.length h / w) (fun i -> n_of_int (int_of_string ("0x" ^ String.sub h (w * i) w)))

let codec enc = if enc = 8 then (get8, validate8) else if enc = 16 then (get16, validate16) else (get32, validate32)

let () =
  try while true do
    let line = input_line stdin in
    match String.split_on_char ' ' (String.trim line) |> List.filter (fun s -> s <> "") with
    | id :: "count" :: e :: mode :: h :: _ ->
        let enc = int_of_string e in
        let (g, v) = codec enc in
        let u = parse_units h enc in
        let r = if mode = "null" then count_nul g (u @ [N0]) else count_end g v u in
        (match r with
         | None -> Printf.printf "%s OOB\n" id
         | Some (n, err) -> Printf.printf "%s C %d %d\n" id (int_of_nat n) (match err with None -> -1 | Some p -> int_of_nat p))
    | id :: "decode" :: e :: nch :: h :: _ ->
        let enc = int_of_string e in
        let (g, _) = codec enc in
        let u = parse_units h enc in
        (match read_text g (nat_of_int (int_of_string nch)) (u @ [N0]) O with
         | None -> Printf.printf "%s OOB\n" id
         | Some l -> Printf.printf "%s D n=%d%s\n" id (List.length l)
                       (String.concat "" (List.map (fun (c, b) -> Printf.sprintf " %x:%d" (int_of_n c) (int_of_nat b)) l)))
    | id :: "shape3" :: _ -> Printf.printf "%s S same\n" id      (* C11_encodings_agree predicts equality *)
    | id :: _ -> Printf.printf "%s SKIP\n" id
    | [] -> ()
  done with End_of_file -> ()
