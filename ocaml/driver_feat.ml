(* driver_feat.ml — model side of the C18 correspondence *)
open Feat_model
let rec pos_of_int i = if i = 1 then XH else if i land 1 = 0 then XO (pos_of_int (i lsr 1)) else XI (pos_of_int (i lsr 1))
let n_of_int (i : int) : n = if i = 0 then N0 else Npos (pos_of_int i)
let rec int_of_pos = function XH -> 1 | XO p -> 2 * int_of_pos p | XI p -> 2 * int_of_pos p + 1
let int_of_n = function N0 -> 0 | Npos p -> int_of_pos p
let mem_of_hex s : mem =
  let n = if s = "-" then 0 else String.length s / 2 in
  let n = if n < 4 then 0 else n in                                  (* Face::Table drops tables shorter than 4 bytes *)
  let a = Array.init n (fun i -> n_of_int (int_of_string ("0x" ^ String.sub s (2 * i) 2))) in
  { m_len = n_of_int n; m_rd = (fun i -> let k = int_of_n i in if k < n then Some a.(k) else None) }
let readback_on face fm x = match fm.fm_feats with [] -> "-" | l -> String.concat "," (List.map (fun f -> string_of_int ((int_of_n (get_val_on face f x)) land 0xFFFF)) l)
let face1 = n_of_int 1 and face2 = n_of_int 2
let readback fm x = readback_on face1 fm x
let () =
  try while true do
    let line = input_line stdin in
    match String.split_on_char ' ' (String.trim line) |> List.filter (fun s -> s <> "") with
    | id :: "feat" :: fh :: sh :: _nh :: ops ->
        let ft = mem_of_hex fh and st = mem_of_hex sh in
        (match read_feats ft with
         | LTrap -> Printf.printf "%s TRAP\n" id
         | LReject -> Printf.printf "%s REJECT\n" id
         | LOk fm ->
           (match read_sill st fm with
            | LTrap -> Printf.printf "%s TRAP\n" id
            | LReject -> Printf.printf "%s REJECT\n" id
            | LOk langs ->
               let buf = Buffer.create 256 in
               let feats = Array.of_list fm.fm_feats in
               let nvis = List.length (List.filter (fun f -> (int_of_n f.f_flags) land 0x0800 = 0) fm.fm_feats) in
               Buffer.add_string buf (Printf.sprintf " OK nf=%d nvis=%d nl=%d F" (Array.length feats) nvis (List.length langs));
               Array.iter (fun f -> Buffer.add_string buf (Printf.sprintf " %x:%d:%d" (int_of_n f.f_id) (List.length f.f_settings)
                                                            (if (int_of_n f.f_flags) land 0x0800 <> 0 then 1 else 0))) feats;
               let fv = ref { fv_map = Some face1; fv_words = fm.fm_defaults } in
               Buffer.add_string buf (" D " ^ readback fm !fv);
               List.iter (fun op ->
                 match String.split_on_char ':' op with
                 | ["set"; fi; v] ->
                     let fi = int_of_string fi in
                     if fi >= Array.length feats then Buffer.add_string buf " S NA" else
                     (match set_val_on face1 feats.(fi) (n_of_int ((int_of_string v) land 0xFFFF)) !fv with
                      | Some fv' -> fv := fv'; Buffer.add_string buf (" S 1 " ^ readback fm !fv)
                      | None -> Buffer.add_string buf (" S 0 " ^ readback fm !fv))
                 | ["xset"; fi; v] ->                                   (* the same feature of a second face over the same tables *)
                     let fi = int_of_string fi in
                     if fi >= Array.length feats then Buffer.add_string buf " X NA" else
                     (match set_val_on face2 feats.(fi) (n_of_int ((int_of_string v) land 0xFFFF)) !fv with
                      | Some fv' -> fv := fv'; Buffer.add_string buf (" X 1 " ^ readback fm !fv ^ " " ^ readback_on face2 fm !fv)
                      | None -> Buffer.add_string buf (" X 0 " ^ readback fm !fv ^ " " ^ readback_on face2 fm !fv))
                 | ["blank"] -> fv := blank; Buffer.add_string buf (" B " ^ readback fm !fv)
                 | ["clone"] -> Buffer.add_string buf (" C eq " ^ readback fm !fv)
                 | ["lang"; tag] ->
                     fv := { fv_map = Some face1; fv_words = clone_for_lang fm langs (zeropad (n_of_int (int_of_string ("0x" ^ tag)))) };
                     Buffer.add_string buf (" L " ^ readback fm !fv)
                 | "label" :: _ -> Buffer.add_string buf " N *"
                 | _ -> Buffer.add_string buf " ?") ops;
               Printf.printf "%s%s\n" id (Buffer.contents buf)))
    | id :: _ -> Printf.printf "%s SKIP\n" id
    | [] -> ()
  done with End_of_file -> ()
