// impl_fsm.cpp — the finite state machine of a pass as the real loader builds it and as the real Pass::runFSM runs it
// (Model/FsmModel.v).  One case per line:
//   <id> fsm <font path> <pass index> <dir> <hexunits32>
// Output: <id> FSM NOFACE | <id> FSM T <ng> <nrules> <nstates> <ntrans> <nsucc> <ncols> <minpre> <maxpre> <hcols> <hstarts> <htrans> <hrules>
//         G <gid,gid,...> R<k>:<ok>,<context>,<map size>,<rule.rule...> ...        (one R per slot of the segment)
#include <string>
#include <vector>
#include <graphite2/Segment.h>
#include <graphite2/Font.h>
#define private public
#define protected public
#include "inc/Main.h"
#include "inc/Face.h"
#include "inc/Silf.h"
#include "inc/Pass.h"
#include "inc/Rule.h"
#include "inc/Segment.h"
#include "inc/Slot.h"
#undef private
#undef protected
#include "hcommon.h"

using namespace graphite2;

static unsigned long hstep(unsigned long h, unsigned long x) { return ((h ^ x) * 16777619UL) & 0xFFFFFFFFUL; }

int main(int argc, char **argv) {
    std::string repo = argc > 1 ? argv[1] : "/repo";
    std::string line;
    while (std::getline(std::cin, line)) {
        std::vector<std::string> f = split_ws(line);
        case_begin(f.empty() ? std::string("?") : f[0]);
        if (f.size() < 6 || f[1] != "fsm") { printf("%s FSM BAD\n", f.empty() ? "?" : f[0].c_str()); fflush(stdout); case_end(); continue; }
        std::string path = f[2][0] == '/' ? f[2] : repo + "/tests/fonts/" + f[2];
        gr_face *gface = gr_make_file_face(path.c_str(), 0);
        if (!gface) { printf("%s FSM NOFACE\n", f[0].c_str()); fflush(stdout); case_end(); continue; }
        Face *face = static_cast<Face *>(gface);
        unsigned pi = (unsigned)atoi(f[3].c_str()); int dir = atoi(f[4].c_str());
        const Silf &silf = face->m_silfs[0];
        std::string out = f[0] + " FSM";
        if (pi >= silf.m_numPasses) out += " NOPASS";
        else {
            const Pass &p = silf.m_passes[pi];
            unsigned long hc = 1469598103UL, hs = hc, ht = hc, hr = hc;
            if (p.m_numRules) {
                for (unsigned i = 0; i < p.m_numGlyphs; i++) hc = hstep(hc, p.m_cols[i]);
                for (unsigned i = 0; i < unsigned(p.m_maxPreCtxt - p.m_minPreCtxt + 1); i++) hs = hstep(hs, p.m_startStates[i]);
                for (unsigned i = 0; i < unsigned(p.m_numTransition) * p.m_numColumns; i++) ht = hstep(ht, p.m_transitions[i]);
                for (unsigned i = 0; i < p.m_numStates; i++) {
                    hr = hstep(hr, 0xFFFFFFUL);
                    for (const RuleEntry *r = p.m_states[i].rules; r != p.m_states[i].rules_end; ++r) hr = hstep(hr, (unsigned long)(r->rule - p.m_rules));
                }
            }
            char t[160];
            snprintf(t, sizeof t, " T %u %u %u %u %u %u %u %u %lu %lu %lu %lu", p.m_numRules ? p.m_numGlyphs : 0u, p.m_numRules, p.m_numStates, p.m_numTransition, p.m_numSuccess,
                     p.m_numColumns, p.m_numRules ? p.m_minPreCtxt : 0u, p.m_numRules ? p.m_maxPreCtxt : 0u, hc, hs, ht, hr);
            out += t;
            std::vector<uint32_t> u; { const std::string &h = f[5]; if (h != "-") for (size_t i = 0; i + 8 <= h.size(); i += 8) u.push_back((uint32_t)strtoul(h.substr(i, 8).c_str(), 0, 16)); }
            u.push_back(0);
            if (p.m_numRules && u.size() > 1) {
                Segment *seg = new Segment(u.size() - 1, face, 0, dir);
                Features *feats = face->theSill().cloneFeatures(0);
                bool okread = seg->read_text(face, feats, gr_utf32, u.data(), u.size() - 1);
                delete feats;
                if (okread) {
                    out += " G";
                    { bool first = true; for (Slot *s = seg->first(); s; s = s->next()) { out += (first ? " " : ",") + std::to_string(s->gid()); first = false; } }
                    unsigned k = 0;
                    for (Slot *s0 = seg->first(); s0; s0 = s0->next(), k++) {
                        SlotMap map(*seg, (uint8)(dir & 1), seg->slotCount() * 64 + 64);
                        FiniteStateMachine fsm(map, 0);
                        Slot *s = s0;
                        bool ok = p.runFSM(fsm, s);
                        std::string rl;
                        for (const RuleEntry *r = fsm.rules.begin(); r != fsm.rules.end(); ++r) rl += (rl.empty() ? "" : ".") + std::to_string((long)(r->rule - p.m_rules));
                        out += " R" + std::to_string(k) + ":" + (ok ? "1" : "0") + "," + std::to_string(map.context()) + "," + std::to_string(map.size()) + "," + (rl.empty() ? "-" : rl);
                    }
                }
                delete seg;
            }
        }
        gr_face_destroy(gface);
        printf("%s\n", out.c_str());
        fflush(stdout); case_end();
    }
    return 0;
}
