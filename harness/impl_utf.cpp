// impl_utf.cpp — implementation side of the C11/C12 correspondence (public API only).
#include <graphite2/Segment.h>
#include "hcommon.h"

static gr_face *face = 0;

template <typename U> static U *make_buf(const std::vector<uint32_t> &u, bool term, size_t &bytes) {
    size_t n = u.size() + (term ? 1 : 0);
    bytes = n * sizeof(U);
    U *p = (U *)malloc(bytes ? bytes : 1);
    for (size_t i = 0; i < u.size(); i++) p[i] = (U)u[i];
    if (term) p[u.size()] = 0;
    return p;
}
static std::vector<uint32_t> parse_units(const std::string &h, int enc) {
    std::vector<uint32_t> out; if (h == "-") return out;
    int w = enc == 8 ? 2 : enc == 16 ? 4 : 8;
    for (size_t i = 0; i + w <= h.size(); i += w) out.push_back((uint32_t)strtoul(h.substr(i, w).c_str(), 0, 16));
    return out;
}
static std::string dump_seg(gr_segment *s, bool with_base) {
    std::string out; char t[96];
    snprintf(t, sizeof t, "n=%u", gr_seg_n_cinfo(s)); out += t;
    for (unsigned i = 0; i < gr_seg_n_cinfo(s); i++) {
        const gr_char_info *c = gr_seg_cinfo(s, i);
        if (with_base) snprintf(t, sizeof t, " %x:%u", gr_cinfo_unicode_char(c), (unsigned)gr_cinfo_base(c));
        else snprintf(t, sizeof t, " %x", gr_cinfo_unicode_char(c));
        out += t;
    }
    return out;
}
static std::string dump_slots(gr_segment *s) {
    std::string out; char t[128];
    for (const gr_slot *p = gr_seg_first_slot(s); p; p = gr_slot_next_in_segment(p)) {
        snprintf(t, sizeof t, " %u@%.3f,%.3f/%d-%d", gr_slot_gid(p), gr_slot_origin_X(p), gr_slot_origin_Y(p), gr_slot_before(p), gr_slot_after(p));
        out += t;
    }
    snprintf(t, sizeof t, " adv=%.3f", gr_seg_advance_X(s)); out += t;
    return out;
}
static gr_segment *mk(int enc, const std::vector<uint32_t> &u, size_t nchars, int dir, void **keep) {
    size_t bytes;
    void *p = enc == 8 ? (void *)make_buf<uint8_t>(u, true, bytes) : enc == 16 ? (void *)make_buf<uint16_t>(u, true, bytes) : (void *)make_buf<uint32_t>(u, true, bytes);
    *keep = p;
    return gr_make_seg(0, face, 0, 0, enc == 8 ? gr_utf8 : enc == 16 ? gr_utf16 : gr_utf32, p, nchars, dir);
}
static void enc_scalar(uint32_t c, std::vector<uint32_t> &o8, std::vector<uint32_t> &o16) {
    if (c < 0x80) o8.push_back(c);
    else if (c < 0x800) { o8.push_back(0xC0 | (c >> 6)); o8.push_back(0x80 | (c & 63)); }
    else if (c < 0x10000) { o8.push_back(0xE0 | (c >> 12)); o8.push_back(0x80 | ((c >> 6) & 63)); o8.push_back(0x80 | (c & 63)); }
    else { o8.push_back(0xF0 | (c >> 18)); o8.push_back(0x80 | ((c >> 12) & 63)); o8.push_back(0x80 | ((c >> 6) & 63)); o8.push_back(0x80 | (c & 63)); }
    if (c < 0x10000) o16.push_back(c); else { o16.push_back(0xD7C0 + (c >> 10)); o16.push_back(0xDC00 + (c & 0x3FF)); }
}

int main(int argc, char **argv) {
    std::string repo = argc > 1 ? argv[1] : "/repo";
    std::string fontp = repo + "/tests/fonts/" + (argc > 2 ? argv[2] : "Padauk.ttf");
    std::string line;
    while (std::getline(std::cin, line)) {
        std::vector<std::string> f = split_ws(line);
        case_begin(f.empty() ? std::string("?") : f[0]);
        if (f.size() < 4) { printf("%s BAD\n", f.empty() ? "?" : f[0].c_str()); continue; }
        const std::string &id = f[0], &op = f[1];
        int enc = atoi(f[2].c_str());
        gr_encform ef = enc == 8 ? gr_utf8 : enc == 16 ? gr_utf16 : gr_utf32;
        if (op == "count" && f.size() >= 5) {
            bool nul = f[3] == "null";
            std::vector<uint32_t> u = parse_units(f[4], enc);
            size_t bytes;
            void *p = enc == 8 ? (void *)make_buf<uint8_t>(u, nul, bytes) : enc == 16 ? (void *)make_buf<uint16_t>(u, nul, bytes) : (void *)make_buf<uint32_t>(u, nul, bytes);
            const void *err = (const void *)0x1;
            size_t n = gr_count_unicode_characters(ef, p, nul ? 0 : (const char *)p + bytes, &err);
            long ep = -1;
            if (err) ep = ((const char *)err - (const char *)p) / (enc / 8);
            // also exercise the error == NULL path
            size_t n2 = gr_count_unicode_characters(ef, p, nul ? 0 : (const char *)p + bytes, 0);
            printf("%s C %zu %ld%s\n", id.c_str(), n, ep, n2 == n ? "" : " NOERRARG-DIFFERS");
            free(p);
        } else if (op == "decode" && f.size() >= 5) {
            if (!face) face = gr_make_file_face(fontp.c_str(), 0);
            size_t nchars = strtoull(f[3].c_str(), 0, 10);
            std::vector<uint32_t> u = parse_units(f[4], enc);
            void *keep; gr_segment *s = mk(enc, u, nchars, 0, &keep);
            if (!s) printf("%s D NULL\n", id.c_str());
            else { printf("%s D %s\n", id.c_str(), dump_seg(s, true).c_str()); gr_seg_destroy(s); }
            free(keep);
        } else if (op == "shape3") {                 // f[2] ignored; scalars as 8-hex-digit words
            if (!face) face = gr_make_file_face(fontp.c_str(), 0);
            int dir = atoi(f[2].c_str());
            std::vector<uint32_t> sc = parse_units(f[3], 32), u8, u16;
            for (size_t i = 0; i < sc.size(); i++) enc_scalar(sc[i], u8, u16);
            void *k1, *k2, *k3;
            gr_segment *s1 = mk(8, u8, sc.size() + 3, dir, &k1), *s2 = mk(16, u16, u16.size(), dir, &k2), *s3 = mk(32, sc, sc.size(), dir, &k3);
            if (!s1 || !s2 || !s3) printf("%s S NULL\n", id.c_str());
            else {
                std::string a = dump_seg(s1, false) + dump_slots(s1), b = dump_seg(s2, false) + dump_slots(s2), c = dump_seg(s3, false) + dump_slots(s3);
                bool basesok = true; unsigned prev8 = 0, prev16 = 0;
                for (unsigned i = 0; i < gr_seg_n_cinfo(s1) && i < gr_seg_n_cinfo(s2); i++) {
                    unsigned b8 = gr_cinfo_base(gr_seg_cinfo(s1, i)), b16 = gr_cinfo_base(gr_seg_cinfo(s2, i)), b32 = gr_cinfo_base(gr_seg_cinfo(s3, i));
                    if (i && (b8 <= prev8 || b16 <= prev16)) basesok = false;
                    if (b32 != i) basesok = false;
                    prev8 = b8; prev16 = b16;
                }
                printf("%s S %s%s\n", id.c_str(), (a == b && b == c) ? "same" : "DIFF", basesok ? "" : " BADBASES");
            }
            if (s1) gr_seg_destroy(s1); if (s2) gr_seg_destroy(s2); if (s3) gr_seg_destroy(s3);
            free(k1); free(k2); free(k3);
        } else printf("%s BAD\n", id.c_str());
        fflush(stdout);
        case_end();
    }
    if (face) gr_face_destroy(face);
    return 0;
}
