// impl_tag.cpp — implementation side of the C20 correspondence.
// Includes gr_face.cpp itself so that the file-local zeropad() is reachable; the archive member gr_face.o is
// then not pulled in by the linker (all its symbols are already defined here).
#include "gr_face.cpp"
#include "hcommon.h"
#include <map>
#include <sys/mman.h>
#include <unistd.h>

static const char *FONTS[] = { "tests/fonts/Padauk.ttf", "tests/fonts/charis_r_gr.ttf", "tests/fonts/Scheherazadegr.ttf",
                               "tests/fonts/Charis5_eursub.ttf", "tests/fonts/charis_fast.ttf" };
static gr_face *faces[5];

int main(int argc, char **argv) {
    std::string repo = argc > 1 ? argv[1] : "/repo";
    std::string line;
    long pg = sysconf(_SC_PAGESIZE);
    uint8_t *guard = (uint8_t *)mmap(0, 2 * pg, PROT_READ | PROT_WRITE, MAP_PRIVATE | MAP_ANONYMOUS, -1, 0);
    mprotect(guard + pg, pg, PROT_NONE);
    while (std::getline(std::cin, line)) {
        std::vector<std::string> f = split_ws(line);
        case_begin(f.empty() ? std::string("?") : f[0]);
        if (f.size() < 3) { printf("%s BAD\n", f.empty() ? "?" : f[0].c_str()); continue; }
        const std::string &id = f[0], &op = f[1];
        if (op == "s2t") {
            std::vector<uint8_t> s = unhex(f[2]);
            uint8_t *p = exact_copy(s, 1);                       // string + terminator, nothing more
            gr_uint32 t1 = gr_str_to_tag((const char *)p);
            free(p);
            uint8_t *q = guard + pg - (s.size() + 1);            // terminator is the last readable byte
            if (!s.empty()) memcpy(q, s.data(), s.size()); q[s.size()] = 0;
            gr_uint32 t2 = gr_str_to_tag((const char *)q);
            if (t1 != t2) printf("%s NONDET %08x %08x\n", id.c_str(), t1, t2);
            else printf("%s T %08x\n", id.c_str(), t1);
        } else if (op == "t2s") {
            gr_uint32 t = (gr_uint32)strtoul(f[2].c_str(), 0, 16);
            uint8_t a[12], b[12];
            memset(a, 0xAA, sizeof a); memset(b, 0x55, sizeof b);
            gr_tag_to_str(t, (char *)a + 2); gr_tag_to_str(t, (char *)b + 2);
            std::string out;
            for (int i = 0; i < 12; i++)
                if (a[i] != 0xAA || b[i] != 0x55) {
                    char tmp[32]; snprintf(tmp, sizeof tmp, " %d:%02x", i - 2, a[i] != 0xAA ? a[i] : b[i]);
                    // a byte equal to one sentinel is still seen through the other buffer
                    out += tmp;
                }
            uint8_t *e = (uint8_t *)malloc(4);                   // "a char array of at least size 4 bytes"
            gr_tag_to_str(t, (char *)e);
            free(e);
            printf("%s W%s\n", id.c_str(), out.c_str());
        } else if (op == "pad") {
            gr_uint32 t = (gr_uint32)strtoul(f[2].c_str(), 0, 16);
            printf("%s P %08x\n", id.c_str(), (unsigned)zeropad(t));
        } else if (op == "lang" && f.size() >= 4) {              // API level: features selected for a language tag
            int fi = atoi(f[2].c_str()) % 5;
            if (!faces[fi]) faces[fi] = gr_make_file_face((repo + "/" + FONTS[fi]).c_str(), 0);
            gr_uint32 t = (gr_uint32)strtoul(f[3].c_str(), 0, 16);
            if (!faces[fi]) { printf("%s NOFACE\n", id.c_str()); continue; }
            gr_feature_val *fv = gr_face_featureval_for_lang(faces[fi], t);
            std::string out;
            for (int k = 0; k < gr_face_n_fref(faces[fi]); k++) {
                char tmp[16]; snprintf(tmp, sizeof tmp, " %u", gr_fref_feature_value(gr_face_fref(faces[fi], k), fv));
                out += tmp;
            }
            gr_featureval_destroy(fv);
            printf("%s L%s\n", id.c_str(), out.c_str());
        } else if (op == "feat" && f.size() >= 4) {              // API level: the feature selected by a tag; <font index | path of a crafted font>
            static std::map<std::string, gr_face *> crafted;
            gr_face *fc = 0;
            if (f[2][0] == '/') { if (!crafted.count(f[2])) crafted[f[2]] = gr_make_file_face(f[2].c_str(), 0); fc = crafted[f[2]]; }
            else { int fi = atoi(f[2].c_str()) % 5; if (!faces[fi]) faces[fi] = gr_make_file_face((repo + "/" + FONTS[fi]).c_str(), 0); fc = faces[fi]; }
            if (!fc) { printf("%s NOFACE\n", id.c_str()); continue; }
            const gr_feature_ref *fr = gr_face_find_fref(fc, (gr_uint32)strtoul(f[3].c_str(), 0, 16));
            if (fr) printf("%s F %08x\n", id.c_str(), (unsigned)gr_fref_id(fr)); else printf("%s F none\n", id.c_str());
        } else printf("%s BAD\n", id.c_str());
        fflush(stdout);
        case_end();
    }
    for (int i = 0; i < 5; i++) if (faces[i]) gr_face_destroy(faces[i]);
    return 0;
}
