// impl_feat.cpp — implementation side of the C18 correspondence.
// A bare graphite2::Face whose tables (Feat, Sill, name) come from the case line in exact-size heap buffers;
// Face::readFeatures() runs the real loaders; everything else goes through the public gr_* API.
#include "inc/Main.h"
#include "inc/Face.h"
#include "inc/FeatureMap.h"
#include "inc/FeatureVal.h"
#include <graphite2/Font.h>
#include "hcommon.h"

using namespace graphite2;

struct Src { std::vector<uint8_t> feat, sill, name; int gets, rels; };
static const void *get_tbl(const void *h, unsigned int tag, size_t *len) {
    Src *s = (Src *)h;
    const std::vector<uint8_t> *v = tag == 0x46656174u ? &s->feat : tag == 0x53696c6cu ? &s->sill : tag == 0x6e616d65u ? &s->name : 0;
    if (!v || v->empty()) { *len = 0; return 0; }
    uint8_t *p = (uint8_t *)malloc(v->size());
    memcpy(p, v->data(), v->size());
    *len = v->size(); s->gets++;
    return p;
}
static void rel_tbl(const void *h, const void *p) { ((Src *)h)->rels++; free((void *)p); }

static std::string readback(const Face &face, const gr_feature_val *fv) {
    std::string out; char t[32];
    for (int j = 0; j < face.numFeatures(); ++j) {
        snprintf(t, sizeof t, "%s%u", j ? "," : "", gr_fref_feature_value(static_cast<const gr_feature_ref *>(face.feature(j)), fv));
        out += t;
    }
    return out.empty() ? "-" : out;
}
static std::string label_cps(void *lbl, gr_encform enc, gr_uint32 len) {
    std::string out; char t[16];
    if (!lbl) return "NULL";
    for (gr_uint32 i = 0; i <= len; i++) {          // includes the terminator: must be a NUL unit
        unsigned u = enc == gr_utf8 ? ((uint8_t *)lbl)[i] : enc == gr_utf16 ? ((uint16_t *)lbl)[i] : ((uint32_t *)lbl)[i];
        snprintf(t, sizeof t, "%s%x", i ? "." : "", u); out += t;
    }
    return out;
}

int main(int argc, char **argv) {
    std::string line;
    while (std::getline(std::cin, line)) {
        std::vector<std::string> f = split_ws(line);
        case_begin(f.empty() ? std::string("?") : f[0]);
        if (f.size() < 5) { printf("%s BAD\n", f.empty() ? "?" : f[0].c_str()); continue; }
        const std::string &id = f[0];
        Src src; src.feat = unhex(f[2]); src.sill = unhex(f[3]); src.name = unhex(f[4]); src.gets = src.rels = 0;
        gr_face_ops ops = { sizeof(gr_face_ops), get_tbl, rel_tbl };
        std::string out;
        {
            Face face(&src, ops);
            bool ok = face.readFeatures();
            Face face2(&src, ops);                                     // a second face over the same tables (ops xset)
            if (ok) ok = face2.readFeatures();
            if (!ok) out = " REJECT";
            else {
                const gr_face *gf = static_cast<const gr_face *>(&face);
                char t[96];
                snprintf(t, sizeof t, " OK nf=%d nvis=%d nl=%d F", face.numFeatures(), gr_face_n_fref(gf), gr_face_n_languages(gf)); out += t;
                for (int j = 0; j < face.numFeatures(); ++j) {
                    const gr_feature_ref *r = static_cast<const gr_feature_ref *>(face.feature(j));
                    snprintf(t, sizeof t, " %x:%u:%u", gr_fref_id(r), gr_fref_n_values(r), (face.feature(j)->getFlags() & FeatureRef::HIDDEN) ? 1 : 0); out += t;
                }
                gr_feature_val *fv = gr_face_featureval_for_lang(gf, 0);
                out += " D " + readback(face, fv);
                for (size_t k = 5; k < f.size(); k++) {
                    const std::string &op = f[k];
                    if (op.compare(0, 4, "set:") == 0) {
                        unsigned fi, v; sscanf(op.c_str() + 4, "%u:%u", &fi, &v);
                        if ((int)fi >= face.numFeatures()) { out += " S NA"; continue; }
                        int r = gr_fref_set_feature_value(static_cast<const gr_feature_ref *>(face.feature(fi)), (gr_uint16)v, fv);
                        out += std::string(" S ") + (r ? "1 " : "0 ") + readback(face, fv);
                    } else if (op.compare(0, 5, "xset:") == 0) {       // the same feature of the second face
                        unsigned fi, v; sscanf(op.c_str() + 5, "%u:%u", &fi, &v);
                        if ((int)fi >= face2.numFeatures()) { out += " X NA"; continue; }
                        int r = gr_fref_set_feature_value(static_cast<const gr_feature_ref *>(face2.feature(fi)), (gr_uint16)v, fv);
                        out += std::string(" X ") + (r ? "1 " : "0 ") + readback(face, fv) + " " + readback(face2, fv);
                    } else if (op == "blank") {                        // an unbound map: gr_featureval_clone(NULL)
                        gr_featureval_destroy(fv);
                        fv = gr_featureval_clone(NULL);
                        out += " B " + readback(face, fv);
                    } else if (op == "clone") {
                        gr_feature_val *c = gr_featureval_clone(fv);
                        bool eq = (*static_cast<FeatureVal *>(c) == *static_cast<FeatureVal *>(fv));
                        out += std::string(" C ") + (eq ? "eq " : "NE ") + readback(face, c);
                        gr_featureval_destroy(fv); fv = c;             // continue on the clone
                    } else if (op.compare(0, 5, "lang:") == 0) {
                        gr_uint32 tag = (gr_uint32)strtoul(op.c_str() + 5, 0, 16);
                        gr_featureval_destroy(fv);
                        fv = gr_face_featureval_for_lang(gf, tag);
                        out += " L " + readback(face, fv);
                    } else if (op.compare(0, 6, "label:") == 0) {      // label:<fidx>:<setting|-1>
                        int fi, si; sscanf(op.c_str() + 6, "%d:%d", &fi, &si);
                        if (fi >= face.numFeatures()) { out += " N NA"; continue; }
                        const gr_feature_ref *r = static_cast<const gr_feature_ref *>(face.feature(fi));
                        out += " N";
                        gr_encform encs[3] = { gr_utf8, gr_utf16, gr_utf32 };
                        for (int e = 0; e < 3; e++) {
                            gr_uint16 lang = 0x409; gr_uint32 len = 0;
                            void *l = si < 0 ? gr_fref_label(r, &lang, encs[e], &len) : gr_fref_value_label(r, (gr_uint16)si, &lang, encs[e], &len);
                            out += " " + label_cps(l, encs[e], l ? len : 0);
                            gr_label_destroy(l);
                        }
                    } else out += " ?";
                }
                gr_featureval_destroy(fv);
            }
        }
        char t[48]; snprintf(t, sizeof t, " T %d/%d", src.gets, src.rels);
        printf("%s%s%s\n", id.c_str(), out.c_str(), t);
        fflush(stdout);
        case_end();
    }
    return 0;
}
