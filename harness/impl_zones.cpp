// impl_zones.cpp — implementation side of the C17 correspondence: drives graphite2::Zones (src/Intervals.cpp) directly.
// One case per line:  <id> zones <sd 0|1> <xmin> <xmax> <margin_len> <margin_weight> <a0> <op> ...
//   ops:  x:<a>:<b>                exclude(a, b)
//         m:<a>:<b>:<axis>         exclude_with_margins(a, b, axis)
//         w:<axis>:<xmin>:<xmax>:<f>:<a0>:<m>:<xi>:<ai>:<c>:<nega>    weightedAxis(...)
//         c:<origin>               closest(origin, cost)  (query)
// Output: <id> Z <list> | <list or C<pos>,<cost>> ...   with <list> = x,xm,c,sm,smx,open;...
#include <iterator>
#include <string>
#include <vector>
#include <sstream>
#include <iostream>
#define private public
#define protected public
#include "inc/Main.h"
#include "inc/Intervals.h"
#undef private
#undef protected
#include "hcommon.h"
#include <cmath>
using namespace graphite2;

static std::string fnum(float v) { char t[48]; if (std::isnan(v)) return "nan"; if (std::isinf(v)) return v > 0 ? "inf" : "-inf"; snprintf(t, sizeof t, "%.9g", (double)v); return t; }
static std::string dump(const Zones &z) {
    std::string out;
    for (Zones::const_iterator i = z.begin(); i != z.end(); ++i)
        out += fnum(i->x) + "," + fnum(i->xm) + "," + fnum(i->c) + "," + fnum(i->sm) + "," + fnum(i->smx) + "," + (i->open ? "1" : "0") + ";";
    return out.empty() ? "-" : out;
}
static std::vector<std::string> colon(const std::string &s) { std::vector<std::string> a; std::istringstream is(s); std::string x; while (std::getline(is, x, ':')) a.push_back(x); return a; }

int main() {
    std::string line;
    while (std::getline(std::cin, line)) {
        std::vector<std::string> f = split_ws(line);
        case_begin(f.empty() ? std::string("?") : f[0]);
        if (f.size() < 8 || f[1] != "zones") { printf("%s BAD\n", f.empty() ? "?" : f[0].c_str()); fflush(stdout); case_end(); continue; }
        Zones z;
        bool sd = f[2] == "1";
        float xmin = (float)atof(f[3].c_str()), xmax = (float)atof(f[4].c_str()), ml = (float)atof(f[5].c_str()), mw = (float)atof(f[6].c_str()), a0 = (float)atof(f[7].c_str());
        if (sd) z.initialise<SD>(xmin, xmax, ml, mw, a0); else z.initialise<XY>(xmin, xmax, ml, mw, a0);
        std::string out = f[0] + " Z " + dump(z);
        for (size_t k = 8; k < f.size(); k++) {
            std::vector<std::string> a = colon(f[k]);
            if (a[0] == "x" && a.size() >= 3) { z.exclude((float)atof(a[1].c_str()), (float)atof(a[2].c_str())); out += " | " + dump(z); }
            else if (a[0] == "m" && a.size() >= 4) { z.exclude_with_margins((float)atof(a[1].c_str()), (float)atof(a[2].c_str()), atoi(a[3].c_str())); out += " | " + dump(z); }
            else if (a[0] == "w" && a.size() >= 11) {
                z.weightedAxis(atoi(a[1].c_str()), (float)atof(a[2].c_str()), (float)atof(a[3].c_str()), (float)atof(a[4].c_str()), (float)atof(a[5].c_str()), (float)atof(a[6].c_str()),
                               (float)atof(a[7].c_str()), (float)atof(a[8].c_str()), (float)atof(a[9].c_str()), a[10] == "1");
                out += " | " + dump(z);
            }
            else if (a[0] == "c" && a.size() >= 2) { float cost = 0; float p = z.closest((float)atof(a[1].c_str()), cost); out += " | C" + fnum(p) + "," + fnum(cost); }
            else out += " | ?";
        }
        printf("%s\n", out.c_str()); fflush(stdout); case_end();
    }
    return 0;
}
