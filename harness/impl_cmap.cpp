// impl_cmap.cpp — implementation side of the C13 correspondence.
// Component level: DirectCmap / CachedCmap constructed on a bare Face object whose only table is the case's cmap
// (exact-size heap buffer under ASan).  API level: all 0x110000 code points of a font file, direct vs cached.
#include "inc/Main.h"
#include "inc/Face.h"
#include "inc/CmapCache.h"
#include "inc/TtfUtil.h"
#include "inc/Silf.h"
#include <graphite2/Font.h>
#include "hcommon.h"

using namespace graphite2;
extern const void * bmp_subtable(const Face::Table & cmap);
extern const void * smp_subtable(const Face::Table & cmap);

struct Src { const uint8_t *p; size_t n; };
static const void *get_tbl(const void *h, unsigned int tag, size_t *len) {
    const Src *s = (const Src *)h;
    if (tag != 0x636d6170u) { *len = 0; return 0; }     // 'cmap'
    *len = s->n; return s->p;
}

static void dump_runs(const char *lbl, const std::vector<uint16_t> &g) {
    printf(" %s", lbl);
    size_t n = g.size();
    for (size_t i = 0; i < n;) {
        if (!g[i]) { i++; continue; }
        size_t j = i + 1;
        while (j < n && g[j] && g[j] == (uint16_t)(g[i] + (j - i))) j++;
        printf(" %zx-%zx:%x", i, j - 1, g[i]);
        i = j;
    }
}

int main(int argc, char **argv) {
    std::string repo = argc > 1 ? argv[1] : "/repo";
    std::string line;
    while (std::getline(std::cin, line)) {
        std::vector<std::string> f = split_ws(line);
        case_begin(f.empty() ? std::string("?") : f[0], 300);
        if (f.size() < 3) { printf("%s BAD\n", f.empty() ? "?" : f[0].c_str()); continue; }
        const std::string &id = f[0], &op = f[1];
        if (op == "tbl") {
            std::vector<uint8_t> t = unhex(f[2]);
            uint8_t *p = exact_copy(t);
            Src src = { p, t.size() };
            gr_face_ops ops = { sizeof(gr_face_ops), get_tbl, 0 };
            {
                Face face(&src, ops);
                std::string out;
                char tmp[64];
                {
                    const Face::Table cm(face, Tag::cmap);
                    const void *b = cm ? bmp_subtable(cm) : 0, *s = cm ? smp_subtable(cm) : 0;
                    snprintf(tmp, sizeof tmp, " bmp=%ld smp=%ld", b ? (long)((const uint8_t *)b - p) : -1L, s ? (long)((const uint8_t *)s - p) : -1L);
                    out += tmp;
                }
                DirectCmap d(face);
                CachedCmap c(face);
                out += " D";
                if (!bool(d)) out += " NA";
                else for (size_t k = 3; k < f.size(); k++) { snprintf(tmp, sizeof tmp, " %x", d[(uint32)strtoul(f[k].c_str(), 0, 16)]); out += tmp; }
                out += " C";
                if (!bool(c)) out += " NA";
                else for (size_t k = 3; k < f.size(); k++) { snprintf(tmp, sizeof tmp, " %x", c[(uint32)strtoul(f[k].c_str(), 0, 16)]); out += tmp; }
                printf("%s%s\n", id.c_str(), out.c_str());
            }
            free(p);
        } else if (op == "font") {                      // <font file> <face options>
            std::string path = f[2][0] == '/' ? f[2] : repo + "/tests/fonts/" + f[2];
            unsigned opts = f.size() > 3 ? atoi(f[3].c_str()) : 0;
            gr_face *gf = gr_make_file_face(path.c_str(), opts);
            if (!gf) { printf("%s NOFACE\n", id.c_str()); continue; }
            const Face *face = static_cast<const Face *>(gf);
            std::vector<uint16_t> g(0x110000), sup(0x110000);
            for (uint32 u = 0; u < 0x110000; u++) { g[u] = face->cmap()[u]; sup[u] = gr_face_is_char_supported(gf, u, 0) ? 1 : 0; }
            printf("%s", id.c_str());
            dump_runs("G", g);
            // supported-but-unmapped code points (pseudo glyphs)
            printf(" P");
            for (uint32 u = 0; u < 0x110000; u++) if (sup[u] != (g[u] != 0)) printf(" %x:%d", u, sup[u]);
            printf("\n");
            gr_face_destroy(gf);
        } else printf("%s BAD\n", id.c_str());
        fflush(stdout);
        case_end();
    }
    return 0;
}
