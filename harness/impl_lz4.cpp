// impl_lz4.cpp — implementation side of the C14 component correspondence: lz4::decompress on exact-size heap
// buffers (ASan red zones directly after the last byte), plus an independent byte-wise strict reference decoder.
#include "inc/Decompressor.h"
#include "hcommon.h"
#define private public
#define protected public
#include "inc/Face.h"
#undef private
#undef protected

// independent reference: LZ4 block format, sequence semantics; the block must end with a literals-only sequence
static bool ref_decode(const std::vector<uint8_t> &in, std::vector<uint8_t> &out) {
    size_t i = 0, n = in.size();
    out.clear();
    for (;;) {
        if (i >= n) return false;
        uint8_t tok = in[i++];
        size_t ll = tok >> 4;
        if (ll == 15) { uint8_t b; do { if (i >= n) return false; b = in[i++]; ll += b; } while (b == 255); }
        if (ll > n - i) return false;
        out.insert(out.end(), in.begin() + i, in.begin() + i + ll);
        i += ll;
        if (i == n) return true;
        if (n - i < 2) return false;
        size_t dist = in[i] | (in[i + 1] << 8); i += 2;
        size_t ml = tok & 15;
        if (ml == 15) { uint8_t b; do { if (i >= n) return false; b = in[i++]; ml += b; } while (b == 255); }
        ml += 4;
        if (dist == 0 || dist > out.size()) return false;
        for (size_t k = 0; k < ml; k++) out.push_back(out[out.size() - dist]);
    }
}

// Face::Table over given bytes: one table ('Silf') served from an exact-size heap copy
struct TSrc { const std::vector<uint8_t> *t; int gets, rels; };
static const void *t_get(const void *h, unsigned int name, size_t *len) {
    TSrc *s = (TSrc *)h;
    if (name != graphite2::TtfUtil::Tag::Silf) return 0;
    s->gets++; *len = s->t->size(); return exact_copy(*s->t);
}
static void t_rel(const void *h, const void *p) { ((TSrc *)h)->rels++; free(const_cast<void *>(p)); }

int main(int argc, char **argv) {
    std::string line;
    while (std::getline(std::cin, line)) {
        std::vector<std::string> f = split_ws(line);
        case_begin(f.empty() ? std::string("?") : f[0], 300);
        if (f.size() < 3) { printf("%s BAD\n", f.empty() ? "?" : f[0].c_str()); continue; }
        const std::string &id = f[0];
        std::vector<uint8_t> in;
        if (f[1] == "table" && f.size() >= 4) {
            // <id> table <first compressed version> <hex bytes>: what Face::Table makes of these bytes
            in = unhex(f[3]);
            TSrc s = { &in, 0, 0 };
            gr_face_ops ops = { sizeof(gr_face_ops), t_get, t_rel };
            std::string out;
            {
                graphite2::Face face(&s, ops);
                graphite2::Face::Table tb(face, graphite2::TtfUtil::Tag::Silf, (graphite2::uint32)strtoul(f[2].c_str(), 0, 10));
                const graphite2::byte *p = tb;
                if (!p) out = "T R";
                else if (tb.size() == in.size() && memcmp(p, in.data(), in.size()) == 0) out = "T P";          // still the bytes it was given
                else out = "T K " + std::to_string(tb.size()) + " " + tohex(p, tb.size());
            }
            if (s.gets != s.rels) out += " LEDGER " + std::to_string(s.gets) + "/" + std::to_string(s.rels);
            printf("%s %s\n", id.c_str(), out.c_str());
            fflush(stdout); case_end(); continue;
        }
        size_t osz = strtoul(f[1].c_str(), 0, 10);
        if (f[2] == "wrap") {
            // synthetic giant block exercising the 32-bit wrap of the match length (see DESIGN.md section 7):
            // seq1: 9 literals, match dist 9 of length L1; seq2: no literal, match whose extension bytes sum to 2^32-19
            size_t slack = f.size() > 3 ? strtoul(f[3].c_str(), 0, 10) : 6;
            uint64_t ext2 = 4294967296ull - 19;                        // 15 + ext2 + 4 == 2^32
            size_t n2 = ext2 / 255, last2 = ext2 % 255;
            size_t in_est = 1 + 9 + 2 + 70000 + 1 + 2 + n2 + 1 + 1 + 5 + 16;
            size_t L1 = in_est + 64;                                    // output grows beyond the input size
            in.push_back(0x9F); for (int k = 0; k < 9; k++) in.push_back('A' + k);
            in.push_back(9); in.push_back(0);
            size_t e1 = L1 - 4 - 15; while (e1 >= 255) { in.push_back(255); e1 -= 255; } in.push_back((uint8_t)e1);
            in.push_back(0x0F); in.push_back(9); in.push_back(0);
            for (size_t k = 0; k < n2; k++) in.push_back(255);
            in.push_back((uint8_t)last2);
            in.push_back(0x50); for (int k = 0; k < 5; k++) in.push_back('z');
            osz = 9 + L1 + slack;                                      // remaining output at the wrapped match = slack
        } else in = unhex(f[2]);
        uint8_t *src = exact_copy(in);
        uint8_t *dst = (uint8_t *)malloc(osz ? osz : 1);
        memset(dst, 0xCD, osz);
        int r = lz4::decompress(src, in.size(), dst, osz);
        std::vector<uint8_t> ref; bool rok = f[2] == "wrap" ? false : ref_decode(in, ref);
        if (r < 0) printf("%s F ref=%s\n", id.c_str(), rok ? (ref.size() == osz ? "ok-samesize" : "ok") : "err");
        else if (f[2] == "wrap") printf("%s R %d (giant) ref=%s\n", id.c_str(), r, rok ? "ok" : "err");
        else printf("%s R %d %s ref=%s\n", id.c_str(), r, tohex(dst, (size_t)r).c_str(),
                    rok ? (ref.size() == (size_t)r && memcmp(ref.data(), dst, r) == 0 ? "same" : (ref.size() >= (size_t)r && memcmp(ref.data(), dst, r) == 0 ? "prefix" : "differs")) : "err");
        free(src); free(dst);
        fflush(stdout);
        case_end();
    }
    return 0;
}
