// impl_vmslot.cpp — adversarial rule actions on a real segment (component level tie for C02-C05).
// A segment is made from the case's text with a shipped font; then a list of "rules" is applied the way Pass::doAction
// does: each rule names a window of the current stream (start position, length, pre-context) and raw action bytecode, which
// is loaded by the real Machine::Code (the real loader decides whether it is acceptable) and run by the real interpreter on
// a SlotMap filled like runFSM fills it.  Deleted / copied slots are collected as findNDoRule does.  The GRAPHITE2_VERIF
// hooks record the primitive operations; the harness adds a snapshot after every rule.
//   <id> vmslot <font> <dir> <hexunits32> <rule> ...      rule = <pos>:<len>:<prectx>:<hexbytecode>
#include "inc/Main.h"
#include "inc/Code.h"
#include "inc/Rule.h"
#include "inc/Silf.h"
#include "inc/Face.h"
#include "inc/Segment.h"
#include "inc/Slot.h"
#include <graphite2/Segment.h>
#include "hcommon.h"
#include <map>

using namespace graphite2;
using namespace vm;

static bool g_trace = false;
static std::string g_events, g_refs;
static std::map<const void *, int> g_ids;
static int slot_id(const void *p) { if (!p) return -1; std::map<const void *, int>::iterator i = g_ids.find(p); if (i != g_ids.end()) return i->second; int n = (int)g_ids.size(); g_ids[p] = n; return n; }

static std::string snapshot(Segment *seg) {
    std::string out = "[";
    std::map<const Slot *, int> seen; size_t steps = 0; const Slot *prev = 0; bool bad = false;
    for (const Slot *s = seg->first(); s; prev = s, s = s->next()) {
        if (seen.count(s) || ++steps > 100000) { bad = true; break; }
        seen[s] = 1;
        if (s->prev() != prev) { bad = true; break; }
        char t[96];
        snprintf(t, sizeof t, "%s%d:%d:%d:%d:%d:", out.size() > 1 ? "," : "", slot_id(s), s->before(), s->after(), s->original(), slot_id(s->attachedTo()));
        out += t;
        size_t k = 0;
        for (const Slot *c = s->firstChild(); c; c = c->nextSibling()) { if (++k > 1000) { bad = true; break; } snprintf(t, sizeof t, "%s%d", k > 1 ? "." : "", slot_id(c)); out += t; }
    }
    if (!bad && seg->last() != prev) bad = true;
    if (!bad && seen.size() != seg->slotCount()) { char t[64]; snprintf(t, sizeof t, "]COUNT%zu/%zu", seen.size(), (size_t)seg->slotCount()); return out + t; }
    return bad ? "[BROKEN]" : out + "]";
}

extern "C" void gr_verif_event(const char *op, const void *segp, const void *a, const void *b, long x, long y) {
    if (!g_trace) return;
    std::string o(op);
    char t[160]; t[0] = 0;
    if (o == "append") snprintf(t, sizeof t, "a%d,%ld;", slot_id(a), x);
    else if (o == "insert") snprintf(t, sizeof t, "i%d,%d;", slot_id(a), slot_id(b));
    else if (o == "delete") snprintf(t, sizeof t, "d%d;", slot_id(a));
    else if (o == "putcopy") snprintf(t, sizeof t, "pc%d,%d;", slot_id(a), slot_id(b));
    else if (o == "tempcopy") snprintf(t, sizeof t, "tc%d,%d;", slot_id(a), slot_id(b));
    else if (o == "free") snprintf(t, sizeof t, "f%d;", slot_id(a));
    else if (o == "detach") snprintf(t, sizeof t, "dt%d;", slot_id(a));
    else if (o == "attach") snprintf(t, sizeof t, "at%d,%d,%ld;", slot_id(a), slot_id(b), x);
    else if (o == "assocref") { snprintf(t, sizeof t, "%s%d", g_refs.empty() ? "" : ".", slot_id(b)); g_refs += t; return; }
    else if (o == "assoc") { g_events += "as" + std::to_string(slot_id(a)) + "," + (g_refs.empty() ? "-" : g_refs) + ";"; g_refs.clear(); return; }
    else if (o == "reverse") {
        Segment *seg = (Segment *)segp; std::string bits; size_t steps = 0;
        for (Slot *s = seg->first(); s && ++steps < 100000; s = s->next()) bits += (seg->getSlotBidiClass(s) == 16) ? '1' : '0';
        g_events += "r" + (bits.empty() ? std::string("-") : bits) + ";"; return;
    }
    else if (o == "assocchars") snprintf(t, sizeof t, "ac;");
    else if (o == "linkclusters") snprintf(t, sizeof t, "lc;");
    else if (o == "passend") { g_events += "P" + snapshot((Segment *)segp) + ";"; return; }
    g_events += t;
}

static std::map<std::string, gr_face *> faces;

int main(int argc, char **argv) {
    std::string repo = argc > 1 ? argv[1] : "/repo";
    std::string line;
    while (std::getline(std::cin, line)) {
        std::vector<std::string> f = split_ws(line);
        case_begin(f.empty() ? std::string("?") : f[0]);
        if (f.size() < 5 || f[1] != "vmslot") { printf("%s BAD\n", f.empty() ? "?" : f[0].c_str()); continue; }
        const std::string &id = f[0];
        gr_face *&face = faces[f[2]];
        if (!face) face = gr_make_file_face((repo + "/tests/fonts/" + f[2]).c_str(), 0);
        if (!face) { printf("%s NOFACE\n", id.c_str()); continue; }
        int dir = atoi(f[3].c_str());
        std::vector<uint32_t> u; { const std::string &h = f[4]; if (h != "-") for (size_t i = 0; i + 8 <= h.size(); i += 8) u.push_back((uint32_t)strtoul(h.substr(i, 8).c_str(), 0, 16)); }
        u.push_back(0);
        g_events.clear(); g_ids.clear(); g_refs.clear(); g_trace = true;
        // the segment as it is between read_text and the font's own passes: the rules below stand in for the passes,
        // associateChars / linkClusters follow as in Face::runGraphite / Segment::finalise
        Segment *pseg = new Segment(u.size() - 1, face, 0, dir);
        Features *feats = face->theSill().cloneFeatures(0);
        bool okread = pseg->read_text(face, feats, gr_utf32, u.data(), u.size() - 1);
        delete feats;
        gr_segment *gseg = static_cast<gr_segment *>(pseg);
        std::string out, verdicts;
        if (!okread) { g_trace = false; delete pseg; printf("%s NULLSEG\n", id.c_str()); fflush(stdout); case_end(); continue; }
        Segment &seg = *pseg;
        const Silf &silf = *face->chooseSilf(0);
        g_events += "P" + snapshot(&seg) + ";";
        bool died = false;       // a program that does not finish makes the real engine give up the whole segment (gr_make_seg returns NULL)
        for (size_t k = 5; k < f.size() && !died; k++) {
            std::vector<std::string> a; { std::istringstream is(f[k]); std::string x; while (std::getline(is, x, ':')) a.push_back(x); }
            if (a.size() < 4) continue;
            size_t pos = strtoul(a[0].c_str(), 0, 10), len = strtoul(a[1].c_str(), 0, 10), pre = strtoul(a[2].c_str(), 0, 10);
            std::vector<uint8_t> bc = unhex(a[3]);
            uint8_t *p = exact_copy(bc);
            {
                Machine::Code prog(false, p, p + bc.size(), (uint8)pre, (uint16)len, silf, *face, PASS_TYPE_SUBSTITUTE);
                if (!prog) verdicts += " L" + std::to_string((int)prog.status());
                else {
                    Slot *s0 = seg.first();
                    for (size_t i = 0; i < pos && s0; i++) s0 = s0->next();
                    size_t avail = 0; for (Slot *t2 = s0; t2; t2 = t2->next()) avail++;
                    if (!s0 || avail < len || pre >= len) verdicts += " W";       // window does not fit the stream: not run
                    else {
                        SlotMap smap(seg, (uint8)(dir & 1), seg.slotCount() * 64 + 64);
                        Machine m(smap);
                        smap.reset(*s0, (unsigned short)pre);
                        Slot *t2 = s0; for (size_t i = 0; i < len && t2; i++, t2 = t2->next()) smap.pushSlot(t2);
                        smap.pushSlot(t2);                                          // the slot after the rule's window, as runFSM leaves it
                        slotref *map = &smap[smap.context()];
                        smap.highpassed(false);
                        int32 ret = prog.run(m, map);
                        Slot *slot_out = (m.status() == Machine::finished) ? *map : 0;
                        if (m.status() != Machine::finished) died = true;
                        else if (prog.deletes()) smap.collectGarbage(slot_out);
                        char t3[64]; snprintf(t3, sizeof t3, " R%d,%d", (int)m.status(), (int)ret); verdicts += t3;
                    }
                }
            }
            free(p);
            g_events += "P" + snapshot(&seg) + ";";
        }
        // finish as Segment::finalise / Face::runGraphite do: associate, link clusters
        seg.associateChars(0, seg.charInfoCount());
        if (seg.first() && seg.last()) seg.linkClusters(seg.first(), seg.last());
        g_trace = false;
        std::string cin = "{";
        for (unsigned k2 = 0; k2 < seg.charInfoCount(); k2++) { char t2[48]; snprintf(t2, sizeof t2, "%s%d:%d", k2 ? "," : "", seg.charinfo(k2)->before(), seg.charinfo(k2)->after()); cin += t2; }
        cin += "}";
        std::string idx = "<";
        { size_t st2 = 0; for (Slot *p2 = seg.first(); p2 && ++st2 < 100000; p2 = p2->next()) { char t2[32]; snprintf(t2, sizeof t2, "%s%u", st2 > 1 ? "," : "", p2->index()); idx += t2; } }
        idx += ">";
        // structural oracle (public API) on the resulting segment
        std::string wf = "ok";
        {
            unsigned n = gr_seg_n_slots(gseg); std::map<const gr_slot *, int> posm; std::vector<const gr_slot *> ws; size_t steps = 0;
            for (const gr_slot *q = gr_seg_first_slot(gseg); q; q = gr_slot_next_in_segment(q)) { if (posm.count(q) || ++steps > 2 * (size_t)n + 8) { wf = "cycle"; break; } posm[q] = (int)ws.size(); ws.push_back(q); }
            if (wf == "ok" && ws.size() != n) wf = "count";
            for (size_t i = 0; i < ws.size() && wf == "ok"; i++) {
                if (gr_slot_prev_in_segment(ws[i]) != (i ? ws[i - 1] : 0)) wf = "prev-not-inverse";
                size_t st = 0;
                for (const gr_slot *q = gr_slot_attached_to(ws[i]); q && wf == "ok"; q = gr_slot_attached_to(q)) { if (!posm.count(q)) wf = "parent-outside"; else if (++st > ws.size() + 2) wf = "parent-cycle"; }
                const gr_slot *par = gr_slot_attached_to(ws[i]);
                if (wf == "ok" && par) { int occ = 0; size_t s2 = 0; for (const gr_slot *c = gr_slot_first_attachment(par); c; c = gr_slot_next_sibling_attachment(c)) { if (c == ws[i]) occ++; if (++s2 > ws.size() + 2) { occ = -1; break; } } if (occ != 1) wf = "child-chain"; }
                size_t s3 = 0;
                for (const gr_slot *c = gr_slot_first_attachment(ws[i]); c && wf == "ok"; c = gr_slot_next_sibling_attachment(c)) { if (gr_slot_attached_to(c) != ws[i]) wf = "child-names-other-parent"; else if (!posm.count(c)) wf = "child-outside"; else if (++s3 > ws.size() + 2) wf = "sibling-cycle"; }
                int b = gr_slot_before(ws[i]), a2 = gr_slot_after(ws[i]), o = gr_slot_original(ws[i]); unsigned nc = gr_seg_n_cinfo(gseg);
                if (wf == "ok" && (b < 0 || a2 < 0 || o < 0 || (unsigned)b >= nc || (unsigned)a2 >= nc || (unsigned)o >= nc)) wf = "assoc-range";
            }
            // char / slot association (C05), as in impl_shape: every character covered by some slot's [before, after], every char-info naming slots of the stream
            if (wf == "ok" && !ws.empty()) {
                unsigned nc = gr_seg_n_cinfo(gseg); std::vector<char> cov(nc, 0);
                for (size_t i = 0; i < ws.size(); i++) for (int k2 = gr_slot_before(ws[i]); k2 <= gr_slot_after(ws[i]); k2++) cov[k2] = 1;
                for (unsigned k2 = 0; k2 < nc && wf == "ok"; k2++) if (!cov[k2]) wf = "char-uncovered@" + std::to_string(k2);
                for (unsigned k2 = 0; k2 < nc && wf == "ok"; k2++) {
                    const gr_char_info *ci = gr_seg_cinfo(gseg, k2); int cb = gr_cinfo_before(ci), ca = gr_cinfo_after(ci);
                    if (cb < 0 || ca < 0 || (unsigned)cb >= ws.size() || (unsigned)ca >= ws.size()) wf = "cinfo-slot-range@" + std::to_string(k2) + ":" + std::to_string(cb) + "," + std::to_string(ca);
                }
            }
        }
        // a second, independent look at one clause: a slot whose parent is IN the stream occurs exactly once in that parent's chain.  Reported
        // beside the first problem found above (WF=<first>+child-chain) so that a slot outside the stream elsewhere does not hide it.
        if (wf != "ok" && wf.compare(0, 11, "child-chain") != 0 && wf != "cycle" && wf != "count") {
            std::map<const gr_slot *, int> posm2; size_t steps2 = 0;
            for (const gr_slot *q = gr_seg_first_slot(gseg); q && ++steps2 < 100000; q = gr_slot_next_in_segment(q)) posm2[q] = 1;
            bool bad = false;
            for (std::map<const gr_slot *, int>::iterator it = posm2.begin(); it != posm2.end() && !bad; ++it) {
                const gr_slot *par = gr_slot_attached_to(it->first);
                if (!par || !posm2.count(par)) continue;
                int occ = 0; size_t s2 = 0;
                for (const gr_slot *c = gr_slot_first_attachment(par); c; c = gr_slot_next_sibling_attachment(c)) { if (c == it->first) occ++; if (++s2 > posm2.size() + 8) { occ = 1; break; } }
                if (occ != 1) bad = true;
            }
            if (bad) wf += "+child-chain";
        }
        if (died) wf = "died";          // no segment is returned: the state is not observable through the API
        printf("%s WF=%s V%s | T nc=%zu,rtl=%d %sF%s%s%s\n", id.c_str(), wf.c_str(), verdicts.c_str(), (size_t)seg.charInfoCount(), dir & 1, g_events.c_str(), snapshot(&seg).c_str(), cin.c_str(), idx.c_str());
        gr_seg_destroy(gseg);
        fflush(stdout);
        case_end();
    }
    for (std::map<std::string, gr_face *>::iterator it = faces.begin(); it != faces.end(); ++it) if (it->second) gr_face_destroy(it->second);
    return 0;
}
