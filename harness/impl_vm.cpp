// impl_vm.cpp — implementation side of the C07 component correspondence: Machine::Code loaded from raw bytes and run
// on a one-slot map (the pattern of tests/vm/basic_test.cpp), against the real Segment/Silf/Face of a shipped font.
// Built twice: against the direct-threaded and the call-threaded interpreter.
#include "inc/Main.h"
#include "inc/Code.h"
#include "inc/Rule.h"
#include "inc/Silf.h"
#include "inc/Face.h"
#include "inc/Segment.h"
#include "inc/Slot.h"
#include <graphite2/Segment.h>
#include "hcommon.h"

using namespace graphite2;
using namespace vm;

static const char *lmsg[] = { "loaded", "alloc_failed", "invalid_opcode", "unimplemented_opcode_used", "out_of_range_data", "jump_past_end",
                              "arguments_exhausted", "missing_return", "nested_context_item", "underfull_stack" };
static const char *rmsg[] = { "finished", "stack_underflow", "stack_not_empty", "stack_overflow", "slot_offset_out_bounds", "died_early" };

int main(int argc, char **argv) {
    std::string repo = argc > 1 ? argv[1] : "/repo";
    gr_face *face = gr_make_file_face((repo + "/tests/fonts/Padauk.ttf").c_str(), 0);
    if (!face) { printf("NOFACE\n"); return 2; }
    const Silf &silf = *face->chooseSilf(0);
    const char *txt = "a";
    std::string line;
    while (std::getline(std::cin, line)) {
        std::vector<std::string> f = split_ws(line);
        case_begin(f.empty() ? std::string("?") : f[0]);
        if (f.size() < 3) { printf("%s BAD\n", f.empty() ? "?" : f[0].c_str()); continue; }
        const std::string &id = f[0];
        bool constraint = f[1] == "1";
        std::vector<uint8_t> bc = unhex(f[2]);
        uint8_t *p = exact_copy(bc);
        {
            Machine::Code prog(constraint, p, p + bc.size(), 0, 0, silf, *face, PASS_TYPE_UNKNOWN);
            if (!prog) {
                if (bc.empty() || (prog.status() == Machine::Code::loaded)) printf("%s L empty\n", id.c_str());
                else printf("%s L %s\n", id.c_str(), lmsg[prog.status()]);
            } else {
                // a segment of its own for every program: arbitrary byte strings may hold slot opcodes (DELETE, INSERT ...) that edit it
                gr_segment *gseg = gr_make_seg(0, face, 0, 0, gr_utf8, txt, 1, 0);
                Segment &seg = *static_cast<Segment *>(gseg);
                SlotMap smap(seg, 0, 0);
                Machine m(smap);
                smap.pushSlot(seg.first());
                slotref *map = smap.begin();
                int32 ret = prog.run(m, map);
                printf("%s R %s %d\n", id.c_str(), rmsg[m.status()], ret);
                gr_seg_destroy(gseg);
            }
        }
        free(p);
        fflush(stdout);
        case_end();
    }
    gr_face_destroy(face);
    return 0;
}
