// impl_shape.cpp — the shaping harness (public API only, plus the optional GRAPHITE2_VERIF trace hook).
// One case per line:
//   <id> shape <font> <faceopts> <src:file|cb> <enc> <dir> <ppm|-> <feats|-> <hexunits> [<op> ...]
//     feats: fid=val,fid=val (fid hex)        ops (after shaping):
//       dump                    canonical dump of the segment (default first op)
//       break:<pos>             gr_slot_linebreak_before(slot at stream position pos of line containing it)
//       just:<line>:<width>:<flags>:<first>:<last>   justify line (index of line after cuts); first/last positions in line or -
//       again                   shape the same input once more and compare with the first dump ("same"/"DIFF")
// Output: one line:  <id> <dump> [| <op result> ...]
// A dump is:  n=<slots> nc=<cinfos> adv=<x>,<y> WF=<ok|problem> S <gid>,<index>,<before>,<after>,<orig>,<par>,<child>,<sib>,<ox>,<oy>,<ax>,<ay> ... C <char>,<base>,<before>,<after> ...
// Slots are identified by their position in the stream; -1 = none; -2 = points outside the segment's stream.
#include <graphite2/Segment.h>
#include <graphite2/Font.h>
#include "hcommon.h"
#include <map>
#include <cmath>
#define private public
#define protected public
#include "inc/Main.h"
#include "inc/Face.h"
#include "inc/Segment.h"
#include "inc/Slot.h"
#include "inc/Collider.h"
#include "inc/Rule.h"
#undef private
#undef protected

// ---------------------------------------------------------------- event trace (GRAPHITE2_VERIF hooks in the library)
static bool g_trace = false;
static std::string g_events;
static std::map<const void *, int> g_ids;
static int slot_id(const void *p) { if (!p) return -1; std::map<const void *, int>::iterator i = g_ids.find(p); if (i != g_ids.end()) return i->second; int n = (int)g_ids.size(); g_ids[p] = n; return n; }
static std::string g_refs;
static long g_loop_worst_num = 0, g_loop_worst_den = 1; static std::string g_loop_info;
static bool g_ltrace = false; static std::string g_loops, g_growth; static long g_loop_events = 0;
// the loop measure of Model/LoopModel.v: slots from the high-water mark to the end of the stream + remaining insert budget
static long loop_mu(const void *smapp) {
    const graphite2::SlotMap *sm = (const graphite2::SlotMap *)smapp;
    long d = 0; for (const graphite2::Slot *q = sm->m_highwater; q && d < 1000000; q = q->next()) d++;
    return d + (sm->m_maxSize > 0 ? sm->m_maxSize : 0);
}

static std::string snapshot(const graphite2::Segment *cseg) {
    graphite2::Segment *seg = const_cast<graphite2::Segment *>(cseg);
    // the abstraction function: walk the real links, check they are mutually consistent, print ids and the modelled fields
    using namespace graphite2;
    std::string out = "[";
    std::map<const Slot *, int> seen; size_t steps = 0; const Slot *prev = 0; bool bad = false;
    for (const Slot *s = seg->first(); s; prev = s, s = s->next()) {
        if (seen.count(s) || ++steps > 100000) { bad = true; break; }
        seen[s] = 1;
        if (s->prev() != prev) { bad = true; break; }
        char t[96];
        snprintf(t, sizeof t, "%s%d:%d:%d:%d:%d:", out.size() > 1 ? "," : "", slot_id(s), s->before(), s->after(), s->original(), slot_id(s->attachedTo()));
        out += t;
        size_t k = 0;
        for (const Slot *c = s->firstChild(); c; c = c->nextSibling()) { if (++k > 1000) { bad = true; break; } snprintf(t, sizeof t, "%s%d", k > 1 ? "." : "", slot_id(c)); out += t; }
    }
    if (!bad && seg->last() != prev) bad = true;
    if (!bad && seen.size() != seg->slotCount()) { char t[64]; snprintf(t, sizeof t, "]COUNT%zu/%zu", seen.size(), (size_t)seg->slotCount()); return out + t; }
    return bad ? "[BROKEN]" : out + "]";
}

extern "C" void gr_verif_event(const char *op, const void *segp, const void *a, const void *b, long x, long y) {
    using namespace graphite2;
    std::string o(op);
    if (o == "passloop") {                                         // C02: iterations against the bound maxRuleLoop * (slots + budget + 2)
        long slots = y / 65536, maxloop = y % 65536;
        const Segment *seg = (const Segment *)segp;
        long budget = (long)seg->charInfoCount() * 64 + 64;          // remaining insert budget is at most MAX_SEG_GROWTH_FACTOR * chars
        long bound = (maxloop ? maxloop : 1) * (slots + budget + 2);
        if (x * g_loop_worst_den > g_loop_worst_num * bound) { g_loop_worst_num = x; g_loop_worst_den = bound ? bound : 1; }
        if (x > bound) { char t[128]; snprintf(t, sizeof t, " LOOPBOUND(iter=%ld,slots=%ld,maxloop=%ld)", x, slots, maxloop); g_loop_info += t; }
        return;
    }
    if (g_ltrace) {
        char t2[96]; t2[0] = 0;
        if (o == "passstart") snprintf(t2, sizeof t2, "/%ld,%ld:", y, loop_mu(b));
        else if (o == "passiter") { if (++g_loop_events < 200000) snprintf(t2, sizeof t2, "%ld,%ld,%ld,%d;", loop_mu(b), x, y / 65536, a ? 1 : 0); }
        else if (o == "insert") g_growth += 'i';
        else if (o == "delete") g_growth += 'd';
        else if (o == "passend") g_growth += 'p';
        g_loops += t2;
    }
    if (!g_trace) return;
    char t[160]; t[0] = 0;
    if (o == "append") snprintf(t, sizeof t, "a%d,%ld;", slot_id(a), x);
    else if (o == "insert") snprintf(t, sizeof t, "i%d,%d;", slot_id(a), slot_id(b));
    else if (o == "delete") snprintf(t, sizeof t, "d%d;", slot_id(a));
    else if (o == "putcopy") snprintf(t, sizeof t, "pc%d,%d;", slot_id(a), slot_id(b));
    else if (o == "tempcopy") snprintf(t, sizeof t, "tc%d,%d;", slot_id(a), slot_id(b));
    else if (o == "free") snprintf(t, sizeof t, "f%d;", slot_id(a));
    else if (o == "detach") snprintf(t, sizeof t, "dt%d;", slot_id(a));
    else if (o == "attach") snprintf(t, sizeof t, "at%d,%d,%ld;", slot_id(a), slot_id(b), x);
    else if (o == "assocref") { snprintf(t, sizeof t, "%s%d", g_refs.empty() ? "" : ".", slot_id(b)); g_refs += t; return; }
    else if (o == "assoc") { g_events += "as" + std::to_string(slot_id(a)) + "," + (g_refs.empty() ? "-" : g_refs) + ";"; g_refs.clear(); return; }
    else if (o == "reverse") {
        Segment *seg = (Segment *)segp;
        std::string bits; size_t steps = 0;
        for (const Slot *s = seg->first(); s && ++steps < 100000; s = s->next()) bits += (seg->getSlotBidiClass(const_cast<Slot *>(s)) == 16) ? '1' : '0';
        g_events += "r" + (bits.empty() ? std::string("-") : bits) + ";"; return;
    }
    else if (o == "assocchars") snprintf(t, sizeof t, "ac;");
    else if (o == "linkclusters") snprintf(t, sizeof t, "lc;");
    else if (o == "passend") { g_events += "P" + snapshot((const Segment *)segp) + ";"; return; }
    else if (o == "linebreak") snprintf(t, sizeof t, "lb%d;", slot_id(a));
    else if (o == "setends") snprintf(t, sizeof t, "se%d,%d;", slot_id(a), slot_id(b));
    else if (o == "addlineend") snprintf(t, sizeof t, "ae%d,%d,%ld;", slot_id(a), slot_id(b), x);
    else if (o == "dellineend") snprintf(t, sizeof t, "de%d;", slot_id(a));
    g_events += t;
}

struct FaceKey { std::string font; unsigned opts; bool cb; bool operator<(const FaceKey &o) const { return font != o.font ? font < o.font : opts != o.opts ? opts < o.opts : cb < o.cb; } };
struct FileTables { std::vector<uint8_t> data; int gets, rels; };
static std::map<FaceKey, gr_face *> faces;
static std::map<std::string, FileTables *> files;
static std::string repo;

static const void *cb_get(const void *h, unsigned int tag, size_t *len) {
    FileTables *ft = (FileTables *)h;
    const uint8_t *d = ft->data.data();
    if (ft->data.size() < 12) return 0;
    unsigned n = (d[4] << 8) | d[5];
    for (unsigned i = 0; i < n && 12 + 16 * (i + 1) <= ft->data.size(); i++) {
        const uint8_t *r = d + 12 + 16 * i;
        unsigned t = (r[0] << 24) | (r[1] << 16) | (r[2] << 8) | r[3];
        if (t == tag) {
            size_t off = ((size_t)r[8] << 24) | (r[9] << 16) | (r[10] << 8) | r[11], l = ((size_t)r[12] << 24) | (r[13] << 16) | (r[14] << 8) | r[15];
            if (off + l > ft->data.size()) return 0;
            uint8_t *p = (uint8_t *)malloc(l ? l : 1);        // exact-size copy: reads past the table are visible to ASan
            memcpy(p, d + off, l);
            *len = l; ft->gets++;
            return p;
        }
    }
    return 0;
}
static void cb_rel(const void *h, const void *p) { ((FileTables *)h)->rels++; free((void *)p); }

static gr_face *get_face(const std::string &font, unsigned opts, bool cb) {
    FaceKey k = { font, opts, cb };
    std::map<FaceKey, gr_face *>::iterator it = faces.find(k);
    if (it != faces.end()) return it->second;
    std::string path = font[0] == '/' ? font : repo + "/tests/fonts/" + font;
    gr_face *f = 0;
    if (!cb) f = gr_make_file_face(path.c_str(), opts);
    else {
        FileTables *&ft = files[path];
        if (!ft) {
            ft = new FileTables; ft->gets = ft->rels = 0;
            FILE *fp = fopen(path.c_str(), "rb");
            if (fp) { fseek(fp, 0, SEEK_END); long n = ftell(fp); fseek(fp, 0, SEEK_SET); ft->data.resize(n); if (fread(ft->data.data(), 1, n, fp) != (size_t)n) ft->data.clear(); fclose(fp); }
        }
        gr_face_ops ops = { sizeof(gr_face_ops), cb_get, cb_rel };
        f = gr_make_face_with_ops(ft, &ops, opts);
    }
    faces[k] = f;
    return f;
}

static std::string fnum(float v) {
    char t[48];
    if (std::isnan(v)) return "nan";
    if (std::isinf(v)) return v > 0 ? "inf" : "-inf";
    snprintf(t, sizeof t, "%.9g", (double)v);
    return t;
}

struct Walk { std::vector<const gr_slot *> s; std::map<const gr_slot *, int> pos; std::string problem; };

static void walk_from(const gr_slot *first, size_t guard, Walk &w) {
    size_t steps = 0;
    for (const gr_slot *p = first; p; p = gr_slot_next_in_segment(p)) {
        if (w.pos.count(p)) { w.problem = "cycle"; break; }
        if (++steps > guard) { w.problem = "overlong"; break; }
        w.pos[p] = (int)w.s.size(); w.s.push_back(p);
    }
}
static int posof(const Walk &w, const gr_slot *p) { if (!p) return -1; std::map<const gr_slot *, int>::const_iterator i = w.pos.find(p); return i == w.pos.end() ? -2 : i->second; }

// structural well-formedness of a chain (C03 / C19 clauses)
static std::string chain_wf(const Walk &w, const gr_slot *expect_last) {
    if (!w.problem.empty()) return w.problem;
    for (size_t i = 0; i < w.s.size(); i++) {
        const gr_slot *pv = gr_slot_prev_in_segment(w.s[i]);
        if (pv != (i ? w.s[i - 1] : 0)) return "prev-not-inverse@" + std::to_string(i);
    }
    if (expect_last && (w.s.empty() || w.s.back() != expect_last)) return "last-mismatch";
    return "ok";
}

static bool g_adv_noface = false;      // ppm suffix f: slot advances are asked for with face = NULL (documented as legal for an unhinted font)
static std::string dump(gr_segment *seg, const gr_face *face_, const gr_font *font, bool full_check) {
    const gr_face *face = face_;
    std::string out; char t[160];
    unsigned n = gr_seg_n_slots(seg), nc = gr_seg_n_cinfo(seg);
    Walk w; walk_from(gr_seg_first_slot(seg), 2 * (size_t)n + 8, w);
    std::string wf = full_check ? chain_wf(w, gr_seg_last_slot(seg)) : "ok";
    if (full_check && wf == "ok") {
        if (w.s.size() != n) wf = "count:" + std::to_string(w.s.size()) + "!=" + std::to_string(n);
        if (n == 0 && (gr_seg_first_slot(seg) || gr_seg_last_slot(seg))) wf = "empty-but-linked";
    }
    if (full_check && wf == "ok") {                       // index permutation
        std::vector<char> seen(w.s.size(), 0);
        for (size_t i = 0; i < w.s.size(); i++) { unsigned ix = gr_slot_index(w.s[i]); if (ix >= w.s.size() || seen[ix]) { wf = "index-not-permutation@" + std::to_string(i); break; } seen[ix] = 1; }
    }
    if (full_check && wf == "ok") {                       // attachment forest (C04)
        size_t bases = 0;
        for (size_t i = 0; i < w.s.size() && wf == "ok"; i++) {
            const gr_slot *p = w.s[i]; size_t steps = 0;
            for (const gr_slot *q = gr_slot_attached_to(p); q; q = gr_slot_attached_to(q)) {
                if (posof(w, q) < 0) { wf = "parent-outside@" + std::to_string(i); break; }
                if (++steps > w.s.size() + 2) { wf = "parent-cycle@" + std::to_string(i); break; }
            }
            const gr_slot *par = gr_slot_attached_to(p);
            if (wf != "ok") break;
            if (par) {                                    // occurs exactly once in its parent's chain
                int occ = 0; size_t st = 0;
                for (const gr_slot *c = gr_slot_first_attachment(par); c; c = gr_slot_next_sibling_attachment(c)) { if (c == p) occ++; if (++st > w.s.size() + 2) { occ = -1; break; } }
                if (occ != 1) wf = "child-chain@" + std::to_string(i) + ":" + std::to_string(occ);
            } else bases++;
            size_t st = 0;
            for (const gr_slot *c = gr_slot_first_attachment(p); c; c = gr_slot_next_sibling_attachment(c)) {
                if (gr_slot_attached_to(c) != p) { wf = "child-names-other-parent@" + std::to_string(i); break; }
                if (posof(w, c) < 0) { wf = "child-outside@" + std::to_string(i); break; }
                if (++st > w.s.size() + 2) { wf = "sibling-cycle@" + std::to_string(i); break; }
            }
        }
        if (wf == "ok" && !w.s.empty()) {                 // the bases form one sibling chain containing each base exactly once
            // (graphical order: for right-to-left segments the chain starts at the last base of the stream)
            std::map<const gr_slot *, int> pred;
            for (size_t i = 0; i < w.s.size(); i++) if (!gr_slot_attached_to(w.s[i])) {
                const gr_slot *nb = gr_slot_next_sibling_attachment(w.s[i]);
                if (nb) pred[nb]++;
            }
            const gr_slot *head = 0; size_t heads = 0;
            for (size_t i = 0; i < w.s.size(); i++) if (!gr_slot_attached_to(w.s[i]) && !pred.count(w.s[i])) { head = w.s[i]; heads++; }
            if (heads != 1) wf = "base-chain-heads:" + std::to_string(heads);
            std::map<const gr_slot *, int> seen; size_t cnt = 0, st = 0;
            for (const gr_slot *b = head; b && wf == "ok"; b = gr_slot_next_sibling_attachment(b)) {
                if (gr_slot_attached_to(b)) { wf = "base-chain-has-attached"; break; }
                if (posof(w, b) < 0) { wf = "base-chain-outside"; break; }
                if (seen[b]++) { wf = "base-chain-repeats"; break; }
                cnt++; if (++st > w.s.size() + 2) { wf = "base-chain-cycle"; break; }
            }
            if (wf == "ok" && cnt != bases) wf = "base-chain:" + std::to_string(cnt) + "!=" + std::to_string(bases);
        }
    }
    if (full_check && wf == "ok") {                       // char/slot association (C05)
        std::vector<char> cov(nc, 0);
        for (size_t i = 0; i < w.s.size() && wf == "ok"; i++) {
            int b = gr_slot_before(w.s[i]), a = gr_slot_after(w.s[i]), o = gr_slot_original(w.s[i]);
            if (b < 0 || a < 0 || o < 0 || (unsigned)b >= nc || (unsigned)a >= nc || (unsigned)o >= nc) { wf = "assoc-range@" + std::to_string(i); break; }
            for (int k = b; k <= a; k++) cov[k] = 1;
        }
        if (wf == "ok" && !w.s.empty()) for (unsigned k = 0; k < nc; k++) if (!cov[k]) { wf = "char-uncovered@" + std::to_string(k); break; }
        if (wf == "ok" && !w.s.empty()) for (unsigned k = 0; k < nc; k++) {
            const gr_char_info *c = gr_seg_cinfo(seg, k);
            int cb = gr_cinfo_before(c), ca = gr_cinfo_after(c);
            if (cb < 0 || ca < 0 || (unsigned)cb >= w.s.size() || (unsigned)ca >= w.s.size()) { wf = "cinfo-slot-range@" + std::to_string(k) + ":" + std::to_string(cb) + "," + std::to_string(ca); break; }
        }
    }
    if (full_check && wf == "ok") {
        for (size_t i = 0; i < w.s.size(); i++) {
            float v[4] = { gr_slot_origin_X(w.s[i]), gr_slot_origin_Y(w.s[i]), gr_slot_advance_X(w.s[i], g_adv_noface ? 0 : face, font), gr_slot_advance_Y(w.s[i], g_adv_noface ? 0 : face, font) };
            for (int k = 0; k < 4; k++) if (!std::isfinite(v[k])) { wf = "non-finite@" + std::to_string(i); break; }
        }
        if (!std::isfinite(gr_seg_advance_X(seg)) || !std::isfinite(gr_seg_advance_Y(seg))) wf = "non-finite-advance";
    }
    if (full_check && wf == "ok") {                       // glyph ids name real glyphs (C03, on fonts satisfying the premise)
        unsigned ng = gr_face_n_glyphs(face);
        for (size_t i = 0; i < w.s.size(); i++) if (gr_slot_gid(w.s[i]) >= ng) { wf = "gid-out-of-range@" + std::to_string(i); break; }
    }
    snprintf(t, sizeof t, "n=%u nc=%u adv=%s,%s WF=", n, nc, fnum(gr_seg_advance_X(seg)).c_str(), fnum(gr_seg_advance_Y(seg)).c_str());
    out += t; out += wf;
    snprintf(t, sizeof t, " fdir=%d", (int)(static_cast<const graphite2::Segment *>(seg)->silf()->dir() & 1)); out += t;
    out += " S";
    for (size_t i = 0; i < w.s.size(); i++) {
        const gr_slot *p = w.s[i];
        snprintf(t, sizeof t, " %u,%u,%d,%d,%d,%d,%d,%d,%s,%s,%s,%s", gr_slot_gid(p), gr_slot_index(p), gr_slot_before(p), gr_slot_after(p), gr_slot_original(p),
                 posof(w, gr_slot_attached_to(p)), posof(w, gr_slot_first_attachment(p)), posof(w, gr_slot_next_sibling_attachment(p)),
                 fnum(gr_slot_origin_X(p)).c_str(), fnum(gr_slot_origin_Y(p)).c_str(), fnum(gr_slot_advance_X(p, g_adv_noface ? 0 : face, font)).c_str(), fnum(gr_slot_advance_Y(p, g_adv_noface ? 0 : face, font)).c_str());
        out += t;
    }
    out += " C";
    for (unsigned k = 0; k < nc; k++) {
        const gr_char_info *c = gr_seg_cinfo(seg, k);
        snprintf(t, sizeof t, " %x,%u,%d,%d", gr_cinfo_unicode_char(c), (unsigned)gr_cinfo_base(c), gr_cinfo_before(c), gr_cinfo_after(c));
        out += t;
    }
    return out;
}

static std::vector<uint32_t> parse_units(const std::string &h, int enc) {
    std::vector<uint32_t> out; if (h == "-") return out;
    int w = enc == 8 ? 2 : enc == 16 ? 4 : 8;
    for (size_t i = 0; i + w <= h.size(); i += w) out.push_back((uint32_t)strtoul(h.substr(i, w).c_str(), 0, 16));
    return out;
}
template <typename U> static void *mkbuf(const std::vector<uint32_t> &u) {
    U *p = (U *)malloc((u.size() + 1) * sizeof(U));
    for (size_t i = 0; i < u.size(); i++) p[i] = (U)u[i];
    p[u.size()] = 0;
    return p;
}

struct Line { std::vector<const gr_slot *> s; };

// snapshot of all lines (chains from the recorded line heads) plus the segment's first/last, for the C19 correspondence
static std::string line_snapshot(gr_segment *seg, const std::vector<Line> &lines) {
    std::string out = "L[";
    for (size_t l = 0; l < lines.size(); l++) {
        if (l) out += "|";
        if (lines[l].s.empty()) continue;
        size_t steps = 0; bool first = true;
        for (const gr_slot *p = lines[l].s[0]; p; p = gr_slot_next_in_segment(p)) {
            if (++steps > 4096) { out += "...CYCLE"; break; }
            out += (first ? "" : ",") + std::to_string(slot_id(p)); first = false;
        }
    }
    out += "]" + std::to_string(slot_id(gr_seg_first_slot(seg))) + "," + std::to_string(slot_id(gr_seg_last_slot(seg))) + ";";
    return out;
}

// pointer-level snapshot for Model/LinePtrModel.v: next.prev of every slot (by id), then the segment's first,last
static std::string ptr_snapshot(gr_segment *seg, const std::vector<const gr_slot *> &all) {
    std::string out = "Q";
    for (size_t i = 0; i < all.size(); i++)
        out += (i ? "," : "") + std::to_string(slot_id(gr_slot_next_in_segment(all[i]))) + "." + std::to_string(slot_id(gr_slot_prev_in_segment(all[i])));
    out += "/" + std::to_string(slot_id(gr_seg_first_slot(seg))) + "." + std::to_string(slot_id(gr_seg_last_slot(seg))) + ";";
    return out;
}

int main(int argc, char **argv) {
    repo = argc > 1 ? argv[1] : "/repo";
    std::string line;
    while (std::getline(std::cin, line)) {
        std::vector<std::string> f = split_ws(line);
        case_begin(f.empty() ? std::string("?") : f[0]);
        if (f.size() >= 20 && f[1] == "coll2") {
            // <id> coll2 <font> <hex utf32 text> <target idx> <neighbour idx> <dir> Lbx Lby Ltx Lty ox oy sx sy nx ny <margin> <isAfter> <sameCluster>
            // the resolved-verdict clause of C17 on the real ShiftCollider: target and neighbour are two slots of a live segment placed at
            // (1000,0)+offset and (1000+nx, ny); initSlot, mergeSlot, resolve; the boxes are printed for the geometric oracle
            using namespace graphite2;
            const std::string &id = f[0];
            gr_face *face = get_face(f[2], 0, false);
            if (!face) { printf("%s NOFACE\n", id.c_str()); fflush(stdout); case_end(); continue; }
            std::vector<uint32_t> u = parse_units(f[3], 32);
            void *buf = mkbuf<uint32_t>(u);
            int dir = atoi(f[6].c_str());
            gr_segment *seg = gr_make_seg(0, face, 0, 0, gr_utf32, buf, u.size(), dir);
            free(buf);
            Segment *gs = static_cast<Segment *>(seg);
            Slot *tg = 0, *nb = 0;
            if (seg) { int k = 0, a = atoi(f[4].c_str()), b = atoi(f[5].c_str()); for (Slot *q = gs->first(); q; q = q->next(), ++k) { if (k == a) tg = q; if (k == b) nb = q; } }
            if (!seg || !tg || !nb || tg == nb || !gs->collisionInfo(tg)) { if (seg) gr_seg_destroy(seg); printf("%s COLL2 none\n", id.c_str()); fflush(stdout); case_end(); continue; }
            float v[10]; for (int i = 0; i < 10; i++) v[i] = (float)atof(f[7 + i].c_str());
            float margin = (float)atof(f[17].c_str()); bool isAfter = f[18] == "1", sameCluster = f[19] == "1";
            const GlyphCache &gc = gs->getFace()->glyphs();
            std::string out = id + " COLL2";
            if (!gc.check(tg->gid()) || !gc.check(nb->gid())) { gr_seg_destroy(seg); printf("%s COLL2 nobox\n", id.c_str()); fflush(stdout); case_end(); continue; }
            SlotCollision *ct = gs->collisionInfo(tg), *cn = gs->collisionInfo(nb);
            ct->setSeqClass(0); ct->setSeqProxClass(0); ct->setSeqOrder(0);          // no sequence-order regions (outside the clause)
            tg->m_position = Position(1000, 0) + Position(v[4], v[5]);      // (Slot::origin(pos) would add the slot's shift)
            nb->m_position = Position(1000 + v[8], v[9]);
            ShiftCollider sc(0);
            bool ok = sc.initSlot(gs, tg, Rect(Position(v[0], v[1]), Position(v[2], v[3])), margin, 1.f, Position(v[6], v[7]), Position(v[4], v[5]), dir, 0);
            bool hasCol = false, merged = false, isCol = true; Position r(0, 0);
            if (ok) { merged = sc.mergeSlot(gs, nb, cn, Position(0, 0), isAfter, sameCluster, hasCol, false, 0); if (merged) r = sc.resolve(gs, isCol, 0); }
            char t5[600];
            const BBox &tb = gc.getBoundingBBox(tg->gid()); const SlantBox &ts = gc.getBoundingSlantBox(tg->gid());
            snprintf(t5, sizeof t5, " init=%d merged=%d hasCol=%d isCol=%d shift=%s,%s T %s,%s,%s,%s,%s,%s,%s,%s N", ok, merged, hasCol, isCol, fnum(r.x).c_str(), fnum(r.y).c_str(),
                     fnum(tb.xi).c_str(), fnum(tb.yi).c_str(), fnum(tb.xa).c_str(), fnum(tb.ya).c_str(), fnum(ts.si).c_str(), fnum(ts.di).c_str(), fnum(ts.sa).c_str(), fnum(ts.da).c_str());
            out += t5;
            unsigned ng = nb->gid(); int nsub = gc.numSubBounds(ng);
            for (int i = 0; i < 4; i++) { out += " Z" + std::to_string(i) + "[" + fnum(sc._ranges[i]._pos) + "," + fnum(sc._ranges[i]._posm) + "]"; for (Zones::const_iterator e = sc._ranges[i].begin(); e != sc._ranges[i].end(); ++e) out += "(" + fnum(e->x) + "," + fnum(e->xm) + ")"; }
            out += " nsub=" + std::to_string(nsub);
            for (int j = -1; j < nsub; j++) {                                        // the main octabox first, then the sub-boxes (which stand for the glyph when it has any)
                const BBox &b = j < 0 ? gc.getBoundingBBox(ng) : gc.getSubBoundingBBox(ng, (uint8)j); const SlantBox &sb = j < 0 ? gc.getBoundingSlantBox(ng) : gc.getSubBoundingSlantBox(ng, (uint8)j);
                snprintf(t5, sizeof t5, " %s,%s,%s,%s,%s,%s,%s,%s", fnum(b.xi).c_str(), fnum(b.yi).c_str(), fnum(b.xa).c_str(), fnum(b.ya).c_str(), fnum(sb.si).c_str(), fnum(sb.di).c_str(), fnum(sb.sa).c_str(), fnum(sb.da).c_str());
                out += t5;
            }
            gr_seg_destroy(seg);
            printf("%s\n", out.c_str()); fflush(stdout); case_end();
            continue;
        }
        if (f.size() >= 17 && f[1] == "coll") {
            // <id> coll <font> <hex utf32 text> <slot index> <dir> Lbx Lby Ltx Lty ox oy sx sy <axis> <end 0|1> <margin>
            // the limit clause of C17 on the real ShiftCollider: initSlot with the given limit / offset / shift, then every position
            // except a sliver at one end of one axis is excluded through the Zones API and resolve() has to answer from there
            using namespace graphite2;
            const std::string &id = f[0];
            gr_face *face = get_face(f[2], 0, false);
            if (!face) { printf("%s NOFACE\n", id.c_str()); fflush(stdout); case_end(); continue; }
            std::vector<uint32_t> u = parse_units(f[3], 32);
            void *buf = mkbuf<uint32_t>(u);
            int dir = atoi(f[5].c_str());
            gr_segment *seg = gr_make_seg(0, face, 0, 0, gr_utf32, buf, u.size(), dir);
            free(buf);
            Segment *gs = static_cast<Segment *>(seg);
            Slot *sl = 0;
            if (seg) { int k = atoi(f[4].c_str()); for (Slot *q = gs->first(); q; q = q->next(), --k) if (k == 0) { sl = q; break; } }
            if (!seg || !sl || !gs->collisionInfo(sl)) { if (seg) gr_seg_destroy(seg); printf("%s COLL none\n", id.c_str()); fflush(stdout); case_end(); continue; }
            float v[8]; for (int i = 0; i < 8; i++) v[i] = (float)atof(f[6 + i].c_str());
            int axis = atoi(f[14].c_str()) & 3, end = atoi(f[15].c_str()) & 1; float margin = (float)atof(f[16].c_str());
            ShiftCollider sc(0);
            bool ok = sc.initSlot(gs, sl, Rect(Position(v[0], v[1]), Position(v[2], v[3])), margin, 1.f, Position(v[6], v[7]), Position(v[4], v[5]), dir, 0);
            std::string out = id + " COLL init=" + (ok ? "1" : "0") + " R";
            if (ok) {
                for (int i = 0; i < 4; i++) out += " " + fnum(sc._ranges[i]._pos) + "," + fnum(sc._ranges[i]._posm);
                float mn = sc._ranges[axis]._pos, mx = sc._ranges[axis]._posm, w = (mx - mn) / 8;
                for (int i = 0; i < 4; i++) if (i != axis) sc._ranges[i].exclude(-1e9f, 1e9f);
                if (end) sc._ranges[axis].exclude(mn - 1, mx - w); else sc._ranges[axis].exclude(mn + w, mx + 1);
                bool isCol = true;
                Position r = sc.resolve(gs, isCol, 0);
                out += " | shift=" + fnum(r.x) + "," + fnum(r.y) + " isCol=" + (isCol ? "1" : "0");
            }
            gr_seg_destroy(seg);
            printf("%s\n", out.c_str()); fflush(stdout); case_end();
            continue;
        }
        if (f.size() >= 14 && f[1] == "kern") {
            // <id> kern <font> <hex utf32 text> <slot index> <dir> Lbx Lby Ltx Lty ox oy <neighbour dx> <margin>
            // the limit clause of C17 on the real KernCollider, driven as Pass::resolveKern drives it: initSlot with the given limit rectangle and
            // the offset carried over from earlier passes, mergeSlot for every following slot (each displaced by dx), resolve
            using namespace graphite2;
            const std::string &id = f[0];
            gr_face *face = get_face(f[2], 0, false);
            if (!face) { printf("%s NOFACE\n", id.c_str()); fflush(stdout); case_end(); continue; }
            std::vector<uint32_t> u = parse_units(f[3], 32);
            void *buf = mkbuf<uint32_t>(u);
            int dir = atoi(f[5].c_str());
            gr_segment *seg = gr_make_seg(0, face, 0, 0, gr_utf32, buf, u.size(), dir);
            free(buf);
            Segment *gs = static_cast<Segment *>(seg);
            Slot *sl = 0;
            if (seg) { int k = atoi(f[4].c_str()); for (Slot *q = gs->first(); q; q = q->next(), --k) if (k == 0) { sl = q; break; } }
            if (!seg || !sl || !gs->collisionInfo(sl) || sl->attachedTo()) { if (seg) gr_seg_destroy(seg); printf("%s KERN none\n", id.c_str()); fflush(stdout); case_end(); continue; }
            float v[6]; for (int i = 0; i < 6; i++) v[i] = (float)atof(f[6 + i].c_str());
            float dx = (float)atof(f[12].c_str()), margin = (float)atof(f[13].c_str());
            const GlyphCache &gc = gs->getFace()->glyphs();
            const Rect &bbb = gs->theGlyphBBoxTemporary(sl->gid());
            float ymax = sl->origin().y + bbb.tr.y, ymin = sl->origin().y + bbb.bl.y;
            KernCollider kc(0);
            bool init = false, collides = false, ok = true;
            for (Slot *nb = sl->next(); nb && ok; nb = nb->next()) {
                if (!gc.check(nb->gid())) break;
                if (nb->isChildOf(sl)) continue;
                const Rect &bb = gs->theGlyphBBoxTemporary(nb->gid());
                if (bb.bl.y == 0.f && bb.tr.y == 0.f) break;
                if (!init) { ok = kc.initSlot(gs, sl, Rect(Position(v[0], v[1]), Position(v[2], v[3])), margin, Position(0, 0), Position(v[4], v[5]), dir, ymin, ymax, 0); init = true; if (!ok) break; }
                collides |= kc.mergeSlot(gs, nb, Position(dx, 0), 0, dir, 0);
            }
            std::string out = id + " KERN init=" + (init && ok ? "1" : "0") + " collides=" + (collides ? "1" : "0");
            if (init && ok && collides) { Position mv = kc.resolve(gs, sl, dir, 0); out += " kern=" + fnum(mv.x) + "," + fnum(mv.y); }
            gr_seg_destroy(seg);
            printf("%s\n", out.c_str()); fflush(stdout); case_end();
            continue;
        }
        if (f.size() >= 6 && f[1] == "synth") {
            // <id> synth <font> <rtl> <ppm,ppm,...|-> <par,shx,shy,advx,advy,atx,aty,wx,wy,just> ...
            // final positioning on a hand-built attachment forest (C15): the slots of an N-character segment get the given
            // positioning inputs and attachment links (Slot::attachTo / Slot::child), then Segment::positionSlots runs with
            // font = NULL, with unhinted fonts of 2 and 3 times the units per em, and with each requested ppm
            using namespace graphite2;
            const std::string &id = f[0];
            gr_face *face = get_face(f[2], 0, false);
            if (!face) { printf("%s NOFACE\n", id.c_str()); fflush(stdout); case_end(); continue; }
            bool rtl = atoi(f[3].c_str()) & 1;
            size_t n = f.size() - 5;
            std::vector<uint32_t> u(n + 1, 0x41); u[n] = 0;
            Segment *pseg = new Segment(n, face, 0, rtl ? 1 : 0);
            Features *feats = face->theSill().cloneFeatures(0);
            bool okread = pseg->read_text(face, feats, gr_utf32, u.data(), n);
            delete feats;
            std::vector<Slot *> sl; for (Slot *q = pseg->first(); q; q = q->next()) sl.push_back(q);
            if (!okread || sl.size() != n) { delete pseg; printf("%s NULLSEG\n", id.c_str()); fflush(stdout); case_end(); continue; }
            std::vector<std::vector<double> > in(n);
            for (size_t i = 0; i < n; i++) { std::istringstream is(f[5 + i]); std::string x; while (std::getline(is, x, ',')) in[i].push_back(atof(x.c_str())); in[i].resize(10, 0.0); }
            for (size_t i = 0; i < n; i++) {
                Slot *q = sl[i]; const std::vector<double> &v = in[i];
                q->m_shift = Position((float)v[1], (float)v[2]); q->m_advance = Position((float)v[3], (float)v[4]);
                q->m_attach = Position((float)v[5], (float)v[6]); q->m_with = Position((float)v[7], (float)v[8]); q->m_just = (float)v[9];
                int par = (int)v[0];
                if (par >= 0 && (size_t)par < n && (size_t)par != i) { q->attachTo(sl[par]); sl[par]->child(q); }
            }
            unsigned upem = face->glyphs().unitsPerEm();
            Walk w; walk_from(gr_seg_first_slot(static_cast<gr_segment *>(pseg)), 2 * n + 8, w);
            // a fresh segment's slots start at (0,0); slots beyond the depth cut-off keep that
#define RESETPOS for (size_t i = 0; i < n; i++) sl[i]->m_position = Position(0, 0)
            RESETPOS;
            Position a1 = pseg->positionSlots(0, 0, 0, rtl, true);
            std::string x = id + " SYNTH | X rtl=" + std::to_string((int)rtl) + " dir=" + std::to_string((int)rtl) + " upem=" + std::to_string(upem) + " adv=" + fnum(a1.x) + "," + fnum(a1.y) + " S";
            for (size_t i = 0; i < n; i++) {
                const Slot *q = sl[i]; char t4[400];
                snprintf(t4, sizeof t4, " %d,%d,%d,%s,%s,%s,%s,%s,%s,%s,%s,%s,0,0,0,%s,%s", posof(w, static_cast<const gr_slot *>(q->attachedTo())), posof(w, static_cast<const gr_slot *>(q->firstChild())), posof(w, static_cast<const gr_slot *>(q->nextSibling())),
                         fnum(q->m_shift.x).c_str(), fnum(q->m_shift.y).c_str(), fnum(q->m_advance.x).c_str(), fnum(q->m_advance.y).c_str(), fnum(q->m_attach.x).c_str(), fnum(q->m_attach.y).c_str(),
                         fnum(q->m_with.x).c_str(), fnum(q->m_with.y).c_str(), fnum(q->m_just).c_str(), fnum(q->origin().x).c_str(), fnum(q->origin().y).c_str());
                x += t4;
            }
            std::string a0 = " | A";
            for (size_t i = 0; i < n; i++) a0 += " " + fnum(gr_slot_advance_X(static_cast<const gr_slot *>(sl[i]), face, 0)) + "," + fnum(gr_slot_advance_Y(static_cast<const gr_slot *>(sl[i]), face, 0));
            for (int kk = 2; kk <= 3; kk++) {
                gr_font *fk = gr_make_font((float)(kk * upem), face);
                RESETPOS;
                Position ak = pseg->positionSlots(fk, 0, 0, rtl, true);
                x += " K" + std::to_string(kk) + " adv=" + fnum(ak.x) + "," + fnum(ak.y);
                for (size_t i = 0; i < n; i++) x += " " + fnum(sl[i]->origin().x) + "," + fnum(sl[i]->origin().y) + ",0";
                gr_font_destroy(fk);
            }
            x += a0;
            if (f[4] != "-") {
                std::istringstream is(f[4]); std::string ps;
                while (std::getline(is, ps, ',')) {
                    gr_font *fk = gr_make_font((float)atof(ps.c_str()), face);
                    RESETPOS;
                Position ak = pseg->positionSlots(fk, 0, 0, rtl, true);
                    x += " | P " + ps + " adv=" + fnum(ak.x) + "," + fnum(ak.y);
                    for (size_t i = 0; i < n; i++) x += " " + fnum(sl[i]->origin().x) + "," + fnum(sl[i]->origin().y) + "," + fnum(gr_slot_advance_X(static_cast<const gr_slot *>(sl[i]), face, fk)) + "," + fnum(gr_slot_advance_Y(static_cast<const gr_slot *>(sl[i]), face, fk));
                    gr_font_destroy(fk);
                }
            }
            delete pseg;
            printf("%s\n", x.c_str()); fflush(stdout); case_end();
            continue;
        }
        if (f.size() < 11 || f[1] != "shape") { printf("%s BAD\n", f.empty() ? "?" : f[0].c_str()); continue; }
        const std::string &id = f[0];
        unsigned opts = atoi(f[3].c_str());
        bool cb = f[4] == "cb";
        int enc = atoi(f[5].c_str()), dir = atoi(f[6].c_str());
        gr_face *face = get_face(f[2], opts, cb);
        if (!face) { printf("%s NOFACE\n", id.c_str()); fflush(stdout); continue; }
        // <ppm>f: gr_make_font, and the slot advances of the dump are asked for with face = NULL;
        // <ppm>: gr_make_font; <ppm>n: gr_make_font_with_ops with an application handle and no callbacks; <ppm>a: gr_make_font_with_advance_fn
        // with a handle and a NULL function -- all three are unhinted fonts
        static char font_handle[256];
        gr_font *font = 0;
        g_adv_noface = false;
        if (f[7] != "-") {
            const float ppmv = (float)atof(f[7].c_str());
            const char suf = f[7][f[7].size() - 1];
            g_adv_noface = (suf == 'f');
            if (suf == 'n') { gr_font_ops fops = { sizeof(gr_font_ops), 0, 0 }; font = gr_make_font_with_ops(ppmv, font_handle, &fops, face); }
            else if (suf == 'a') font = gr_make_font_with_advance_fn(ppmv, font_handle, 0, face);
            else font = gr_make_font(ppmv, face);
        }
        gr_feature_val *fv = 0;
        if (f[8] != "-") {
            fv = gr_face_featureval_for_lang(face, 0);
            std::istringstream is(f[8]); std::string kv;
            while (std::getline(is, kv, ',')) {
                size_t eq = kv.find('=');
                if (eq == std::string::npos) continue;
                const gr_feature_ref *fr = gr_face_find_fref(face, (gr_uint32)strtoul(kv.substr(0, eq).c_str(), 0, 16));
                if (fr) gr_fref_set_feature_value(fr, (gr_uint16)atoi(kv.substr(eq + 1).c_str()), fv);
            }
        }
        std::vector<uint32_t> u = parse_units(f[9], enc);
        void *buf = enc == 8 ? mkbuf<uint8_t>(u) : enc == 16 ? mkbuf<uint16_t>(u) : mkbuf<uint32_t>(u);
        gr_encform ef = enc == 8 ? gr_utf8 : enc == 16 ? gr_utf16 : gr_utf32;
        size_t nchars = gr_count_unicode_characters(ef, buf, 0, 0);
        if (f[10] == "nchars+") nchars += 3;
        bool want_trace = false;
        for (size_t k = 10; k < f.size(); k++) if (f[k] == "trace") want_trace = true;
        g_ltrace = false; for (size_t k = 10; k < f.size(); k++) if (f[k] == "ltrace") g_ltrace = true;
        g_loops.clear(); g_growth.clear(); g_loop_events = 0;
        g_events.clear(); g_ids.clear(); g_refs.clear(); g_loop_info.clear(); g_trace = want_trace;
        gr_segment *seg = gr_make_seg(font, face, 0, fv, ef, buf, nchars, dir);
        g_trace = false; g_ltrace = false;
        std::string out;
        if (!seg) out = "NULLSEG" + (g_loops.empty() && g_growth.empty() ? std::string() : " | L " + (g_loops.empty() ? std::string("-") : g_loops) + " | G " + std::to_string(nchars) + ":" + g_growth);
        else {
            std::string first_dump = dump(seg, face, font, true);
            out = first_dump;
            // lines: initially one
            std::vector<Line> lines(1);
            { Walk w; walk_from(gr_seg_first_slot(seg), 2 * (size_t)gr_seg_n_slots(seg) + 8, w); lines[0].s = w.s; }
            bool jtrace = false; std::vector<const gr_slot *> all_slots;
            for (size_t k = 10; k < f.size(); k++) if (f[k] == "jtrace") jtrace = true;
            std::string jev;
            if (jtrace) {          // ids in stream order, so that the line model can be initialised from the first snapshot
                g_ids.clear();
                for (size_t i = 0; i < lines[0].s.size(); i++) slot_id(lines[0].s[i]);
                jev = line_snapshot(seg, lines);
                // which slots reverseSlots treats as marks (bidi class 16), by id; then the initial links
                graphite2::Segment *gs0 = static_cast<graphite2::Segment *>(seg);
                jev += "M";
                for (size_t i = 0; i < lines[0].s.size(); i++) jev += gs0->getSlotBidiClass(const_cast<graphite2::Slot *>(static_cast<const graphite2::Slot *>(lines[0].s[i]))) == 16 ? '1' : '0';
                jev += ";" + ptr_snapshot(seg, all_slots = lines[0].s);
                // the direction word and what justify's control depends on: D<m_dir>,<font dir>,<bidi pass setting present>,<justification passes present>
                jev += "D" + std::to_string((int)gs0->dir()) + "," + std::to_string((int)gs0->silf()->dir()) + "," + std::to_string(gs0->silf()->bidiPass() != gs0->silf()->numPasses() ? 1 : 0)
                     + "," + std::to_string(gs0->silf()->justificationPass() != gs0->silf()->positionPass() ? 1 : 0) + "," + std::to_string(gs0->silf()->flags() & 1) + ";";
            }
            for (size_t k = 10; k < f.size(); k++) {
                const std::string &op = f[k];
                if (op == "dump" || op == "nchars+" || op == "-" || op == "jtrace") continue;
                if (op == "ltrace") { out += " | L " + (g_loops.empty() ? std::string("-") : g_loops) + " | G " + std::to_string(gr_seg_n_cinfo(seg)) + ":" + g_growth; continue; }
                if (op == "colldump") {       // collision attributes per slot (C17): limit rectangle, accumulated offset, flags
                    graphite2::Segment *gs = static_cast<graphite2::Segment *>(seg);
                    std::string x = " | K";
                    size_t st3 = 0;
                    for (const gr_slot *q = gr_seg_first_slot(seg); q && ++st3 < 100000; q = gr_slot_next_in_segment(q)) {
                        graphite2::SlotCollision *cl = gs->collisionInfo(static_cast<const graphite2::Slot *>(q));
                        if (!cl) { x += " -"; continue; }
                        x += " " + fnum(cl->limit().bl.x) + "," + fnum(cl->limit().bl.y) + "," + fnum(cl->limit().tr.x) + "," + fnum(cl->limit().tr.y) + "," + fnum(cl->offset().x) + "," + fnum(cl->offset().y) + "," + std::to_string((int)cl->flags());
                    }
                    out += x; continue;
                }
                if (op == "udump") {          // the first two user-defined slot attributes of every slot (C06)
                    std::string x = " | U"; size_t st4 = 0;
                    for (const gr_slot *q = gr_seg_first_slot(seg); q && ++st4 < 100000; q = gr_slot_next_in_segment(q))
                        x += " " + std::to_string(gr_slot_attr(q, seg, gr_slatUserDefn, 0)) + "," + std::to_string(gr_slot_attr(q, seg, gr_slatUserDefn, 1));
                    out += x; continue;
                }
                if (op == "redump") { out += " | " + dump(seg, face, font, true); continue; }     // the dump again, after the preceding ops
                if (op == "posdump") {
                    // inputs and outputs of final positioning, for the C15 correspondence (Model/PosModel.v): design-unit inputs of every
                    // slot, the origins with font = NULL, and the origins / advance with unhinted fonts of 2 and 3 times the units per em
                    graphite2::Segment *gs = static_cast<graphite2::Segment *>(seg);
                    Walk w; walk_from(gr_seg_first_slot(seg), 2 * (size_t)gr_seg_n_slots(seg) + 8, w);
                    bool rtl = gs->silf()->dir() & 1;
                    unsigned upem = gs->getFace()->glyphs().unitsPerEm();
                    std::string x = " | X rtl=" + std::to_string((int)rtl) + " dir=" + std::to_string(dir & 1) + " upem=" + std::to_string(upem) + " adv=" + fnum(gr_seg_advance_X(seg)) + "," + fnum(gr_seg_advance_Y(seg)) + " S";
                    for (size_t i = 0; i < w.s.size(); i++) {
                        const graphite2::Slot *sl = static_cast<const graphite2::Slot *>(w.s[i]);
                        float cx = 0, cy = 0; int ckern = 0;
                        graphite2::SlotCollision *coll = gs->collisionInfo(sl);
                        if (coll) { cx = coll->offset().x; cy = coll->offset().y; ckern = (coll->flags() & graphite2::SlotCollision::COLL_KERN) ? 1 : 0; }
                        char t4[400];
                        snprintf(t4, sizeof t4, " %d,%d,%d,%s,%s,%s,%s,%s,%s,%s,%s,%s,%s,%s,%d,%s,%s", posof(w, gr_slot_attached_to(w.s[i])), posof(w, gr_slot_first_attachment(w.s[i])),
                                 posof(w, gr_slot_next_sibling_attachment(w.s[i])), fnum(sl->m_shift.x).c_str(), fnum(sl->m_shift.y).c_str(), fnum(sl->m_advance.x).c_str(), fnum(sl->m_advance.y).c_str(),
                                 fnum(sl->m_attach.x).c_str(), fnum(sl->m_attach.y).c_str(), fnum(sl->m_with.x).c_str(), fnum(sl->m_with.y).c_str(), fnum(sl->m_just).c_str(),
                                 fnum(cx).c_str(), fnum(cy).c_str(), ckern, fnum(gr_slot_origin_X(w.s[i])).c_str(), fnum(gr_slot_origin_Y(w.s[i])).c_str());
                        x += t4;
                    }
                    for (int kk = 2; kk <= 3; kk++) {
                        gr_font *fk = gr_make_font((float)(kk * upem), face);
                        gr_segment *sk = gr_make_seg(fk, face, 0, fv, ef, buf, nchars, dir);
                        x += " K" + std::to_string(kk);
                        if (sk) {
                            x += " adv=" + fnum(gr_seg_advance_X(sk)) + "," + fnum(gr_seg_advance_Y(sk));
                            for (const gr_slot *q = gr_seg_first_slot(sk); q; q = gr_slot_next_in_segment(q)) x += " " + fnum(gr_slot_origin_X(q)) + "," + fnum(gr_slot_origin_Y(q)) + "," + std::to_string(gr_slot_gid(q));
                            gr_seg_destroy(sk);
                        }
                        gr_font_destroy(fk);
                    }
                    out += x;
                    continue;
                }
                if (op == "trace") {
                    const graphite2::Segment *gs = static_cast<const graphite2::Segment *>(seg);
                    std::string cin = "{";
                    for (unsigned k2 = 0; k2 < gr_seg_n_cinfo(seg); k2++) { char t2[48]; snprintf(t2, sizeof t2, "%s%d:%d", k2 ? "," : "", gr_cinfo_before(gr_seg_cinfo(seg, k2)), gr_cinfo_after(gr_seg_cinfo(seg, k2))); cin += t2; }
                    cin += "}";
                    std::string idx = "<";
                    { size_t st2 = 0; for (const gr_slot *p2 = gr_seg_first_slot(seg); p2 && ++st2 < 100000; p2 = gr_slot_next_in_segment(p2)) { char t2[32]; snprintf(t2, sizeof t2, "%s%u", st2 > 1 ? "," : "", gr_slot_index(p2)); idx += t2; } }
                    idx += ">";
                    out += " | T nc=" + std::to_string(gr_seg_n_cinfo(seg)) + ",rtl=" + std::to_string(dir & 1) + " " + (g_events.empty() ? std::string("-") : g_events) + "F" + snapshot(gs) + cin + idx;
                    continue;
                }
                if (op == "again") {
                    gr_segment *s2 = gr_make_seg(font, face, 0, fv, ef, buf, nchars, dir);
                    out += std::string(" | again ") + (s2 && dump(s2, face, font, true) == first_dump ? "same" : "DIFF");
                    if (s2) gr_seg_destroy(s2);
                } else if (op.compare(0, 6, "break:") == 0) {
                    // break before the slot at global original position p (position in the uncut stream)
                    size_t p = strtoul(op.c_str() + 6, 0, 10), acc = 0, li = 0;
                    for (; li < lines.size(); li++) { if (p < acc + lines[li].s.size()) break; acc += lines[li].s.size(); }
                    if (li >= lines.size() || p == acc) { out += " | break skip"; continue; }     // already a line start
                    size_t off = p - acc;
                    g_events.clear(); g_trace = jtrace;
                    gr_slot_linebreak_before(const_cast<gr_slot *>(lines[li].s[off]));
                    g_trace = false;
                    Line tail; tail.s.assign(lines[li].s.begin() + off, lines[li].s.end());
                    lines[li].s.resize(off);
                    lines.insert(lines.begin() + li + 1, tail);
                    if (jtrace) jev += g_events + line_snapshot(seg, lines) + ptr_snapshot(seg, all_slots);
                    out += " | break ok";
                } else if (op.compare(0, 5, "just:") == 0) {
                    std::vector<std::string> a; { std::istringstream is(op.substr(5)); std::string x; while (std::getline(is, x, ':')) a.push_back(x); }
                    size_t li = strtoul(a[0].c_str(), 0, 10);
                    if (li >= lines.size() || lines[li].s.empty()) { out += " | just skip"; continue; }
                    double width = atof(a[1].c_str()); int flags = atoi(a[2].c_str());
                    const gr_slot *pf = (a.size() > 3 && a[3] != "-") ? lines[li].s[std::min((size_t)atoi(a[3].c_str()), lines[li].s.size() - 1)] : 0;
                    const gr_slot *pl = (a.size() > 4 && a[4] != "-") ? lines[li].s[std::min((size_t)atoi(a[4].c_str()), lines[li].s.size() - 1)] : 0;
                    std::vector<unsigned> gids; for (size_t i = 0; i < lines[li].s.size(); i++) gids.push_back(gr_slot_gid(lines[li].s[i]));
                    g_events.clear(); g_trace = jtrace;
                    float r = gr_seg_justify(seg, lines[li].s[0], font, width, (gr_justFlags)flags, pf, pl);
                    g_trace = false;
                    if (jtrace) jev += "j" + std::to_string(li) + ";" + g_events + line_snapshot(seg, lines) + ptr_snapshot(seg, all_slots);
                    // every line must still be a well-formed chain with the same slots in the same order
                    std::string verdict = "ok";
                    for (size_t l2 = 0; l2 < lines.size() && verdict == "ok"; l2++) {
                        if (lines[l2].s.empty()) continue;
                        Walk w; walk_from(lines[l2].s[0], 2 * lines[l2].s.size() + 8, w);
                        std::string c = chain_wf(w, 0);
                        if (c != "ok") verdict = "line" + std::to_string(l2) + ":" + c;
                        else if (w.s != lines[l2].s) verdict = "line" + std::to_string(l2) + ":slots-changed(" + std::to_string(w.s.size()) + "/" + std::to_string(lines[l2].s.size()) + ")";
                        else if (gr_slot_prev_in_segment(lines[l2].s[0])) verdict = "line" + std::to_string(l2) + ":first-has-prev";
                        for (size_t i = 0; i < w.s.size() && verdict == "ok"; i++)
                            if (!std::isfinite(gr_slot_origin_X(w.s[i])) || !std::isfinite(gr_slot_origin_Y(w.s[i]))) verdict = "line" + std::to_string(l2) + ":non-finite-origin";
                    }
                    std::string gsame = "g=";
                    { bool same = true; for (size_t i = 0; i < lines[li].s.size(); i++) if (gr_slot_gid(lines[li].s[i]) != gids[i]) same = false; gsame += same ? "same" : "changed"; }
                    if (!std::isfinite(r)) verdict = "non-finite-width";
                    out += " | just " + verdict + " " + gsame + " w=" + fnum(r);
                } else out += " | ?";
            }
            if (jtrace) out += " | J " + jev;
            gr_seg_destroy(seg);
        }
        free(buf);
        if (fv) gr_featureval_destroy(fv);
        if (font) gr_font_destroy(font);
        printf("%s %s%s\n", id.c_str(), out.c_str(), g_loop_info.c_str());
        fflush(stdout);
        case_end();
    }
    for (std::map<FaceKey, gr_face *>::iterator it = faces.begin(); it != faces.end(); ++it) if (it->second) gr_face_destroy(it->second);
    int bal = 0;
    for (std::map<std::string, FileTables *>::iterator it = files.begin(); it != files.end(); ++it) { bal += it->second->gets - it->second->rels; delete it->second; }
    if (bal) { fprintf(stderr, "TABLE-LEAK %d\n", bal); return 3; }
    return 0;
}
