// impl_thr.cpp — C09: N threads shape on one shared face and shared fonts.  Built with ThreadSanitizer.
//   <id> thr <font> <opts> <nthreads> <reps> <ppm|-> <hexutf32:dir> ...
// The reference results are computed single-threaded on a SEPARATE face, so the shared face is cold when the threads start.
// Every thread shapes every text (rotated by its index) <reps> times, queries the whole segment, feature values and labels,
// and destroys what it made.  Output: <id> THR <ok|DIFF...> calls_after_make=<n> gets=<n> rels=<n>
#include <graphite2/Segment.h>
#include <graphite2/Font.h>
#include <pthread.h>
#include <atomic>
#include <map>
#include <cmath>
#include "hcommon.h"

static std::string repo;
struct Src { std::vector<uint8_t> data; std::map<uint32_t, std::pair<size_t, size_t> > dir; std::atomic<long> gets, rels, after; std::atomic<bool> made; };
static void parse_dir(Src &s) {
    if (s.data.size() < 12) return;
    unsigned n = (s.data[4] << 8) | s.data[5];
    for (unsigned i = 0; i < n && 12 + 16 * (i + 1) <= s.data.size(); i++) {
        const uint8_t *e = &s.data[12 + 16 * i];
        uint32_t tag = (e[0] << 24) | (e[1] << 16) | (e[2] << 8) | e[3];
        size_t off = ((size_t)e[8] << 24) | (e[9] << 16) | (e[10] << 8) | e[11], len = ((size_t)e[12] << 24) | (e[13] << 16) | (e[14] << 8) | e[15];
        if (off <= s.data.size() && len <= s.data.size() - off) s.dir[tag] = std::make_pair(off, len);
    }
}
static const void *src_get(const void *h, unsigned int tag, size_t *len) {
    Src *s = (Src *)h;
    if (s->made.load()) s->after++;
    std::map<uint32_t, std::pair<size_t, size_t> >::iterator i = s->dir.find(tag);
    if (i == s->dir.end()) { *len = 0; return 0; }
    s->gets++;
    uint8_t *p = (uint8_t *)malloc(i->second.second ? i->second.second : 1);
    memcpy(p, s->data.data() + i->second.first, i->second.second);
    *len = i->second.second;
    return p;
}
static void src_rel(const void *h, const void *p) { ((Src *)h)->rels++; free((void *)p); }

static std::string fnum(float v) { char t[48]; if (std::isnan(v)) return "nan"; snprintf(t, sizeof t, "%.9g", (double)v); return t; }
static std::string shape(const gr_face *face, const gr_font *font, const std::vector<uint32_t> &u, int dir) {
    std::vector<uint32_t> b(u); b.push_back(0);
    gr_feature_val *fv = gr_face_featureval_for_lang(face, 0);
    gr_segment *seg = gr_make_seg(font, face, 0, fv, gr_utf32, b.data(), u.size(), dir);
    std::string out;
    if (!seg) out = "NULLSEG";
    else {
        out = std::to_string(gr_seg_n_slots(seg)) + "/" + fnum(gr_seg_advance_X(seg));
        size_t st = 0;
        for (const gr_slot *p = gr_seg_first_slot(seg); p && ++st < 100000; p = gr_slot_next_in_segment(p))
            out += ";" + std::to_string(gr_slot_gid(p)) + "," + fnum(gr_slot_origin_X(p)) + "," + fnum(gr_slot_origin_Y(p)) + "," + fnum(gr_slot_advance_X(p, face, font)) + "," + std::to_string(gr_slot_before(p)) + "," + std::to_string(gr_slot_after(p))
                   + "," + (gr_slot_attached_to(p) ? "a" : "b");
        for (unsigned i = 0; i < gr_seg_n_cinfo(seg); i++) out += ":" + std::to_string(gr_cinfo_before(gr_seg_cinfo(seg, i))) + "." + std::to_string(gr_cinfo_after(gr_seg_cinfo(seg, i)));
        gr_seg_destroy(seg);
    }
    // feature and label queries on the shared face
    unsigned nf = gr_face_n_fref(face);
    out += "|f" + std::to_string(nf) + "l" + std::to_string(gr_face_n_languages(face));
    if (nf) {
        const gr_feature_ref *fr = gr_face_fref(face, (gr_uint16)(u.size() % nf));
        gr_uint16 lang = 0x409; gr_uint32 len = 0;
        void *l = gr_fref_label(fr, &lang, gr_utf8, &len);
        out += "L" + std::to_string(len) + (l ? std::string((const char *)l, len < 8 ? len : 8) : std::string("-"));
        if (l) gr_label_destroy(l);
        out += "v" + std::to_string(gr_fref_feature_value(fr, fv));
    }
    gr_featureval_destroy(fv);
    return out;
}

struct Job { const gr_face *face; const gr_font *font; const std::vector<std::vector<uint32_t> > *texts; const std::vector<int> *dirs; const std::vector<std::string> *ref; int idx, reps; std::string diff; };
static void *worker(void *a) {
    Job *j = (Job *)a;
    size_t n = j->texts->size();
    for (int r = 0; r < j->reps; r++)
        for (size_t k = 0; k < n; k++) {
            size_t t = (k + j->idx) % n;
            std::string got = shape(j->face, j->font, (*j->texts)[t], (*j->dirs)[t]);
            if (got != (*j->ref)[t] && j->diff.empty()) j->diff = "DIFF(thread" + std::to_string(j->idx) + ",text" + std::to_string(t) + "):" + got.substr(0, 80) + "!=" + (*j->ref)[t].substr(0, 80);
        }
    return 0;
}

int main(int argc, char **argv) {
    repo = argc > 1 ? argv[1] : "/repo";
    std::string line;
    while (std::getline(std::cin, line)) {
        std::vector<std::string> f = split_ws(line);
        case_begin(f.empty() ? std::string("?") : f[0], 120);
        if (f.size() < 8 || f[1] != "thr") { printf("%s BAD\n", f.empty() ? "?" : f[0].c_str()); fflush(stdout); case_end(); continue; }
        unsigned opts = atoi(f[3].c_str()); int nt = atoi(f[4].c_str()), reps = atoi(f[5].c_str());
        std::vector<std::vector<uint32_t> > texts; std::vector<int> dirs;
        for (size_t k = 7; k < f.size(); k++) {
            size_t c = f[k].find(':'); std::string h = f[k].substr(0, c); std::vector<uint32_t> u;
            for (size_t i = 0; i + 8 <= h.size(); i += 8) u.push_back((uint32_t)strtoul(h.substr(i, 8).c_str(), 0, 16));
            texts.push_back(u); dirs.push_back(c == std::string::npos ? 0 : atoi(f[k].substr(c + 1).c_str()));
        }
        std::string path = f[2][0] == '/' ? f[2] : repo + "/tests/fonts/" + f[2];
        Src ref_src, src;
        FILE *fp = fopen(path.c_str(), "rb");
        if (fp) { fseek(fp, 0, SEEK_END); long n = ftell(fp); fseek(fp, 0, SEEK_SET); src.data.resize(n > 0 ? n : 0); if (n > 0 && fread(src.data.data(), 1, n, fp) != (size_t)n) src.data.clear(); fclose(fp); }
        ref_src.data = src.data; parse_dir(src); parse_dir(ref_src);
        src.gets = src.rels = src.after = 0; src.made = false; ref_src.gets = ref_src.rels = ref_src.after = 0; ref_src.made = false;
        gr_face_ops ops = { sizeof(gr_face_ops), src_get, src_rel };
        gr_face *rface = gr_make_face_with_ops(&ref_src, &ops, opts);
        gr_face *face = gr_make_face_with_ops(&src, &ops, opts);
        if (!rface || !face) { if (rface) gr_face_destroy(rface); if (face) gr_face_destroy(face); printf("%s THR NOFACE\n", f[0].c_str()); fflush(stdout); case_end(); continue; }
        src.made = true;
        gr_font *rfont = f[6] == "-" ? 0 : gr_make_font((float)atof(f[6].c_str()), rface);
        gr_font *font = f[6] == "-" ? 0 : gr_make_font((float)atof(f[6].c_str()), face);
        std::vector<std::string> ref;
        for (size_t t = 0; t < texts.size(); t++) ref.push_back(shape(rface, rfont, texts[t], dirs[t]));
        std::vector<Job> jobs(nt); std::vector<pthread_t> th(nt);
        for (int i = 0; i < nt; i++) { Job j = { face, font, &texts, &dirs, &ref, i, reps, "" }; jobs[i] = j; }
        for (int i = 0; i < nt; i++) pthread_create(&th[i], 0, worker, &jobs[i]);
        for (int i = 0; i < nt; i++) pthread_join(th[i], 0);
        std::string verdict = "ok";
        for (int i = 0; i < nt; i++) if (!jobs[i].diff.empty()) { verdict = jobs[i].diff; break; }
        long after = src.after.load();
        if (font) gr_font_destroy(font);
        if (rfont) gr_font_destroy(rfont);
        gr_face_destroy(face); gr_face_destroy(rface);
        printf("%s THR %s calls_after_make=%ld gets=%ld rels=%ld\n", f[0].c_str(), verdict.c_str(), after, src.gets.load(), src.rels.load());
        fflush(stdout); case_end();
    }
    return 0;
}
