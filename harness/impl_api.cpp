// impl_api.cpp — API-sequence harness for C16 (borrow discipline), C08 (history independence) and C10 (face options).
// Two kinds of case:
//
//  <id> api <font> <opts> <cb|cbnorel|file> <corrupt|-> <op> ...
//      one face; tables come from callbacks that hand out a fresh malloc'd copy per get_table and free it at release_table
//      (so a use after release is an ASan error) and log every call.  corrupt: comma list of  hideall | featid:<k>:<hex> | drop:<tag> | trunc:<tag>:<len> |
//      set:<tag>:<off>:<byte>.   ops (slots k are small integers):
//        seg:<k>:<enc>:<dir>:<fontslot|->:<fvslot|->:<hexunits>   gr_make_seg into slot k (an old segment there is destroyed first)
//        dseg:<k>   font:<k>:<ppm>   hfont:<k>:<ppm> (advance callback)   dfont:<k>   fv:<k>:<langhex>   setfv:<k>:<featindex>:<value>   dfv:<k>
//        label:<featindex>:<lang>:<enc>   vlabel:<featindex>:<setting>:<lang>:<enc>   info   just:<k>:<width>   break:<k>:<pos>
//      at the end every remaining segment, font and feature value is destroyed, then the face.
//      Output:  <id> API face=<ok|NULL> | <result per op> ... | LOG <G<tag>:<n> R<n> M F D ...> | LEAK=<0|1>
//
//  <id> table <has_rel> <nvars> <op> ...       component test of graphite2::Face::Table
//        n:<dst>:<a|b|p|z1|z0>   dst = Face::Table(face, tag[, version]) on absent / failing CheckTable / plain / lz4 ok / lz4 bad data
//        m:<dst>:<src>           dst = std::move(src)          c:<dst>   dst = Face::Table()
//      Output:  <id> T <state> | <state> ...   with <state> = lent ids (sorted) ; per variable: 0 (null), A<rank> (a lent buffer) or H (a heap copy)
#include <iterator>
#include <string>
#include <vector>
#include <map>
#include <set>
#include <sstream>
#include <iostream>
#include <cmath>
#include <algorithm>
#include <graphite2/Segment.h>
#include <graphite2/Font.h>
#define private public
#define protected public
#include "inc/Main.h"
#include "inc/Face.h"
#include "inc/GlyphCache.h"
#include "inc/GlyphFace.h"
#include "inc/FileFace.h"
#include "inc/Sparse.h"
#include "inc/Silf.h"
#include "inc/Error.h"
#include <unistd.h>
#undef private
#undef protected
#include "hcommon.h"
#if defined(__has_feature)
#if __has_feature(address_sanitizer)
#define HAVE_LSAN 1
#endif
#endif
#if defined(__SANITIZE_ADDRESS__)
#define HAVE_LSAN 1
#endif
#ifdef HAVE_LSAN
extern "C" int __lsan_do_recoverable_leak_check(void);
#endif

static std::string repo;
static std::string fnum(float v) { char t[48]; if (std::isnan(v)) return "nan"; if (std::isinf(v)) return v > 0 ? "inf" : "-inf"; snprintf(t, sizeof t, "%.9g", (double)v); return t; }
static std::vector<std::string> colon(const std::string &s) { std::vector<std::string> a; std::istringstream is(s); std::string x; while (std::getline(is, x, ':')) a.push_back(x); return a; }

// ------------------------------------------------------------------ table source with logging
struct Source {
    std::vector<uint8_t> data;                       // the font file (possibly corrupted)
    std::map<uint32_t, std::pair<size_t, size_t> > dir;
    std::set<uint32_t> dropped;
    std::map<const void *, long> live;               // buffer -> id
    std::vector<void *> kept;                        // norel mode: freed by the harness at the end
    long next;
    std::string log;
    bool norel;
    bool misuse;
};
static std::string tagstr(uint32_t t) { char b[5] = { char(t >> 24), char(t >> 16), char(t >> 8), char(t), 0 }; for (int i = 0; i < 4; i++) if (b[i] < 33 || b[i] > 126) b[i] = '?'; return b; }
static uint32_t tagof(const std::string &s) { uint32_t t = 0; for (int i = 0; i < 4; i++) t = (t << 8) | (uint8_t)(i < (int)s.size() ? s[i] : ' '); return t; }
static void parse_dir(Source &s) {
    s.dir.clear();
    if (s.data.size() < 12) return;
    unsigned n = (s.data[4] << 8) | s.data[5];
    for (unsigned i = 0; i < n && 12 + 16 * (i + 1) <= s.data.size(); i++) {
        const uint8_t *e = &s.data[12 + 16 * i];
        uint32_t tag = (e[0] << 24) | (e[1] << 16) | (e[2] << 8) | e[3];
        size_t off = ((size_t)e[8] << 24) | (e[9] << 16) | (e[10] << 8) | e[11], len = ((size_t)e[12] << 24) | (e[13] << 16) | (e[14] << 8) | e[15];
        if (off <= s.data.size() && len <= s.data.size() - off) s.dir[tag] = std::make_pair(off, len);
    }
}
static const void *src_get(const void *h, unsigned int tag, size_t *len) {
    Source *s = (Source *)h;
    std::map<uint32_t, std::pair<size_t, size_t> >::iterator i = s->dir.find(tag);
    if (i == s->dir.end() || s->dropped.count(tag)) { *len = 0; s->log += " N" + tagstr(tag); return 0; }
    size_t n = i->second.second;
    uint8_t *p = (uint8_t *)malloc(n ? n : 1);
    memcpy(p, s->data.data() + i->second.first, n);
    *len = n;
    long id = s->next++;
    s->live[p] = id;
    s->log += " G" + tagstr(tag) + ":" + std::to_string(id);
    return p;
}
static void src_rel(const void *h, const void *p) {
    Source *s = (Source *)h;
    std::map<const void *, long>::iterator i = s->live.find(p);
    if (i == s->live.end()) { s->log += " R?"; s->misuse = true; return; }
    s->log += " R" + std::to_string(i->second);
    s->live.erase(i);
    free((void *)p);
}

// the advance callback of 'hfont' fonts: depends on the font size and the glyph id only
static float hinted_advance(const void *h, gr_uint16 gid) { return *(const float *)h * (0.25f + float(gid % 11) * 0.07f); }

// ------------------------------------------------------------------ dumps
static std::string seg_dump(gr_segment *seg, const gr_face *face, const gr_font *font) {
    if (!seg) return "NULLSEG";
    std::string out = "n=" + std::to_string(gr_seg_n_slots(seg)) + ",nc=" + std::to_string(gr_seg_n_cinfo(seg)) + ",adv=" + fnum(gr_seg_advance_X(seg)) + "/" + fnum(gr_seg_advance_Y(seg)) + ",S";
    std::map<const gr_slot *, int> pos; int k = 0; size_t steps = 0;
    for (const gr_slot *p = gr_seg_first_slot(seg); p && ++steps < 100000; p = gr_slot_next_in_segment(p)) pos[p] = k++;
    steps = 0;
    for (const gr_slot *p = gr_seg_first_slot(seg); p && ++steps < 100000; p = gr_slot_next_in_segment(p)) {
        const gr_slot *par = gr_slot_attached_to(p);
        char t[256];
        snprintf(t, sizeof t, ";%u,%d,%d,%d,%u,%d,%s,%s,%s,%s", gr_slot_gid(p), gr_slot_before(p), gr_slot_after(p), gr_slot_original(p), gr_slot_index(p), par ? pos[par] : -1,
                 fnum(gr_slot_origin_X(p)).c_str(), fnum(gr_slot_origin_Y(p)).c_str(), fnum(gr_slot_advance_X(p, face, font)).c_str(), fnum(gr_slot_advance_Y(p, face, font)).c_str());
        out += t;
    }
    out += ",C";
    for (unsigned i = 0; i < gr_seg_n_cinfo(seg); i++) {
        const gr_char_info *c = gr_seg_cinfo(seg, i);
        char t[96]; snprintf(t, sizeof t, ";%x,%zu,%d,%d,%d", gr_cinfo_unicode_char(c), gr_cinfo_base(c), gr_cinfo_before(c), gr_cinfo_after(c), gr_cinfo_break_weight(c));
        out += t;
    }
    return out;
}
static std::string face_info(const gr_face *face) {
    std::string out = "ng=" + std::to_string(gr_face_n_glyphs(face)) + ",nf=" + std::to_string(gr_face_n_fref(face)) + ",nl=" + std::to_string(gr_face_n_languages(face)) + ",F";
    for (unsigned i = 0; i < gr_face_n_fref(face); i++) {
        const gr_feature_ref *fr = gr_face_fref(face, (gr_uint16)i);
        out += ";" + std::to_string(gr_fref_id(fr)) + "," + std::to_string(gr_fref_n_values(fr));
        for (unsigned j = 0; j < gr_fref_n_values(fr) && j < 6; j++) out += "," + std::to_string(gr_fref_value(fr, (gr_uint16)j));
    }
    out += ",L";
    for (unsigned i = 0; i < gr_face_n_languages(face) && i < 40; i++) out += ";" + std::to_string(gr_face_lang_by_index(face, (gr_uint16)i));
    out += ",U";
    static const unsigned probes[] = { 0x20, 0x41, 0x61, 0x3b1, 0x627, 0x915, 0x1000, 0x1031, 0x25cc, 0xffff, 0x10000, 0x1d510, 0x10ffff, 0xe000, 0xf130 };
    for (size_t i = 0; i < sizeof probes / sizeof probes[0]; i++) out += gr_face_is_char_supported(face, probes[i], 0) ? "1" : "0";
    const gr_faceinfo *fi = gr_face_info(face, 0);
    if (fi) out += ",I" + std::to_string(fi->upem) + "/" + std::to_string(fi->has_bidi_pass) + "/" + std::to_string(fi->justifies);
    return out;
}
static std::string label_str(void *lbl, gr_encform enc, gr_uint32 len) {
    if (!lbl) return "NULL";
    std::string out; char t[16];
    for (gr_uint32 i = 0; i < len && i < 64; i++) {
        unsigned u = enc == gr_utf8 ? ((uint8_t *)lbl)[i] : enc == gr_utf16 ? ((uint16_t *)lbl)[i] : ((uint32_t *)lbl)[i];
        snprintf(t, sizeof t, "%s%x", i ? "." : "", u); out += t;
    }
    return out.empty() ? "empty" : out;
}
static std::vector<uint32_t> parse_units(const std::string &h, int enc) {
    std::vector<uint32_t> out; if (h == "-") return out;
    int w = enc == 8 ? 2 : enc == 16 ? 4 : 8;
    for (size_t i = 0; i + w <= h.size(); i += w) out.push_back((uint32_t)strtoul(h.substr(i, w).c_str(), 0, 16));
    return out;
}
template <typename U> static void *mkbuf(const std::vector<uint32_t> &u) { U *p = (U *)malloc((u.size() + 1) * sizeof(U)); for (size_t i = 0; i < u.size(); i++) p[i] = (U)u[i]; p[u.size()] = 0; return p; }

static void run_api(const std::vector<std::string> &f) {
    const std::string &id = f[0];
    unsigned opts = atoi(f[3].c_str());
    bool file = f[4] == "file";
    Source src; src.next = 0; src.norel = f[4] == "cbnorel"; src.misuse = false;
    std::string path = f[2][0] == '/' ? f[2] : repo + "/tests/fonts/" + f[2];
    if (!file) {
        FILE *fp = fopen(path.c_str(), "rb");
        if (fp) { fseek(fp, 0, SEEK_END); long n = ftell(fp); fseek(fp, 0, SEEK_SET); src.data.resize(n > 0 ? n : 0); if (n > 0 && fread(src.data.data(), 1, n, fp) != (size_t)n) src.data.clear(); fclose(fp); }
        parse_dir(src);
        if (f[5] != "-") {
            std::istringstream is(f[5]); std::string c;
            while (std::getline(is, c, ',')) {
                std::vector<std::string> a = colon(c);
                if (a[0] == "drop" && a.size() >= 2) src.dropped.insert(tagof(a[1]));
                else if (a[0] == "trunc" && a.size() >= 3) { uint32_t t = tagof(a[1]); if (src.dir.count(t)) src.dir[t].second = std::min(src.dir[t].second, (size_t)strtoul(a[2].c_str(), 0, 10)); }
                else if ((a[0] == "hideall" || (a[0] == "featid" && a.size() >= 3)) && src.dir.count(tagof("Feat")) && src.dir[tagof("Feat")].second >= 12) {
                    // hideall: every feature of the Feat table gets the hidden flag; featid:<k>:<hex>: feature k gets another id
                    uint8_t *ft = src.data.data() + src.dir[tagof("Feat")].first; size_t fl = src.dir[tagof("Feat")].second;
                    bool v2 = ((ft[0] << 8) | ft[1]) >= 2; size_t rec = v2 ? 16 : 12, nf = (ft[4] << 8) | ft[5];
                    for (size_t k = 0; k < nf && 12 + (k + 1) * rec <= fl; k++) {
                        uint8_t *r = ft + 12 + k * rec;
                        if (a[0] == "hideall") r[rec - 4] |= 0x08;
                        else if (k == (size_t)atoi(a[1].c_str())) { uint32_t id = (uint32_t)strtoul(a[2].c_str(), 0, 16); if (v2) { r[0] = id >> 24; r[1] = id >> 16; r[2] = id >> 8; r[3] = id; } else { r[0] = id >> 8; r[1] = id; } }
                    }
                }
                else if (a[0] == "set" && a.size() >= 4) { uint32_t t = tagof(a[1]); size_t off = strtoul(a[2].c_str(), 0, 10); if (src.dir.count(t) && off < src.dir[t].second) src.data[src.dir[t].first + off] = (uint8_t)strtoul(a[3].c_str(), 0, 10); }
            }
        }
    }
    gr_face *face;
    if (file) face = gr_make_file_face(path.c_str(), opts);
    else { gr_face_ops ops = { sizeof(gr_face_ops), src_get, src.norel ? 0 : src_rel }; face = gr_make_face_with_ops(&src, &ops, opts); }
    src.log += face ? " M" : " F";
    std::string out = id + " API face=" + (face ? "ok" : "NULL");
    std::map<int, gr_segment *> segs; std::map<int, gr_font *> fonts; std::map<int, gr_feature_val *> fvs; std::map<int, const gr_font *> segfont;
    if (face) {
        for (size_t k = 6; k < f.size(); k++) {
            std::vector<std::string> a = colon(f[k]);
            const std::string &op = a[0];
            std::string r = "?";
            if (op == "seg" && a.size() >= 7) {
                int sl = atoi(a[1].c_str()), enc = atoi(a[2].c_str()), dir = atoi(a[3].c_str());
                if (segs.count(sl)) { gr_seg_destroy(segs[sl]); segs.erase(sl); }
                const gr_font *fo = a[4] != "-" && fonts.count(atoi(a[4].c_str())) ? fonts[atoi(a[4].c_str())] : 0;
                const gr_feature_val *fv = a[5] != "-" && fvs.count(atoi(a[5].c_str())) ? fvs[atoi(a[5].c_str())] : 0;
                std::vector<uint32_t> u = parse_units(a[6], enc);
                void *buf = enc == 8 ? mkbuf<uint8_t>(u) : enc == 16 ? mkbuf<uint16_t>(u) : mkbuf<uint32_t>(u);
                gr_encform ef = enc == 8 ? gr_utf8 : enc == 16 ? gr_utf16 : gr_utf32;
                size_t nch = gr_count_unicode_characters(ef, buf, 0, 0);
                gr_segment *sg = gr_make_seg(fo, face, 0, fv, ef, buf, nch, dir);
                free(buf);
                if (sg) { segs[sl] = sg; segfont[sl] = fo; }
                r = "seg=" + seg_dump(sg, face, fo);
            } else if (op == "dseg" && a.size() >= 2) { int sl = atoi(a[1].c_str()); if (segs.count(sl)) { gr_seg_destroy(segs[sl]); segs.erase(sl); r = "ok"; } else r = "none"; }
            else if (op == "font" && a.size() >= 3) { int sl = atoi(a[1].c_str()); if (!fonts.count(sl)) { gr_font *fo = gr_make_font((float)atof(a[2].c_str()), face); if (fo) fonts[sl] = fo; r = fo ? "ok" : "NULL"; } else r = "busy"; }
            else if (op == "hfont" && a.size() >= 3) {          // a font with an application advance callback ("hinted"): a fixed function of ppm and glyph id
                int sl = atoi(a[1].c_str());
                if (!fonts.count(sl)) {
                    static float hppm[64]; float *h = &hppm[sl & 63]; *h = (float)atof(a[2].c_str());
                    gr_font_ops fops = { sizeof(gr_font_ops), hinted_advance, 0 };
                    gr_font *fo = gr_make_font_with_ops(*h, h, &fops, face); if (fo) fonts[sl] = fo; r = fo ? "ok" : "NULL";
                } else r = "busy";
            }
            else if (op == "dfont" && a.size() >= 2) {
                int sl = atoi(a[1].c_str()); bool used = false;
                for (std::map<int, const gr_font *>::iterator i = segfont.begin(); i != segfont.end(); ++i) if (segs.count(i->first) && fonts.count(sl) && i->second == fonts[sl]) used = true;
                if (fonts.count(sl) && !used) { gr_font_destroy(fonts[sl]); fonts.erase(sl); r = "ok"; } else r = "kept";
            }
            else if (op == "fv" && a.size() >= 3) { int sl = atoi(a[1].c_str()); if (fvs.count(sl)) gr_featureval_destroy(fvs[sl]); fvs[sl] = gr_face_featureval_for_lang(face, (gr_uint32)strtoul(a[2].c_str(), 0, 16)); r = fvs[sl] ? "ok" : "NULL"; if (!fvs[sl]) fvs.erase(sl); }
            else if (op == "setfv" && a.size() >= 4) {
                int sl = atoi(a[1].c_str()); unsigned fi = atoi(a[2].c_str());
                if (fvs.count(sl) && fi < gr_face_n_fref(face)) { const gr_feature_ref *fr = gr_face_fref(face, (gr_uint16)fi); r = std::to_string(gr_fref_set_feature_value(fr, (gr_uint16)atoi(a[3].c_str()), fvs[sl])) + "/" + std::to_string(gr_fref_feature_value(fr, fvs[sl])); } else r = "none";
            }
            else if (op == "dfv" && a.size() >= 2) { int sl = atoi(a[1].c_str()); if (fvs.count(sl)) { gr_featureval_destroy(fvs[sl]); fvs.erase(sl); r = "ok"; } else r = "none"; }
            else if (op == "label" && a.size() >= 4) {
                unsigned fi = atoi(a[1].c_str()); gr_uint16 lang = (gr_uint16)strtoul(a[2].c_str(), 0, 10); int enc = atoi(a[3].c_str());
                if (fi < gr_face_n_fref(face)) { gr_encform ef = enc == 8 ? gr_utf8 : enc == 16 ? gr_utf16 : gr_utf32; gr_uint32 len = 0; void *l = gr_fref_label(gr_face_fref(face, (gr_uint16)fi), &lang, ef, &len); r = "label=" + label_str(l, ef, len); if (l) gr_label_destroy(l); } else r = "nofeat";
            }
            else if (op == "flabel" && a.size() >= 4) {               // flabel:<id hex>:<lang>:<enc>: the feature found by id (hidden ones included) and its label
                gr_uint16 lang = (gr_uint16)strtoul(a[2].c_str(), 0, 10); int enc = atoi(a[3].c_str());
                const gr_feature_ref *fr = gr_face_find_fref(face, (gr_uint32)strtoul(a[1].c_str(), 0, 16));
                if (fr) { gr_encform ef = enc == 8 ? gr_utf8 : enc == 16 ? gr_utf16 : gr_utf32; gr_uint32 len = 0; void *l = gr_fref_label(fr, &lang, ef, &len);
                          char t[24]; snprintf(t, sizeof t, "flabel=%x:", gr_fref_id(fr)); r = t + label_str(l, ef, len); if (l) gr_label_destroy(l);
                          if (gr_fref_n_values(fr)) { void *l2 = gr_fref_value_label(fr, 0, &lang, ef, &len); r += "/" + label_str(l2, ef, len); if (l2) gr_label_destroy(l2); } }
                else r = "flabel=none";
            }
            else if (op == "vlabel" && a.size() >= 5) {
                unsigned fi = atoi(a[1].c_str()); gr_uint16 lang = (gr_uint16)strtoul(a[3].c_str(), 0, 10); int enc = atoi(a[4].c_str());
                if (fi < gr_face_n_fref(face) && (unsigned)atoi(a[2].c_str()) < gr_fref_n_values(gr_face_fref(face, (gr_uint16)fi))) {
                    gr_encform ef = enc == 8 ? gr_utf8 : enc == 16 ? gr_utf16 : gr_utf32; gr_uint32 len = 0;
                    void *l = gr_fref_value_label(gr_face_fref(face, (gr_uint16)fi), (gr_uint16)atoi(a[2].c_str()), &lang, ef, &len); r = "vlabel=" + label_str(l, ef, len); if (l) gr_label_destroy(l);
                } else r = "nofeat";
            }
            else if (op == "info") r = "info=" + face_info(face);
            else if (op == "sup" && a.size() >= 2) { r = "sup="; std::istringstream is(a[1]); std::string x; while (std::getline(is, x, ',')) r += gr_face_is_char_supported(face, (gr_uint32)strtoul(x.c_str(), 0, 16), 0) ? "1" : "0"; }
            else if ((op == "gl" && a.size() >= 2) || op == "gltab") {
                // GlyphCache::glyph(gid) directly (C08/C09/C10 component correspondence with Model/MemoModel.v): a digest of what it returns
                const graphite2::GlyphCache &gc = static_cast<const graphite2::Face *>(face)->glyphs();
                std::vector<unsigned> gids;
                if (op == "gltab") for (unsigned g = 0; g < gc.numGlyphs(); g++) gids.push_back(g);
                else { std::istringstream is(a[1]); std::string x; while (std::getline(is, x, ',')) gids.push_back((unsigned)strtoul(x.c_str(), 0, 10)); }
                r = op + "=" + std::to_string(gc.numGlyphs());
                for (size_t i = 0; i < gids.size(); i++) {
                    const graphite2::GlyphFace *g = gc.glyph((unsigned short)gids[i]);
                    if (!g) { r += ";null"; continue; }
                    char t[200]; snprintf(t, sizeof t, ";%s/%s/%s/%s/%s/%s/%u", fnum(g->theAdvance().x).c_str(), fnum(g->theAdvance().y).c_str(), fnum(g->theBBox().bl.x).c_str(), fnum(g->theBBox().bl.y).c_str(),
                                          fnum(g->theBBox().tr.x).c_str(), fnum(g->theBBox().tr.y).c_str(), (unsigned)g->attrs().capacity());
                    r += t;
                }
            }
            else if (op == "gat" && a.size() >= 2) {
                // the glyph attributes as the face read them from Gloc / Glat (C01 correspondence with Model/GlatModel.v):
                // R = read_glyph returned 0 (the lookup falls back to glyph 0), otherwise the non-zero attributes below min(numAttrs, 48)
                const graphite2::GlyphCache &gc = static_cast<const graphite2::Face *>(face)->glyphs();
                r = "gat=" + std::to_string(gc.numAttrs()) + "," + std::to_string(gc.numGlyphs());
                std::istringstream is(a[1]); std::string x;
                const graphite2::GlyphFace *g0 = gc.glyph(0);
                while (std::getline(is, x, ',')) {
                    unsigned gid = (unsigned)strtoul(x.c_str(), 0, 10);
                    if (gid >= gc.numGlyphs()) { r += " -"; continue; }
                    const graphite2::GlyphFace *g = gc.glyph((unsigned short)gid);
                    if (!g || (gid != 0 && g == g0)) { r += " R"; continue; }
                    std::string vs;
                    for (unsigned k = 0; k < gc.numAttrs() && k < 48; k++) { unsigned v = g->attrs()[(unsigned short)k]; if (v) vs += (vs.empty() ? "" : ",") + std::to_string(k) + "=" + std::to_string(v); }
                    r += " " + (vs.empty() ? std::string("0") : vs);
                }
            }
            else if (op == "just" && a.size() >= 3) { int sl = atoi(a[1].c_str()); if (segs.count(sl) && gr_seg_first_slot(segs[sl])) { float w = gr_seg_justify(segs[sl], gr_seg_first_slot(segs[sl]), segfont[sl], atof(a[2].c_str()), gr_justCompleteLine, 0, 0); r = "just=" + fnum(w); } else r = "none"; }
            else if (op == "break" && a.size() >= 3) {
                int sl = atoi(a[1].c_str());
                if (segs.count(sl)) { const gr_slot *p = gr_seg_first_slot(segs[sl]); for (int i = atoi(a[2].c_str()); i > 0 && p; i--) p = gr_slot_next_in_segment(p); if (p && gr_slot_prev_in_segment(p)) { gr_slot_linebreak_before((gr_slot *)p); r = "cut"; } else r = "nocut"; } else r = "none";
            }
            out += " | " + r;
        }
        for (std::map<int, gr_segment *>::iterator i = segs.begin(); i != segs.end(); ++i) gr_seg_destroy(i->second);
        for (std::map<int, gr_font *>::iterator i = fonts.begin(); i != fonts.end(); ++i) gr_font_destroy(i->second);
        for (std::map<int, gr_feature_val *>::iterator i = fvs.begin(); i != fvs.end(); ++i) gr_featureval_destroy(i->second);
        gr_face_destroy(face);
        src.log += " D";
    }
    // norel mode: the application owns the buffers until the face is gone
    std::string left;
    for (std::map<const void *, long>::iterator i = src.live.begin(); i != src.live.end(); ++i) { left += (left.empty() ? "" : ",") + std::to_string(i->second); free((void *)i->first); }
    int leak = 0;
#ifdef HAVE_LSAN
    leak = __lsan_do_recoverable_leak_check();
#endif
    printf("%s | LOG%s | LEFT=%s | LEAK=%d%s\n", out.c_str(), src.log.empty() ? " -" : src.log.c_str(), left.empty() ? "-" : left.c_str(), leak, src.misuse ? " MISUSE" : "");
}

// ------------------------------------------------------------------ Face::Table component test
struct TSrc { std::vector<uint8_t> plain, lzok, lzbad, shorty; int mode; std::map<const void *, long> live; long next; bool misuse; };
static const void *t_get(const void *h, unsigned int, size_t *len) {
    TSrc *s = (TSrc *)h;
    const std::vector<uint8_t> *v = s->mode == 'p' ? &s->plain : s->mode == 'z' ? &s->lzok : s->mode == 'y' ? &s->lzbad : s->mode == 'b' ? &s->shorty : 0;
    if (!v) { *len = 0; return 0; }
    uint8_t *p = (uint8_t *)malloc(v->size() ? v->size() : 1); memcpy(p, v->data(), v->size()); *len = v->size();
    s->live[p] = s->next++;          // the model numbers application buffers and heap buffers from one counter; ids are compared by rank only
    return p;
}
static void t_rel(const void *h, const void *p) { TSrc *s = (TSrc *)h; if (!s->live.count(p)) { s->misuse = true; return; } s->live.erase(p); free((void *)p); }

static void run_table(const std::vector<std::string> &f) {
    using namespace graphite2;
    bool has_rel = f[2] == "1"; size_t nv = atoi(f[3].c_str());
    TSrc src; src.next = 0; src.misuse = false; src.mode = 0;
    // a table that passes CheckTable for an unknown tag: any 4+ bytes.  version word 0x00010000
    static const uint8_t plain[] = { 0, 1, 0, 0, 1, 2, 3, 4, 5, 6, 7, 8, 9, 10, 11, 12, 13, 14, 15, 16, 17, 18, 19, 20 };
    src.plain.assign(plain, plain + sizeof plain);
    // lz4: version 0x00010000, hdr = scheme 1 << 27 | uncompressed size 64; the block decodes to the version word followed by sixty 7s
    { static const uint8_t blk[] = { 0x5f, 0x00, 0x01, 0x00, 0x00, 0x07, 0x01, 0x00, 0x23, 0x50, 0x07, 0x07, 0x07, 0x07, 0x07 };
      std::vector<uint8_t> v; uint8_t hd[8] = { 0, 1, 0, 0, 0x08, 0, 0, 64 }; v.assign(hd, hd + 8); v.insert(v.end(), blk, blk + sizeof blk); src.lzok = v;
      std::vector<uint8_t> w(v); w[8 + 6] = 0xFF; w[8 + 7] = 0x7F; src.lzbad = w; }      // match distance far before the start of the output
    src.shorty.assign(2, 0);
    gr_face_ops ops = { sizeof(gr_face_ops), t_get, has_rel ? t_rel : 0 };
    Face face(&src, ops);
    std::vector<Face::Table> vars(nv);
    std::string out = f[0] + " T";
    for (size_t k = 4; k <= f.size(); k++) {
        if (k > 4) {
            std::vector<std::string> a = colon(f[k - 1]);
            size_t d = a.size() > 1 ? (size_t)atoi(a[1].c_str()) : 0;
            if (a[0] == "n" && a.size() >= 3 && d < nv) {
                char c = a[2][0];
                src.mode = c == 'a' ? 0 : c == 'b' ? 'b' : c == 'p' ? 'p' : (a[2] == "z1" ? 'z' : 'y');
                if (c == 'z') vars[d] = Face::Table(face, TtfUtil::Tag(0x7a7a7a7a), 0x00010000);     // version threshold reached: decompress() runs
                else vars[d] = Face::Table(face, TtfUtil::Tag(0x7a7a7a7a));
            } else if (a[0] == "m" && a.size() >= 3 && d < nv && (size_t)atoi(a[2].c_str()) < nv && d != (size_t)atoi(a[2].c_str())) vars[d] = std::move(vars[atoi(a[2].c_str())]);
            else if (a[0] == "c" && d < nv) vars[d] = Face::Table();
            out += " |";
        }
        // lent buffers by rank of creation among those still lent, and per variable: null?, compressed?, points to a lent buffer (rank) or to the heap
        std::vector<long> ids; for (std::map<const void *, long>::iterator i = src.live.begin(); i != src.live.end(); ++i) ids.push_back(i->second);
        std::sort(ids.begin(), ids.end());
        out += " L" + std::to_string(ids.size()) + ";";
        for (size_t v = 0; v < nv; v++) {
            const void *p = (const byte *)vars[v];
            std::string w = !p ? "0" : src.live.count(p) ? "A" + std::to_string(std::lower_bound(ids.begin(), ids.end(), src.live[p]) - ids.begin()) : "H";
            out += w + ",";
        }
    }
    vars.clear();
    std::string left = std::to_string(src.live.size());
    for (std::map<const void *, long>::iterator i = src.live.begin(); i != src.live.end(); ++i) free((void *)i->first);
    int leak = 0;
#ifdef HAVE_LSAN
    leak = __lsan_do_recoverable_leak_check();
#endif
    printf("%s | END lent=%s leak=%d%s\n", out.c_str(), left.c_str(), leak, src.misuse ? " MISUSE" : "");
}

// ------------------------------------------------------------------ file face on arbitrary file bytes (C01 / Model/SfntModel.v)
static void run_sfnt(const std::vector<std::string> &f) {
    using namespace graphite2;
    std::vector<uint8_t> bytes = unhex(f[2]);
    char path[256]; snprintf(path, sizeof path, "%s/sfnt_%d.bin", f[3].c_str(), (int)getpid());
    FILE *fp = fopen(path, "wb"); if (fp) { if (!bytes.empty()) fwrite(bytes.data(), 1, bytes.size(), fp); fclose(fp); }
    std::string out = f[0] + " SFNT";
    {
        FileFace ff(path);
        bool valid = bool(ff);
        out += valid ? " open" : " closed";
        for (size_t k = 4; k < f.size(); k++) {
            size_t len = 0;
            const void *t = valid ? (*FileFace::ops.get_table)(&ff, (unsigned)strtoul(f[k].c_str(), 0, 16), &len) : 0;
            if (!t) { out += " NULL"; continue; }
            unsigned long h = 1469598103UL; for (size_t i = 0; i < len; i++) h = (h ^ ((const uint8_t *)t)[i]) * 16777619UL % 4294967296UL;
            out += " " + std::to_string(len) + ":" + std::to_string(h);
            (*FileFace::ops.release_table)(&ff, t);
        }
    }
    unlink(path);
    printf("%s\n", out.c_str());
}

// ------------------------------------------------------------------ Silf::readClassMap (Model/ClassMapModel.v)
//   <id> classmap <silf version hex> <bytes hex>   ->  <id> CM <REJ | OK nclass nlinear max_off offs-hash data-hash>
static void run_classmap(const std::vector<std::string> &f) {
    using namespace graphite2;
    std::vector<uint8_t> b; if (f[3] != "-") for (size_t i = 0; i + 1 < f[3].size(); i += 2) b.push_back((uint8_t)strtoul(f[3].substr(i, 2).c_str(), 0, 16));
    uint8_t *p = (uint8_t *)malloc(b.size() ? b.size() : 1); if (!b.empty()) memcpy(p, b.data(), b.size());      // exact-size copy: ASan sees any read outside
    Silf s; Error e;
    size_t r = s.readClassMap(p, b.size(), (uint32)strtoul(f[2].c_str(), 0, 16), e);
    if (r == 0xFFFFFFFFu || e) printf("%s CM REJ\n", f[0].c_str());
    else {
        unsigned long h1 = 1469598103UL, h2 = 1469598103UL;
        for (unsigned i = 0; i <= s.m_nClass; i++) h1 = ((h1 ^ s.m_classOffsets[i]) * 16777619UL) & 0xFFFFFFFFUL;
        for (size_t i = 0; i < r; i++) h2 = ((h2 ^ s.m_classData[i]) * 16777619UL) & 0xFFFFFFFFUL;
        printf("%s CM OK %u %u %zu %lu %lu\n", f[0].c_str(), (unsigned)s.m_nClass, (unsigned)s.m_nLinear, r, h1, h2);
    }
    free(p);
}

// ------------------------------------------------------------------ Face::readGraphite / Silf::readGraphite (Model/SilfModel.v)
//   <id> silf <font> <Silf table hex>   ->  <id> SILF ng=<n> na=<n> bx=<0|1> ok=<0|1> err=<code> ctx=<hex> [| per accepted subtable: header fields]
// The font's other tables come from the file; the Silf table is served from an exact-size heap copy of the given bytes.
static void run_silf(const std::vector<std::string> &f) {
    using namespace graphite2;
    Source src; src.next = 0; src.norel = false; src.misuse = false;
    std::string path = f[2][0] == '/' ? f[2] : repo + "/tests/fonts/" + f[2];
    FILE *fp = fopen(path.c_str(), "rb");
    if (fp) { fseek(fp, 0, SEEK_END); long n = ftell(fp); fseek(fp, 0, SEEK_SET); src.data.resize(n > 0 ? n : 0); if (n > 0 && fread(src.data.data(), 1, n, fp) != (size_t)n) src.data.clear(); fclose(fp); }
    parse_dir(src);
    size_t at = src.data.size(), n = 0;
    if (f[3] != "-") for (size_t i = 0; i + 1 < f[3].size(); i += 2, n++) src.data.push_back((uint8_t)strtoul(f[3].substr(i, 2).c_str(), 0, 16));
    src.dir[tagof("Silf")] = std::make_pair(at, n);
    gr_face_ops ops = { sizeof(gr_face_ops), src_get, src_rel };
    Face *face = new Face(&src, ops);
    std::string out = f[0] + " SILF";
    {
        Face::Table silf(*face, TtfUtil::Tag::Silf, 0x00050000);
        if (!silf) out += " NOTABLE";
        else if (!face->readGlyphs(0)) out += " NOGLYPHS";
        else {
            const bool feats = face->readFeatures();
            const bool ok = feats && face->readGraphite(silf);
            out += " ng=" + std::to_string(face->glyphs().numGlyphs()) + " na=" + std::to_string(face->glyphs().numAttrs()) + " bx=" + (face->glyphs().hasBoxes() ? "1" : "0");
            char t[64]; snprintf(t, sizeof t, " ok=%d err=%u ctx=%x", ok ? 1 : 0, face->error(), face->m_errcntxt); out += t;
            if (ok) for (unsigned i = 0; i < face->m_numSilf; i++) {
                const Silf &s = face->m_silfs[i];
                unsigned long hj = 1469598103UL, hp = 1469598103UL;
                for (unsigned k = 0; k < s.m_numJusts; k++) { const Justinfo &j = s.m_justs[k]; unsigned v[4] = { j.attrStretch(), j.attrShrink(), j.attrStep(), j.attrWeight() }; for (int q = 0; q < 4; q++) hj = ((hj ^ v[q]) * 16777619UL) & 0xFFFFFFFFUL; }
                for (unsigned k = 0; k < s.m_numPseudo; k++) { hp = ((hp ^ s.m_pseudos[k].uid) * 16777619UL) & 0xFFFFFFFFUL; hp = ((hp ^ s.m_pseudos[k].gid) * 16777619UL) & 0xFFFFFFFFUL; }
                snprintf(t, sizeof t, " | %u %u %u %u %u %u", s.m_numPasses, s.m_sPass, s.m_pPass, s.m_jPass, s.m_bPass, s.m_flags); out += t;
                snprintf(t, sizeof t, " %u %u %u %u %u", s.m_aPseudo, s.m_aBreak, s.m_aBidi, s.m_aMirror, s.m_aPassBits); out += t;
                snprintf(t, sizeof t, " %u:%lu %u %u %u %u %u %u", s.m_numJusts, hj, s.m_aLig, s.m_aUser, s.m_iMaxComp, s.m_dir, s.m_aCollision, s.m_gEndLine); out += t;
                snprintf(t, sizeof t, " %u:%lu %u %u", s.m_numPseudo, hp, s.m_nClass, s.m_nLinear); out += t;
            }
        }
    }
    delete face;
    if (src.misuse || !src.live.empty()) out += " LEAKED-TABLE";
    printf("%s\n", out.c_str());
}

// ------------------------------------------------------------------ graphite2::sparse (Model/SparseModel.v)
//   <id> sparse <k:v,k:v,...|-> <key,key,...>     ->  <id> SP <ok|null> cap=<n> <value;value;...>
static void run_sparse(const std::vector<std::string> &f) {
    using namespace graphite2;
    std::vector<std::pair<uint16_t, uint16_t> > ps;
    if (f[2] != "-") { std::istringstream is(f[2]); std::string x; while (std::getline(is, x, ',')) { size_t c = x.find(':'); ps.push_back(std::make_pair((uint16_t)atoi(x.substr(0, c).c_str()), (uint16_t)atoi(x.substr(c + 1).c_str()))); } }
    // exact-size heap copy so that ASan sees any read outside the pairs
    std::pair<uint16_t, uint16_t> *arr = (std::pair<uint16_t, uint16_t> *)malloc(ps.size() * sizeof(ps[0]) + 1);
    for (size_t i = 0; i < ps.size(); i++) arr[i] = ps[i];
    std::string out = f[0] + " SP";
    {
        sparse sp(arr, arr + ps.size());
        if (!sp) out += " null";
        else {
            out += " ok cap=" + std::to_string(sp.capacity());
            std::istringstream is(f[3]); std::string x; std::string vals;
            while (std::getline(is, x, ',')) vals += (vals.empty() ? "" : ";") + std::to_string(sp[(uint16_t)atoi(x.c_str())]);
            out += " " + vals;
        }
    }
    free(arr);
    printf("%s\n", out.c_str());
}

int main(int argc, char **argv) {
    repo = argc > 1 ? argv[1] : "/repo";
    std::string line;
    while (std::getline(std::cin, line)) {
        std::vector<std::string> f = split_ws(line);
        case_begin(f.empty() ? std::string("?") : f[0]);
        if (f.size() >= 6 && f[1] == "api") run_api(f);
        else if (f.size() >= 4 && f[1] == "table") run_table(f);
        else if (f.size() >= 4 && f[1] == "sfnt") run_sfnt(f);
        else if (f.size() >= 4 && f[1] == "sparse") run_sparse(f);
        else if (f.size() >= 4 && f[1] == "classmap") run_classmap(f);
        else if (f.size() >= 4 && f[1] == "silf") run_silf(f);
        else printf("%s BAD\n", f.empty() ? "?" : f[0].c_str());
        fflush(stdout); case_end();
    }
    return 0;
}
