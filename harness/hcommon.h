// hcommon.h — shared helpers for the implementation-side correspondence harnesses.
// Each harness reads one case per line on stdin and prints one canonical result line per case.
#pragma once
#include <cstdio>
#include <cstdlib>
#include <cstring>
#include <string>
#include <vector>
#include <sstream>
#include <iostream>
#include <cstdint>
#include <csignal>
#include <unistd.h>

// Per-case watchdog: a case that does not finish within the limit is reported as "<id> ABORT timeout" and the process
// exits (the driver restarts the harness after the culprit).  Decides "loops forever" without wall-clock tuning per check.
static char g_case_id[64] = "?";
static void hc_on_alarm(int) {
    char buf[96]; int n = snprintf(buf, sizeof buf, "%s ABORT timeout watchdog\n", g_case_id);
    if (write(1, buf, n) < 0) {}
    _exit(0);
}
static inline void case_begin(const std::string &id, unsigned seconds = 20) {
    strncpy(g_case_id, id.c_str(), sizeof g_case_id - 1); g_case_id[sizeof g_case_id - 1] = 0;
    signal(SIGALRM, hc_on_alarm); alarm(seconds);
}
static inline void case_end() { alarm(0); }

static inline std::vector<std::string> split_ws(const std::string &s) {
    std::vector<std::string> out; std::istringstream is(s); std::string t;
    while (is >> t) out.push_back(t);
    return out;
}
static inline int hexval(char c) { return c <= '9' ? c - '0' : (c | 32) - 'a' + 10; }
static inline std::vector<uint8_t> unhex(const std::string &h) {
    std::vector<uint8_t> out;
    if (h == "-") return out;
    for (size_t i = 0; i + 1 < h.size(); i += 2) out.push_back(uint8_t(hexval(h[i]) * 16 + hexval(h[i + 1])));
    return out;
}
static inline std::string tohex(const uint8_t *p, size_t n) {
    static const char *d = "0123456789abcdef"; std::string s;
    for (size_t i = 0; i < n; i++) { s += d[p[i] >> 4]; s += d[p[i] & 15]; }
    return s.empty() ? "-" : s;
}
// exact-size heap copy: ASan red zones sit directly after the last byte
static inline uint8_t *exact_copy(const std::vector<uint8_t> &v, size_t extra_zero = 0) {
    uint8_t *p = (uint8_t *)malloc(v.size() + extra_zero ? v.size() + extra_zero : 1);
    if (!v.empty()) memcpy(p, v.data(), v.size());
    for (size_t i = 0; i < extra_zero; i++) p[v.size() + i] = 0;
    return p;
}
